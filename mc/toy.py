"""Toy counter machine used by --selftest: the explorer must find the planted bug by a shortest history
and enumerate the bug-free machine's state space completely."""
from mc.core import Check, Failure


class _Counter(object):
    def __init__(self, buggy):
        self.a = 0
        self.b = 0
        self.buggy = buggy

    def inc_a(self):
        self.a = (self.a + 1) % 4

    def inc_b(self):
        self.b = (self.b + 1) % 3
        if self.buggy and self.a == 2 and self.b == 2:
            self.a = 0  # planted: needs inc_a, inc_a, inc_b, inc_b (in some order ending with inc_b)


class ToyGood(Check):
    id = "TOY"
    BUGGY = False
    N_STATES = 12

    def depth(self):
        return 6

    def roots(self):
        return [("zero",)]

    def build(self, root):
        return {"live": _Counter(self.BUGGY), "model": [0, 0]}

    def ops(self, state, level):
        return [("inc_a",), ("inc_b",)]

    def apply(self, state, op, verify=True):
        getattr(state["live"], op[0])()
        m = state["model"]
        if op[0] == "inc_a":
            m[0] = (m[0] + 1) % 4
        else:
            m[1] = (m[1] + 1) % 3
        self.note("%s:%s" % (op[0], tuple(m)))
        if verify and (state["live"].a, state["live"].b) != tuple(m):
            return [Failure(op[0], "counter", "model %r live %r" % (m, (state["live"].a, state["live"].b)))]
        return []

    def canon(self, state):
        return (tuple(state["model"]), state["live"].a, state["live"].b)

    def rule(self):
        return "toy"


class Toy(ToyGood):
    BUGGY = True
    SHORTEST = 4
