"""Shared object alphabets: structure is fixed, payload (coordinates, pixel values) is seeded through
numpy.random.RandomState(seed) with a deterministic general-position guard (DESIGN.md 2.2).

Everything is addressed by a plain JSON-able spec so that replay files can rebuild the exact objects.
"""
import collections

import numpy as np

# ------------------------------------------------------------------------------------------------
# payload
# ------------------------------------------------------------------------------------------------
MIN_DIST = 0.8  # minimum pairwise distance of generated point sets on a 6 x 6 (x 6) domain
MIN_AREA = 0.35  # minimum area of every triangle spanned by generated 2-D point triples (general position)


def rs(seed, *salt):
    """Independent deterministic stream for (seed, salt...)."""
    import zlib

    h = zlib.crc32(repr(salt).encode()) & 0x7FFFFFFF
    return np.random.RandomState((int(seed) * 1000003 + h) % (2 ** 31 - 1))


def generic_points(n, d, seed, salt="pts", lo=0.5, hi=5.5, min_dist=MIN_DIST, min_area=None):
    """n points in [lo,hi]^d, pairwise distance >= min_dist, and (2-D, optional) no nearly collinear triple."""
    r = rs(seed, salt, n, d)
    for attempt in range(10000):
        p = lo + (hi - lo) * r.rand(n, d)
        ok = True
        if n > 1:
            diff = p[:, None, :] - p[None, :, :]
            dist = np.sqrt((diff ** 2).sum(-1)) + np.eye(n) * 1e9
            ok = dist.min() >= min_dist
        if ok and min_area and d == 2 and n >= 3:
            import itertools

            for i, j, k in itertools.combinations(range(n), 3):
                a = 0.5 * abs((p[j, 0] - p[i, 0]) * (p[k, 1] - p[i, 1]) - (p[j, 1] - p[i, 1]) * (p[k, 0] - p[i, 0]))
                if a < min_area:
                    ok = False
                    break
        if ok:
            return p
    raise RuntimeError("general-position guard could not be satisfied (n=%d d=%d)" % (n, d))


# a fixed planar triangulation pattern usable with any 5 generic points is not guaranteed non-folding, so
# meshes used as *transform domains* (PWA) use this explicit convex layout jittered by the seed
def pwa_layout(seed, salt="pwa"):
    base = np.array([[0.5, 0.5], [0.5, 5.5], [5.5, 5.5], [5.5, 0.5], [3.0, 3.0]])
    r = rs(seed, salt)
    src = base + (r.rand(5, 2) - 0.5) * 0.4
    trilist = np.array([[0, 1, 4], [1, 2, 4], [2, 3, 4], [3, 0, 4]])
    return src, trilist


TRILIST5 = np.array([[0, 1, 2], [1, 2, 3], [2, 3, 4]])
EDGES5 = np.array([[0, 1], [1, 2], [3, 4]])
TREE5 = np.array([[0, 1], [0, 2], [1, 3], [1, 4]])
LABELS5 = collections.OrderedDict([("zeta", [0, 1, 2]), ("alpha", [2, 3, 4]), ("mid", [1, 3])])

SHAPE_CLASSES = ["PointCloud", "TriMesh", "ColouredTriMesh", "TexturedTriMesh", "PointUndirectedGraph", "PointDirectedGraph", "PointTree", "LabelledPointUndirectedGraph"]
LM_CLASSES = ["PointCloud", "PointUndirectedGraph", "LabelledPointUndirectedGraph", "TriMesh"]


def bare_shape(cls, d, seed, salt="shape", n=5):
    """One generic instance of a shape class (5 points) without landmarks."""
    from menpo.image import Image
    from menpo.shape import (
        ColouredTriMesh,
        LabelledPointUndirectedGraph,
        PointCloud,
        PointDirectedGraph,
        PointTree,
        PointUndirectedGraph,
        TexturedTriMesh,
        TriMesh,
    )

    p = generic_points(n, d, seed, (salt, cls))
    r = rs(seed, salt, cls, "attr")
    if cls == "PointCloud":
        return PointCloud(p)
    if cls == "TriMesh":
        return TriMesh(p, TRILIST5)
    if cls == "ColouredTriMesh":
        return ColouredTriMesh(p, TRILIST5, r.rand(n, 3))
    if cls == "TexturedTriMesh":
        return TexturedTriMesh(p, r.rand(n, 2), Image(r.rand(2, 4, 5)), TRILIST5)
    if cls == "PointUndirectedGraph":
        return PointUndirectedGraph.init_from_edges(p, EDGES5)
    if cls == "PointDirectedGraph":
        return PointDirectedGraph.init_from_edges(p, EDGES5)
    if cls == "PointTree":
        return PointTree.init_from_edges(p, TREE5, 0)
    if cls == "LabelledPointUndirectedGraph":
        return LabelledPointUndirectedGraph.init_from_indices_mapping(p, EDGES5, LABELS5)
    raise ValueError(cls)


def add_landmarks(obj, k, seed, salt="lm"):
    """Attach k landmark groups whose classes cycle through LM_CLASSES (3..5 points each)."""
    d = obj.n_dims
    for i in range(k):
        cls = LM_CLASSES[i % len(LM_CLASSES)]
        obj.landmarks["g%d.%s" % (i, cls[:3])] = bare_shape(cls, d, seed, (salt, i))
    return obj


def shape(spec, seed):
    """spec = (class name, n_dims, n landmark groups)."""
    cls, d, k = spec[0], int(spec[1]), int(spec[2])
    return add_landmarks(bare_shape(cls, d, seed), k, seed)


def shape_specs(dims=(2, 3), groups=(0, 1, 2)):
    return [(c, d, k) for c in SHAPE_CLASSES for d in dims for k in groups]


# ------------------------------------------------------------------------------------------------
# images
# ------------------------------------------------------------------------------------------------
def image(spec, seed):
    """spec = (kind, shape tuple, channels, dtype name, mask kind, n landmark groups)
    kind in Image/MaskedImage/BooleanImage; mask kind in all/sparse/single (MaskedImage only)."""
    from menpo.image import BooleanImage, Image, MaskedImage

    kind, shp, c, dtype, mkind, k = spec[0], tuple(spec[1]), int(spec[2]), spec[3], spec[4], int(spec[5])
    r = rs(seed, "img", kind, shp, c, dtype)
    if kind == "BooleanImage":
        m = r.rand(*shp) > 0.4
        m.flat[0] = True
        m.flat[-1] = False
        im = BooleanImage(m)
    else:
        if dtype == "uint8":
            px = r.randint(0, 256, size=(c,) + shp).astype(np.uint8)
        else:
            px = r.rand(*((c,) + shp)).astype(dtype)
        if kind == "Image":
            im = Image(px)
        else:
            if mkind == "all":
                m = np.ones(shp, dtype=bool)
            elif mkind == "single":
                m = np.zeros(shp, dtype=bool)
                m.flat[len(m.flat) // 2] = True
            else:
                m = r.rand(*shp) > 0.45
                m.flat[0] = True
                m.flat[1] = False
            im = MaskedImage(px, mask=m)
    for i in range(k):
        cls = LM_CLASSES[i % 3]
        g = bare_shape(cls, len(shp), seed, ("imglm", i))
        g.points = g.points * (np.array(shp) - 1) / 6.0
        im.landmarks["g%d" % i] = g
    return im


def image_specs():
    out = []
    for shp in ((3, 4), (2, 3, 2)):
        for c, dt in ((1, "float64"), (3, "float64"), (2, "float32"), (1, "uint8")):
            out.append(("Image", shp, c, dt, "-", 2))
            for mk in ("all", "sparse", "single"):
                out.append(("MaskedImage", shp, c, dt, mk, 1))
        out.append(("BooleanImage", shp, 1, "bool", "-", 1))
    return out


# ------------------------------------------------------------------------------------------------
# transforms
# ------------------------------------------------------------------------------------------------
HOMOG_PLAIN = ["Homogeneous", "Affine", "Similarity", "Rotation", "UniformScale", "NonUniformScale", "Translation"]
HOMOG_ALIGN = ["AlignmentAffine", "AlignmentSimilarity", "AlignmentRotation", "AlignmentUniformScale", "AlignmentTranslation"]
HOMOG_ALL = HOMOG_PLAIN + HOMOG_ALIGN


def rotation_matrix(d, seed, salt="rot"):
    r = rs(seed, salt, d)
    if d == 2:
        t = np.deg2rad(25 + 40 * r.rand())
        return np.array([[np.cos(t), -np.sin(t)], [np.sin(t), np.cos(t)]])
    q, _ = np.linalg.qr(r.randn(3, 3) + 2 * np.eye(3))
    if np.linalg.det(q) < 0:
        q[:, 0] *= -1
    return q


def transform(spec, seed):
    """spec = (class name, n_dims[, variant]).  Generic, well-conditioned instances."""
    import menpo.transform as mt
    from menpo.shape import PointCloud
    from menpo.transform.piecewiseaffine.base import CachedPWA, PythonPWA

    name, d = spec[0], int(spec[1])
    var = spec[2] if len(spec) > 2 else 0
    r = rs(seed, "tr", name, d, var)
    rot = rotation_matrix(d, seed, ("tr", name, var))
    t = 0.5 + r.rand(d)
    if name == "Homogeneous":
        h = np.eye(d + 1)
        h[:d, :d] = rot.dot(np.diag(0.8 + 0.6 * r.rand(d))) + 0.1 * r.rand(d, d)
        h[:d, d] = t
        h[d, :d] = 0.01 + 0.02 * r.rand(d)  # projective row, small so probes stay away from the horizon
        return mt.Homogeneous(h)
    if name == "Affine":
        h = np.eye(d + 1)
        h[:d, :d] = rot.dot(np.diag(0.7 + 0.8 * r.rand(d))) + 0.15 * r.rand(d, d)
        h[:d, d] = t
        return mt.Affine(h)
    if name == "Similarity":
        h = np.eye(d + 1)
        h[:d, :d] = (0.6 + r.rand()) * rot
        h[:d, d] = t
        return mt.Similarity(h)
    if name == "Rotation":
        return mt.Rotation(rot)
    if name == "UniformScale":
        return mt.UniformScale(0.6 + r.rand(), d)
    if name == "NonUniformScale":
        return mt.NonUniformScale(0.6 + 0.3 * np.arange(1, d + 1) + 0.2 * r.rand(d))
    if name == "Translation":
        return mt.Translation(t)
    if name.startswith("Alignment"):
        src = PointCloud(generic_points(5, d, seed, ("al-src", name, var)))
        a = np.eye(d + 1)
        a[:d, :d] = rot.dot(np.diag(0.8 + 0.5 * r.rand(d))) + 0.1 * r.rand(d, d)
        a[:d, d] = t
        tgt = PointCloud(mt.Affine(a).apply(src.points) + 0.05 * r.randn(5, d))
        return getattr(mt, name)(src, tgt)
    if name == "TransformChain":
        return mt.TransformChain([transform(("Affine", d, 1), seed), transform(("Rotation", d, 2), seed), transform(("Translation", d, 3), seed)])
    if name == "WithDims":
        return mt.WithDims([1, 0] if d == 2 else [0, 1])
    if name in ("ThinPlateSplines", "TPS-R2LogRRBF"):
        src = generic_points(6, 2, seed, ("tps-src", var), min_area=MIN_AREA)
        tgt = src + 0.35 * (r.rand(6, 2) - 0.5)
        if name == "ThinPlateSplines":
            return mt.ThinPlateSplines(PointCloud(src), PointCloud(tgt))
        return mt.ThinPlateSplines(PointCloud(src), PointCloud(tgt), kernel=mt.R2LogRRBF(src))
    if name in ("PiecewiseAffine", "PythonPWA", "CachedPWA"):
        from menpo.shape import TriMesh

        src, tl = pwa_layout(seed, ("pwa", var))
        tgt = src + 0.5 * (r.rand(5, 2) - 0.5)
        cls = {"PiecewiseAffine": mt.PiecewiseAffine, "PythonPWA": PythonPWA, "CachedPWA": CachedPWA}[name]
        return cls(TriMesh(src, tl), TriMesh(tgt, tl))
    raise ValueError(spec)


def transform_specs(d, warps=True):
    out = [(n, d) for n in HOMOG_ALL] + [("TransformChain", d), ("WithDims", d)]
    if d == 2 and warps:
        out += [("ThinPlateSplines", 2), ("TPS-R2LogRRBF", 2), ("PythonPWA", 2), ("CachedPWA", 2)]
    return out


def pwa_domain_points(seed, n=6, salt="dom"):
    """points strictly inside the square spanned by pwa_layout (valid for every PWA letter)."""
    r = rs(seed, salt, n)
    return 1.2 + 3.6 * r.rand(n, 2)


# ------------------------------------------------------------------------------------------------
# models
# ------------------------------------------------------------------------------------------------
def spectrum_data(n, d, seed, salt="data", centred=True, mean_scale=3.0):
    """n x d data matrix with a well separated spectrum: U diag(5,3,2,1,0.6,..) V^T + mean."""
    r = rs(seed, salt, n, d)
    k = min(n - 1 if centred else n, d)
    u, _ = np.linalg.qr(r.randn(n, n))
    v, _ = np.linalg.qr(r.randn(d, d))
    s = np.array([5.0, 3.0, 2.0, 1.2, 0.7, 0.4, 0.25, 0.15, 0.1, 0.06][:k])
    x = (u[:, :k] * s).dot(v[:, :k].T)
    if centred:
        x = x - x.mean(axis=0)
    return x + mean_scale * r.rand(d)
