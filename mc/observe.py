"""Behavioural digests built from public API only (DESIGN.md 2.4).

observe(obj)  -> nested dict / list / ndarray / scalar structure
obs_diff(a,b) -> None if equal (within tolerance) else a path string of the first difference
obs_key(o)    -> hashable canonical key (arrays rounded)
buffers(obj)  -> [(path, ndarray)] every array reachable through __dict__ (places to write into)
"""
import collections

import numpy as np
import scipy.sparse as sp

PROBE2 = np.array([[0.3, 0.7], [1.9, 0.4], [1.1, 2.2], [2.6, 1.7], [0.8, 1.3]])
PROBE3 = np.array([[0.3, 0.7, 0.2], [1.9, 0.4, 1.1], [1.1, 2.2, 0.6], [2.6, 1.7, 2.4], [0.8, 1.3, 1.9]])


def _edges_of(g):
    """(edge list with weights) from the public adjacency matrix."""
    am = g.adjacency_matrix
    coo = sp.coo_matrix(am)
    items = sorted(zip(coo.row.tolist(), coo.col.tolist(), [float(x) for x in coo.data]))
    return [list(t) for t in items if t[2] != 0]


def observe(o, probe=True, _depth=0):
    from menpo.base import LazyList
    from menpo.image import BooleanImage, Image, MaskedImage
    from menpo.landmark import LandmarkManager
    from menpo.shape import (
        ColouredTriMesh,
        LabelledPointUndirectedGraph,
        PointCloud,
        PointTree,
        TexturedTriMesh,
        TriMesh,
    )
    from menpo.shape.graph import Graph, Tree
    from menpo.transform import Homogeneous, ThinPlateSplines, TransformChain
    from menpo.transform.base.alignment import Alignment
    from menpo.transform.piecewiseaffine.base import AbstractPWA

    if _depth > 8:
        return "<too deep>"
    if o is None or isinstance(o, (bool, int, float, str)):
        return o
    if isinstance(o, np.generic):
        return o.item()
    if isinstance(o, np.ndarray):
        return o.copy()
    if sp.issparse(o):
        return {"sparse": np.asarray(o.todense())}
    if isinstance(o, (list, tuple)):
        return [observe(x, probe, _depth + 1) for x in o]
    if isinstance(o, dict):
        return {"dict_order": [repr(k) for k in o.keys()], "items": {repr(k): observe(v, probe, _depth + 1) for k, v in o.items()}}
    d = collections.OrderedDict()
    d["class"] = type(o).__name__
    if isinstance(o, LandmarkManager):
        d["groups"] = list(o.keys())
        d["n_dims"] = o.n_dims
        d["values"] = [observe(o[k], probe, _depth + 1) for k in o.keys()]
        return d
    if isinstance(o, Image):
        d["pixels"] = o.pixels.copy()
        if isinstance(o, MaskedImage):
            d["mask"] = o.mask.pixels.copy()
        if o.has_landmarks:
            d["landmarks"] = observe(o.landmarks, probe, _depth + 1)
        return d
    if isinstance(o, PointCloud):
        d["points"] = o.points.copy()
        if isinstance(o, Graph):
            d["edges"] = _edges_of(o)
            d["n_vertices"] = o.n_vertices
        if isinstance(o, Tree):
            d["root"] = int(o.root_vertex)
        if isinstance(o, LabelledPointUndirectedGraph):
            d["labels"] = list(o.labels)
            d["masks"] = [np.asarray(o._labels_to_masks[l]).copy() for l in o.labels]
        if isinstance(o, TriMesh):
            d["trilist"] = o.trilist.copy()
        if isinstance(o, ColouredTriMesh):
            d["colours"] = o.colours.copy()
        if isinstance(o, TexturedTriMesh):
            d["tcoords"] = o.tcoords.points.copy()
            d["texture"] = observe(o.texture, probe, _depth + 1)
        if o.has_landmarks:
            d["landmarks"] = observe(o.landmarks, probe, _depth + 1)
        return d
    if isinstance(o, Graph):
        d["edges"] = _edges_of(o)
        d["n_vertices"] = o.n_vertices
        if isinstance(o, Tree):
            d["root"] = int(o.root_vertex)
        return d
    if isinstance(o, LazyList):
        d["len"] = len(o)
        return d
    # transforms
    if hasattr(o, "apply") and hasattr(o, "n_dims"):
        n_dims = None
        try:
            n_dims = o.n_dims
        except Exception:
            n_dims = None
        d["n_dims"] = n_dims
        if isinstance(o, Homogeneous):
            d["h_matrix"] = np.array(o.h_matrix, copy=True)
        if isinstance(o, TransformChain):
            d["members"] = [observe(t, probe, _depth + 1) for t in o.transforms]
        if isinstance(o, Alignment):
            d["source"] = o.source.points.copy()
            d["target"] = o.target.points.copy()
            for opt in ("allow_mirror", "rotation", "min_singular_val"):
                if hasattr(o, opt):
                    d[opt] = getattr(o, opt)
        if isinstance(o, ThinPlateSplines):
            d["kernel"] = type(o.kernel).__name__
        if isinstance(o, AbstractPWA):
            d["trilist"] = o.trilist.copy()
        if probe and not isinstance(o, AbstractPWA):
            x = PROBE2 if n_dims == 2 else PROBE3 if n_dims == 3 else None
            if x is not None:
                try:
                    d["probe"] = np.asarray(o.apply(x.copy()))
                except Exception as e:  # a transform that cannot be applied is observed as such
                    d["probe"] = "raises " + type(e).__name__
        if probe and isinstance(o, AbstractPWA):
            # probe inside the source domain: barycentric combinations of each source triangle
            tri = o.source.points[o.trilist]
            x = tri.mean(axis=1)
            try:
                d["probe"] = np.asarray(o.apply(x))
            except Exception as e:
                d["probe"] = "raises " + type(e).__name__
        return d
    # models
    if hasattr(o, "components") or hasattr(o, "_components"):
        for name in ("n_components", "n_active_components", "n_samples", "n_features"):
            try:
                d[name] = int(getattr(o, name))
            except Exception:
                pass
        try:
            d["components"] = np.array(o.components, copy=True)
        except Exception as e:
            d["components"] = "raises " + type(e).__name__
        for name in ("eigenvalues",):
            if hasattr(o, name):
                d[name] = np.array(getattr(o, name), copy=True)
        if hasattr(o, "_mean") or hasattr(o, "mean"):
            try:
                m = o.mean() if callable(getattr(o, "mean", None)) else o._mean
                d["mean"] = observe(m, probe, _depth + 1)
            except Exception as e:
                d["mean"] = "raises " + type(e).__name__
        for name in ("variance", "original_variance", "noise_variance"):
            f = getattr(o, name, None)
            if callable(f):
                try:
                    d[name] = float(f())
                except Exception as e:
                    d[name] = "raises " + type(e).__name__
        return d
    # GMRF
    if hasattr(o, "precision") and hasattr(o, "mean_vector"):
        d["mean_vector"] = np.array(o.mean_vector, copy=True)
        p = o.precision
        d["precision"] = np.asarray(p.todense()) if sp.issparse(p) else np.array(p, copy=True)
        d["n_samples"] = int(o.n_samples)
        return d
    # fall back: public attributes holding arrays
    for k, v in sorted(vars(o).items()):
        d[k] = observe(v, probe, _depth + 1) if isinstance(v, (np.ndarray, int, float, str, bool, type(None))) else repr(type(v))
    return d


def obs_diff(a, b, atol=0.0, rtol=0.0, path="", skip=()):
    """None when equal; else a description of the first difference."""
    if path in skip:
        return None
    if isinstance(a, np.ndarray) or isinstance(b, np.ndarray):
        if not (isinstance(a, np.ndarray) and isinstance(b, np.ndarray)):
            return "%s: %s vs %s" % (path, type(a).__name__, type(b).__name__)
        if a.shape != b.shape:
            return "%s: shape %s vs %s" % (path, a.shape, b.shape)
        if a.dtype != b.dtype:
            return "%s: dtype %s vs %s" % (path, a.dtype, b.dtype)
        if a.dtype.kind in "fc":
            if atol == 0 and rtol == 0:
                ok = np.array_equal(a, b, equal_nan=True)
            else:
                ok = np.allclose(a, b, atol=atol, rtol=rtol, equal_nan=True)
            if not ok:
                with np.errstate(invalid="ignore"):
                    err = np.nanmax(np.abs(a.astype(float) - b.astype(float))) if a.size else 0.0
                return "%s: arrays differ (max abs %.3g)" % (path, err)
        elif not np.array_equal(a, b):
            return "%s: arrays differ" % path
        return None
    if isinstance(a, dict) and isinstance(b, dict):
        ka, kb = list(a.keys()), list(b.keys())
        if ka != kb:
            return "%s: keys %s vs %s" % (path, ka, kb)
        for k in ka:
            r = obs_diff(a[k], b[k], atol, rtol, path + "." + str(k), skip)
            if r:
                return r
        return None
    if isinstance(a, (list, tuple)) and isinstance(b, (list, tuple)):
        if len(a) != len(b):
            return "%s: len %d vs %d" % (path, len(a), len(b))
        for i, (x, y) in enumerate(zip(a, b)):
            r = obs_diff(x, y, atol, rtol, path + "[%d]" % i, skip)
            if r:
                return r
        return None
    if isinstance(a, float) and isinstance(b, float):
        if a == b or (a != a and b != b):
            return None
        if abs(a - b) <= atol + rtol * abs(b):
            return None
        return "%s: %r vs %r" % (path, a, b)
    if type(a) != type(b) and not (isinstance(a, (int, float)) and isinstance(b, (int, float))):
        return "%s: %r vs %r" % (path, a, b)
    if a != b:
        return "%s: %r vs %r" % (path, a, b)
    return None


def obs_key(o, decimals=9):
    """Hashable canonical form of an observation."""
    if isinstance(o, np.ndarray):
        if o.dtype.kind in "fc":
            r = np.round(o.astype(float), decimals) + 0.0  # +0.0 folds -0.0
            return ("A", o.shape, str(o.dtype), r.tobytes())
        return ("A", o.shape, str(o.dtype), np.ascontiguousarray(o).tobytes())
    if isinstance(o, dict):
        return ("D",) + tuple((str(k), obs_key(v, decimals)) for k, v in o.items())
    if isinstance(o, (list, tuple)):
        return ("L",) + tuple(obs_key(v, decimals) for v in o)
    if isinstance(o, float):
        return round(o, decimals) + 0.0
    return o


def buffers(o, path="", seen=None, out=None, max_depth=10):
    """Every ndarray reachable through __dict__ / dict / list / sparse matrices."""
    if seen is None:
        seen = set()
        out = []
    if id(o) in seen or max_depth < 0:
        return out
    seen.add(id(o))
    if isinstance(o, np.ndarray):
        if o.dtype != object:
            out.append((path, o))
        return out
    if sp.issparse(o):
        for a in ("data", "indices", "indptr"):
            if hasattr(o, a):
                out.append((path + "." + a, getattr(o, a)))
        return out
    if isinstance(o, dict):
        for k, v in o.items():
            buffers(v, path + "[%r]" % (k,), seen, out, max_depth - 1)
        return out
    if isinstance(o, (list, tuple)):
        for i, v in enumerate(o):
            buffers(v, path + "[%d]" % i, seen, out, max_depth - 1)
        return out
    if isinstance(o, (str, bytes, int, float, bool, type(None), type)):
        return out
    if hasattr(o, "__dict__") and not callable(o):
        for k, v in vars(o).items():
            buffers(v, path + "." + k, seen, out, max_depth - 1)
    return out


def flip(arr, index=0, through_readonly=False):
    """Write a different value into one element of `arr` in place; returns the old value (or None if
    the array is empty / read-only)."""
    if arr.size == 0:
        return None
    if not arr.flags.writeable and not through_readonly:
        return None
    if not arr.flags.writeable:
        # (opt-in) a read-only array whose memory is owned by a writable array (a view handed out read-only, e.g. by
        # as_vector(), or built with copy=False from a protected view) can still be written by whoever holds the
        # owner: do the write through it.  Memory that is read-only at its owner is left alone.
        try:
            arr.setflags(write=True)
        except ValueError:
            return None
        try:
            tok = flip(arr, index, True)
        finally:
            arr.setflags(write=False)
        return ("ro", tok)
    flat = arr.reshape(-1) if arr.flags.c_contiguous else None
    if flat is None or not np.shares_memory(flat, arr):
        idx = np.unravel_index(index % arr.size, arr.shape)
        old = arr[idx].copy()
        arr[idx] = _other(old, arr.dtype)
        return (idx, old)
    i = index % arr.size
    old = flat[i].copy()
    flat[i] = _other(old, arr.dtype)
    return (i, old)


def _other(v, dtype):
    if dtype == bool:
        return not bool(v)
    if dtype.kind in "iu":
        return v + 1 if v < np.iinfo(dtype).max else v - 1
    return v + 1.5 if np.isfinite(v) else 0.0


def unflip(arr, token):
    if token is None:
        return
    if token[0] == "ro":
        arr.setflags(write=True)
        try:
            unflip(arr, token[1])
        finally:
            arr.setflags(write=False)
        return
    i, old = token
    if isinstance(i, tuple):
        arr[i] = old
    else:
        arr.reshape(-1)[i] = old
