"""C20 - convenience transform constructors follow their documented conventions.

Roots / ops
  ('rot', axis, unit)      state = a live Rotation accumulated by composing constructor rotations; op = turn by one
                           angle letter; model = the summed signed angle; oracle = Rodrigues' formula, the reported
                           axis/angle reconstructs the matrix (sign included), degrees == radians.
  ('axisangle', k)         proper 3-D rotation matrices from an axis-angle grid: reported axis/angle reconstructs.
  ('quat', k)              unit quaternions (canonical sign) <-> rotation round trips.
  ('centre', obj letter)   ops = transform letters: T(c) = c for linear maps and T(c + d) - c = t(d) on an offset alphabet.
  ('scale',)               ops = factor letters: UniformScale iff all equal, NonUniformScale otherwise, zeros refused.
  ('tcoords', shape)       corners of the unit square -> corner pixels with the vertical axis flipped; mutual inverses.
"""
import itertools

import numpy as np

from mc.core import Check, Failure
from mc.letters import generic_points, rs

ANGLES_DEG = [-400, -270, -135, -90, -30, 30, 45, 90, 135, 200, 270, 330, 400, 725]
AXES = {"x": np.array([1.0, 0, 0]), "y": np.array([0, 1.0, 0]), "z": np.array([0, 0, 1.0])}
TOL = 1e-12


def rodrigues(axis, theta):
    a = np.asarray(axis, dtype=float)
    a = a / np.linalg.norm(a)
    K = np.array([[0, -a[2], a[1]], [a[2], 0, -a[0]], [-a[1], a[0], 0]])
    return np.eye(3) + np.sin(theta) * K + (1 - np.cos(theta)) * K.dot(K)


def rot2(theta):
    return np.array([[np.cos(theta), -np.sin(theta)], [np.sin(theta), np.cos(theta)]])


def wrap(theta):
    """signed angle in (-pi, pi]"""
    t = (theta + np.pi) % (2 * np.pi) - np.pi
    return np.pi if np.isclose(t, -np.pi) else t


def axis_angle_grid():
    """deterministic grid of unit axes (all octants, axis-aligned and generic) x angles"""
    axes = []
    for v in itertools.product((-1.0, 0.0, 1.0), repeat=3):
        if any(v):
            axes.append(np.array(v) / np.linalg.norm(v))
    for v in ((0.2, -0.5, 0.84), (-0.7, 0.1, 0.3), (0.33, 0.66, -0.67)):
        axes.append(np.array(v) / np.linalg.norm(v))
    angles = np.deg2rad([7, 30, 60, 89, 91, 120, 150, 173, -7, -45, -90, -100, -160])
    return [(a, t) for a in axes for t in angles]


def quaternion_grid():
    """the axis-angle grid plus half-turns and near-half-turns (scalar part zero / tiny): every unit
    quaternion is in the quaternion clause, only the 3-D axis-angle clause excludes half-turns"""
    g = axis_angle_grid()
    axes = []
    for a, _ in g:
        if not any(np.array_equal(a, b) for b in axes):
            axes.append(a)
    extra = [np.pi, np.pi - 1e-6, -(np.pi - 1e-4), np.deg2rad(179.0)]
    return g + [(a, t) for a in axes for t in extra]


class C20(Check):
    id = "C20"
    title = "convenience transform constructors follow their documented conventions"

    def depth(self):
        return 2 if self.tier == "quick" else 4

    def _angles(self):
        if self.tier == "quick":
            return ANGLES_DEG
        # thorough: every multiple of 15 degrees in (-360, 360) plus the beyond-one-turn letters and two generic angles
        return sorted(set(ANGLES_DEG + list(range(-345, 360, 15)) + [7, -112.5]))

    def roots(self):
        out = []
        for ax in ("2d", "x", "y", "z"):
            for unit in ("deg", "rad"):
                out.append(("rot", ax, unit))
        n = len(axis_angle_grid())
        for k in range(0, n, 40):
            out.append(("axisangle", k, min(n, k + 40)))
        n = len(quaternion_grid())
        for k in range(0, n, 40):
            out.append(("quat", k, min(n, k + 40)))
        for obj in ("PointCloud2", "PointCloud3", "TriMesh2", "Image2", "MaskedImage2", "PointGraph2", "PointCloud2-centre-on-axis", "PointCloud2-centre-at-origin", "TriMesh3-planar", "PointCloud3-centre-on-axis"):
            out.append(("centre", obj))
        out.append(("scale",))
        for shp in ((2, 2), (3, 5), (7, 4), (2, 9), (1, 6), (6, 1)):
            out.append(("tcoords", shp))
        return out

    # ------------------------------------------------------------------ state
    def build(self, root):
        from menpo.transform import Rotation

        st = {"kind": root[0], "root": root}
        if root[0] == "rot":
            d = 2 if root[1] == "2d" else 3
            st["R"] = Rotation.init_identity(d)
            st["angle"] = 0.0  # model: summed signed angle in degrees
        elif root[0] == "centre":
            st["obj"] = self._centre_obj(root[1])
        return st

    def _centre_obj(self, name):
        from menpo.image import Image, MaskedImage
        from menpo.shape import PointCloud, PointUndirectedGraph, TriMesh

        if name == "PointCloud2":
            return PointCloud(generic_points(5, 2, self.seed, "c20"))
        if name == "PointCloud3":
            return PointCloud(generic_points(5, 3, self.seed, "c20"))
        # boundary letters of 'the centre': a zero coordinate, the origin itself, a planar 3-D object
        if name == "PointCloud2-centre-on-axis":
            p = generic_points(4, 2, self.seed, "c20ax")
            p = np.vstack([p, p * [-1.0, 1.0]])  # symmetric about the first axis: centre = (0, c)
            return PointCloud(p)
        if name == "PointCloud2-centre-at-origin":
            p = generic_points(4, 2, self.seed, "c20or")
            return PointCloud(np.vstack([p, -p]))
        if name == "PointCloud3-centre-on-axis":
            p = generic_points(4, 3, self.seed, "c20ax3")
            return PointCloud(np.vstack([p, p * [-1.0, -1.0, 1.0]]))
        if name == "TriMesh3-planar":
            p = generic_points(5, 2, self.seed, "c20pl")
            return TriMesh(np.hstack([p, np.zeros((5, 1))]), np.array([[0, 1, 2], [2, 3, 4]]))
        if name == "TriMesh2":
            return TriMesh(generic_points(5, 2, self.seed, "c20tm"), np.array([[0, 1, 2], [2, 3, 4]]))
        if name == "PointGraph2":
            return PointUndirectedGraph.init_from_edges(generic_points(4, 2, self.seed, "c20pg"), np.array([[0, 1], [2, 3]]))
        r = rs(self.seed, "c20img")
        if name == "Image2":
            return Image(r.rand(2, 5, 8))
        return MaskedImage(r.rand(1, 6, 4), mask=r.rand(6, 4) > 0.3)

    def canon(self, st):
        if st["kind"] == "rot":
            return ("rot", st["root"], round(st["angle"] % 360.0, 6))
        return (st["kind"], st["root"])

    def is_query(self, op):
        return op[0] != "turn"

    # ------------------------------------------------------------------ alphabet
    def ops(self, st, level):
        k = st["kind"]
        if k == "rot":
            return [("turn", a) for a in (self._angles() if level < 2 else ANGLES_DEG)]
        if level > 0:
            return []
        if k in ("axisangle", "quat"):
            return [(k, i) for i in range(st["root"][1], st["root"][2])]
        if k == "centre":
            d = st["obj"].n_dims
            out = []
            for s in (0.5, 2.0, 1.0):
                out.append(("scale_about", s))
            if d == 2:
                for a in self._angles():
                    out.append(("rotate_about", a, "deg"))
                    out.append(("rotate_about", a, "rad"))
                for phi, psi in ((10, 20), (-15, 5), (0, 30)):
                    out.append(("shear_about", phi, psi, "deg"))
                    out.append(("shear_about", phi, psi, "rad"))
                out.append(("transform_about", "TPS"))
                out.append(("transform_about", "Chain"))
            for name in ("Affine", "Similarity", "Rotation", "NonUniformScale", "UniformScale", "Translation", "Homogeneous", "AlignmentAffine"):
                out.append(("transform_about", name))
            return out
        if k == "scale":
            out = []
            for d in (2, 3):
                import itertools

                names = ["equal", "equal-negative", "all-zero"]
                # other magnitudes: tiny equal factors, tiny factors that clearly differ (by a factor of two and more), factors
                # whose PRODUCT under- / overflows any absolute tolerance while none of them is zero, huge factors
                names += ["small-equal", "tiny-equal", "tiny-different", "mixed-magnitude", "huge-different", "huge-equal"]
                # the odd factor (different, barely different, zero) at EVERY position, and every order of distinct factors
                names += ["%s@%d" % (k, pos) for k in ("one-different", "tiny-difference-clear", "zero") for pos in range(d)]
                names += ["different-perm%d" % j for j in range(len(list(itertools.permutations(range(d)))))]
                for vals in names:
                    for container in ("ndarray", "list", "tuple"):
                        out.append(("factory", d, vals, container))
                for s in (2.5, -1.5, 0.0, 1, 1e-9, 1e12):
                    out.append(("factory-scalar", d, s))
            return out
        if k == "tcoords":
            return [("corners",), ("inverse",)]
        return []

    # ------------------------------------------------------------------ transitions
    def apply(self, st, op, verify=True):
        return getattr(self, "_op_" + op[0].replace("-", "_"))(st, op, verify)

    # ---- rotations
    def _ctor(self, axis, theta, unit):
        from menpo.transform import Rotation

        deg = unit == "deg"
        val = float(theta) if deg else float(np.deg2rad(theta))
        f = {"2d": Rotation.init_from_2d_ccw_angle, "x": Rotation.init_from_3d_ccw_angle_around_x, "y": Rotation.init_from_3d_ccw_angle_around_y, "z": Rotation.init_from_3d_ccw_angle_around_z}[axis]
        return f(val, degrees=deg)

    def _op_turn(self, st, op, verify):
        from menpo.transform import Rotation

        axis, unit = st["root"][1], st["root"][2]
        theta = op[1]
        r = self._ctor(axis, theta, unit)
        fails = []
        where = "ctor-" + axis
        if verify:
            exp = rot2(np.deg2rad(theta)) if axis == "2d" else rodrigues(AXES[axis], np.deg2rad(theta))
            if not isinstance(r, Rotation):
                fails.append(Failure(where, "class", type(r).__name__))
            elif np.abs(r.rotation_matrix - exp).max() > TOL:
                fails.append(Failure(where, "right-hand-rule", "theta=%s %s: matrix\n%s\nexpected\n%s" % (theta, unit, r.rotation_matrix, exp)))
            other = self._ctor(axis, theta, "rad" if unit == "deg" else "deg")
            if np.abs(other.rotation_matrix - r.rotation_matrix).max() > TOL:
                fails.append(Failure(where, "degrees-vs-radians", "theta=%s" % theta))
            h = r.h_matrix
            if np.abs(h[:-1, -1]).max() != 0 or np.abs(h[-1, :-1]).max() != 0 or h[-1, -1] != 1:
                fails.append(Failure(where, "not-a-pure-rotation", repr(h)))
        # chain: the accumulated rotation is the rotation by the summed angle.  The accumulated rotation has been
        # queried (axis / angle, string form) in the previous step, so it is used as the RECEIVER of the composition:
        # anything memoised on a queried rotation must not survive into what is composed from it.
        if axis == "2d" and verify:
            R2i = Rotation(np.array([[0, 1], [-1, 0]]))
            R2i.set_rotation_matrix(rot2(np.deg2rad(theta)))
            if np.abs(np.asarray(R2i.rotation_matrix, dtype=float) - rot2(np.deg2rad(theta))).max() > 1e-12:
                fails.append(Failure(where, "set-rotation-matrix-on-integer-matrix-receiver", "theta=%s: stored matrix differs from the one that was set" % theta))
        prev = st["R"]
        str(prev)
        alt = r.compose_after(prev)  # fresh receiver
        inpl = prev.copy()
        inpl.compose_before_inplace(r)  # copy of a queried rotation, composed in place
        st["R"] = prev.compose_before(r)
        st["angle"] = st["angle"] + theta
        self._alternatives = (alt, inpl)
        self.note("turn:%s" % ("wraps" if abs(st["angle"]) >= 360 else "plain"))
        if verify:
            tot = np.deg2rad(st["angle"])
            exp = rot2(tot) if axis == "2d" else rodrigues(AXES[axis], tot)
            R = st["R"].rotation_matrix
            if np.abs(R - exp).max() > 1e-10:
                fails.append(Failure(where, "sum-of-angles", "accumulated %s deg: matrix differs from the rotation by the sum (%.3g)" % (st["angle"], np.abs(R - exp).max())))
            else:
                for how, Rk in (("receiver-was-queried", st["R"]), ("fresh-receiver", self._alternatives[0]), ("inplace-on-copy", self._alternatives[1])):
                    if np.abs(Rk.rotation_matrix - exp).max() > 1e-10:
                        fails.append(Failure(where, "sum-of-angles", "%s: accumulated %s deg differs from the rotation by the sum" % (how, st["angle"])))
                        continue
                    f = self._axis_angle_oracle(Rk, "axis-angle-" + ("2d" if axis == "2d" else "3d"), true_axis=None if axis == "2d" else AXES[axis], true_angle=wrap(tot))
                    fails.extend(f)
                    if f and not all(x.finding for x in f):
                        break
                # report every distinct failure once
                seen, uniq = set(), []
                for f in fails:
                    k = (f.where, f.clause, f.finding)
                    if k not in seen:
                        seen.add(k)
                        uniq.append(f)
                fails = uniq
        return fails

    def _axis_angle_oracle(self, R, where, true_axis=None, true_angle=None):
        """Rodrigues(axis, angle) must reconstruct the matrix, sign included."""
        fails = []
        M = R.rotation_matrix
        d = M.shape[0]
        if d == 3:
            cosang = (np.trace(M) - 1) / 2
            if cosang > 1 - 1e-6 or cosang < -1 + 1e-6:
                self.note("axis-angle:identity-or-half-turn-skipped")
                return fails  # identity and half-turns are outside the 3-D clause
            np.random.seed(12345)  # the implementation draws a random helper vector
            axis, ang = R.axis_and_angle_of_rotation()
            np.random.seed(999)
            axis2, ang2 = R.axis_and_angle_of_rotation()
            if axis is None or ang is None:
                return [Failure(where, "no-answer", "axis_and_angle_of_rotation returned None for a proper rotation (cos=%.6f)" % cosang)]
            axis = np.asarray(axis, dtype=float)
            if abs(np.linalg.norm(axis) - 1) > 1e-9:
                fails.append(Failure(where, "axis-not-unit", repr(axis)))
            rec = rodrigues(axis, float(ang))
            if np.abs(rec - M).max() > 1e-8:
                fails.append(Failure(where, "reconstruct", "axis %s angle %.6f reconstructs a different rotation (max err %.3g); true axis %s angle %s" % (axis, ang, np.abs(rec - M).max(), true_axis, true_angle)))
            rec2 = rodrigues(np.asarray(axis2, dtype=float), float(ang2))
            if np.abs(rec2 - M).max() > 1e-8:
                fails.append(Failure(where, "reconstruct", "depends on the random helper vector"))
            self.note("axis-angle:3d-%s" % ("negative" if ang < 0 else "positive"))
            return fails
        # 2-D
        theta = np.arctan2(M[1, 0], M[0, 0])  # true signed angle about +z
        axis, ang = R.axis_and_angle_of_rotation()
        axis = np.asarray(axis, dtype=float)
        ok_axis = axis.shape == (3,) and abs(abs(axis[2]) - 1) < 1e-12 and abs(axis[0]) < 1e-12 and abs(axis[1]) < 1e-12
        if not ok_axis:
            return [Failure(where, "axis", "2-D rotation axis must be +-z, got %r" % (axis,))]
        signed = float(ang) * np.sign(axis[2])
        if abs(np.sin(theta)) < 1e-9:
            # 0 or half turn: both signs describe the same rotation
            good = abs(np.cos(signed) - np.cos(theta)) < 1e-9
        else:
            good = np.abs(rot2(signed) - M).max() < 1e-9
        self.note("axis-angle:2d-%s" % ("negative" if theta < -1e-9 else "non-negative"))
        if good:
            return fails
        # footprint of the open finding D4: axis +z, angle == |theta| for a negative theta
        if theta < 0 and axis[2] > 0 and abs(float(ang) - abs(theta)) < 1e-9:
            return [Failure(where, "sign", "2-D rotation by %.4f rad reported as +%.4f rad about +z" % (theta, ang), finding="D4")]
        return [Failure(where, "reconstruct", "2-D rotation by %.6f rad reported as angle %.6f about %s" % (theta, ang, axis))]

    def _op_axisangle(self, st, op, verify):
        from menpo.transform import Rotation

        a, t = axis_angle_grid()[op[1]]
        R = Rotation(rodrigues(a, t))
        if not verify:
            return []
        return self._axis_angle_oracle(R, "axis-angle-3d", true_axis=a, true_angle=t)

    def _op_quat(self, st, op, verify):
        from menpo.transform import Rotation

        a, t = quaternion_grid()[op[1]]
        q = np.concatenate([[np.cos(t / 2)], np.sin(t / 2) * a])
        half_turn = abs(q[0]) < 1e-12
        if q[0] < 0 and not half_turn:
            q = -q
        M = rodrigues(a, t)
        fails = []
        R = Rotation.init_3d_from_quaternion(q.copy())
        self.note("quat:%s" % ("half-turn" if half_turn else "near-half-turn" if abs(q[0]) < 1e-3 else "grid"))
        if not verify:
            return fails
        if np.abs(R.rotation_matrix - M).max() > 1e-12:
            fails.append(Failure("quaternion", "to-matrix", "q=%s gives a matrix differing by %.3g from Rodrigues" % (q, np.abs(R.rotation_matrix - M).max())))
        back = R.as_vector()
        # a half-turn has scalar part zero: q and -q are both canonical
        err = min(np.abs(back - q).max(), np.abs(back + q).max()) if half_turn else np.abs(back - q).max()
        if back.shape != (4,) or err > 1e-9:
            fails.append(Failure("quaternion", "round-trip", "q=%s -> rotation -> %s" % (q, back)))
        R2 = Rotation(M.copy())
        q2 = R2.as_vector()
        R3 = R2.from_vector(q2)
        if np.abs(R3.rotation_matrix - M).max() > 1e-9:
            fails.append(Failure("quaternion", "matrix-round-trip", "matrix -> quaternion -> matrix differs by %.3g (axis %s angle %.9f)" % (np.abs(R3.rotation_matrix - M).max(), a, t)))
        if abs(np.linalg.norm(q2) - 1) > 1e-9 or q2[0] < -1e-9:
            fails.append(Failure("quaternion", "canonical", "as_vector() is not a unit quaternion with non-negative scalar part: %s" % q2))
        # the receiver of from_vector in another legal form: a rotation built from an INTEGER-dtype matrix (the repository's
        # own tests build rotations from integer literals); its storage must not keep that dtype for the new parameters
        Rint = Rotation(np.array([[0, -1, 0], [1, 0, 0], [0, 0, 1]]))
        R5 = Rint.from_vector(q.copy())
        if np.abs(np.asarray(R5.rotation_matrix, dtype=float) - M).max() > 1e-9:
            fails.append(Failure("quaternion", "from-vector-on-integer-matrix-receiver", "Rotation(int matrix).from_vector(q) gives a matrix differing by %.3g from the rotation of q" % np.abs(np.asarray(R5.rotation_matrix, dtype=float) - M).max()))
        R6 = Rotation(np.array([[0, -1, 0], [1, 0, 0], [0, 0, 1]]))
        R6.set_rotation_matrix(M.copy())
        fails.extend(f for f in self._axis_angle_oracle(R6, "axis-angle-3d", true_axis=a, true_angle=t) if abs(abs(t) - np.pi) > 1e-3)
        # a scaled quaternion describes the same rotation
        R4 = Rotation.init_3d_from_quaternion(2.5 * q)
        if np.abs(R4.rotation_matrix - M).max() > 1e-12:
            fails.append(Failure("quaternion", "scale-invariance", "2.5*q gives another rotation"))
        return fails

    # ---- about the centre
    def _offsets(self, d):
        base = [np.zeros(d)]
        for i in range(d):
            e = np.zeros(d)
            e[i] = 1.0
            base += [e, -2.5 * e]
        base.append(np.arange(1, d + 1) * 0.7)
        base.append(-np.arange(1, d + 1)[::-1] * 1.3 + 0.2)
        return np.array(base)

    def _about_oracle(self, where, T, plain, obj, linear):
        fails = []
        c = np.asarray(obj.centre(), dtype=float)
        d = len(c)
        D = self._offsets(d)
        out = T.apply(c[None, :] + D)
        exp = plain.apply(D.copy()) + c
        scale = max(1.0, np.abs(exp).max())
        if linear and np.abs(T.apply(c[None, :].copy())[0] - c).max() > 1e-10 * scale:
            fails.append(Failure(where, "centre-not-fixed", "T(c)=%s, c=%s" % (T.apply(c[None, :].copy())[0], c)))
        if out.shape != exp.shape or np.abs(out - exp).max() > 1e-9 * scale:
            fails.append(Failure(where, "offset-law", "T(c+d)-c differs from t(d) by %.3g" % (np.abs(out - exp).max() if out.shape == exp.shape else -1)))
        return fails

    def _op_scale_about(self, st, op, verify):
        from menpo.transform import Homogeneous, UniformScale, scale_about_centre

        obj = st["obj"]
        T = scale_about_centre(obj, op[1])
        self.note("about:scale")
        if not verify:
            return []
        fails = self._about_oracle("scale_about_centre", T, UniformScale(op[1], obj.n_dims), obj, True)
        if not isinstance(T, Homogeneous):
            fails.append(Failure("scale_about_centre", "class", type(T).__name__))
        return fails

    def _op_rotate_about(self, st, op, verify):
        from menpo.transform import Homogeneous, Rotation, rotate_ccw_about_centre

        obj = st["obj"]
        deg = op[2] == "deg"
        val = float(op[1]) if deg else float(np.deg2rad(op[1]))
        T = rotate_ccw_about_centre(obj, val, degrees=deg)
        self.note("about:rotate-%s" % op[2])
        if not verify:
            return []
        plain = Rotation(rot2(np.deg2rad(op[1])))
        fails = self._about_oracle("rotate_ccw_about_centre", T, plain, obj, True)
        if not isinstance(T, Homogeneous):
            fails.append(Failure("rotate_ccw_about_centre", "class", type(T).__name__))
        if deg and op[1] == 30:
            T_default = rotate_ccw_about_centre(obj, val)  # degrees is the documented default
            if np.abs(T_default.h_matrix - T.h_matrix).max() > 1e-12:
                fails.append(Failure("rotate_ccw_about_centre", "default-unit", "default unit is not degrees"))
        return fails

    def _op_shear_about(self, st, op, verify):
        from menpo.transform import Affine, shear_about_centre

        obj = st["obj"]
        deg = op[3] == "deg"
        phi, psi = (float(op[1]), float(op[2])) if deg else (float(np.deg2rad(op[1])), float(np.deg2rad(op[2])))
        T = shear_about_centre(obj, phi, psi, degrees=deg)
        self.note("about:shear-%s" % op[3])
        if not verify:
            return []
        h = np.eye(3)
        h[0, 1] = np.tan(np.deg2rad(op[1]))
        h[1, 0] = np.tan(np.deg2rad(op[2]))
        return self._about_oracle("shear_about_centre", T, Affine(h), obj, True)

    def _op_transform_about(self, st, op, verify):
        from menpo.transform import Homogeneous, TransformChain, transform_about_centre

        from mc import letters

        obj = st["obj"]
        d = obj.n_dims
        name = op[1]
        if name == "TPS":
            t = letters.transform(("ThinPlateSplines", 2), self.seed)
        elif name == "Chain":
            t = letters.transform(("TransformChain", d), self.seed)
        else:
            t = letters.transform((name, d), self.seed)
        before = np.array(t.h_matrix, copy=True) if hasattr(t, "h_matrix") else None
        T = transform_about_centre(obj, t)
        self.note("about:transform-%s" % ("homogeneous" if isinstance(t, Homogeneous) else "other"))
        if not verify:
            return []
        linear = isinstance(t, Homogeneous) and np.abs(t.h_matrix[:-1, -1]).max() == 0 and np.abs(t.h_matrix[-1, :-1]).max() == 0
        fails = self._about_oracle("transform_about_centre", T, t, obj, linear)
        if isinstance(t, Homogeneous) and (not isinstance(T, Homogeneous) or isinstance(T, TransformChain)):
            fails.append(Failure("transform_about_centre", "class", "homogeneous input gave %s" % type(T).__name__))
        if before is not None and not np.array_equal(before, t.h_matrix):
            fails.append(Failure("transform_about_centre", "argument-mutated", "the transform passed in was changed"))
        return fails

    # ---- Scale factory
    def _op_factory(self, st, op, verify):
        from menpo.transform import NonUniformScale, Scale, UniformScale

        _, d, vals, container = op
        import itertools

        def odd_at(base, odd, pos):
            out = [base] * d
            out[pos] = odd
            return out

        if "@" in vals:
            kind, pos = vals.split("@")
            v = {"one-different": odd_at(2.0, 2.5, int(pos)), "tiny-difference-clear": odd_at(3.0, 3.01, int(pos)), "zero": odd_at(1.5, 0.0, int(pos))}[kind]
        elif vals.startswith("different-perm"):
            perm = list(itertools.permutations(range(d)))[int(vals[len("different-perm"):])]
            v = [0.5 + 0.75 * i for i in perm]
        else:
            v = {
                "equal": [1.75] * d,
                "equal-negative": [-2.0] * d,
                "all-zero": [0.0] * d,
                "small-equal": [1e-3] * d,
                "tiny-equal": [1e-9] * d,
                "tiny-different": [1e-9 * (i + 1) for i in range(d)],
                "mixed-magnitude": ([1e6, 1e-15, 1.0])[:d],
                "huge-different": [1e9 * (i + 1) for i in range(d)],
                "huge-equal": [1e12] * d,
            }[vals]
        arg = np.array(v) if container == "ndarray" else list(v) if container == "list" else tuple(v)
        try:
            s, exc = Scale(arg), None
        except ValueError as e:
            s, exc = None, e
        self.note("factory:%s" % vals.split("@")[0].rstrip("0123456789"))
        if "@" in vals and d == 3 and vals.endswith("@1"):
            self.note("factory:odd-factor-in-the-middle")
        if not verify:
            return []
        where = "Scale"
        if vals.startswith("zero") or vals == "all-zero":
            return [] if exc is not None else [Failure(where, "zero-not-refused", "Scale(%r) returned %s" % (v, type(s).__name__))]
        if exc is not None:
            return [Failure(where, "refused", "Scale(%r) raised %r" % (v, exc))]
        uniform = vals in ("equal", "equal-negative", "small-equal", "tiny-equal", "huge-equal")
        want = UniformScale if uniform else NonUniformScale
        fails = []
        if type(s) is not want:
            fails.append(Failure(where, "class", "Scale(%r) is %s, expected %s" % (v, type(s).__name__, want.__name__)))
        h = np.eye(d + 1)
        h[:d, :d] = np.diag(v)
        if np.abs(s.h_matrix - h).max() > 0:
            fails.append(Failure(where, "matrix", "Scale(%r) has matrix\n%s" % (v, s.h_matrix)))
        return fails

    def _op_factory_scalar(self, st, op, verify):
        from menpo.transform import Scale, UniformScale

        _, d, sc = op
        try:
            s, exc = Scale(sc, n_dims=d), None
        except ValueError as e:
            s, exc = None, e
        self.note("factory-scalar:%s" % ("zero" if sc == 0 else "nonzero"))
        if not verify:
            return []
        if sc == 0:
            return [] if exc is not None else [Failure("Scale", "zero-not-refused", "Scale(0, n_dims=%d) returned %s" % (d, type(s).__name__))]
        if exc is not None:
            return [Failure("Scale", "refused", "Scale(%r, n_dims=%d) raised %r" % (sc, d, exc))]
        h = np.eye(d + 1)
        h[:d, :d] *= sc
        fails = []
        if type(s) is not UniformScale:
            fails.append(Failure("Scale", "class", "Scale(%r, n_dims=%d) is %s" % (sc, d, type(s).__name__)))
        if s.h_matrix.shape != h.shape or np.abs(s.h_matrix - h).max() > 0:
            fails.append(Failure("Scale", "matrix", "Scale(%r, n_dims=%d)" % (sc, d)))
        return fails

    # ---- texture coordinates
    def _op_corners(self, st, op, verify):
        from menpo.transform import tcoords_to_image_coords

        shp = st["root"][1]
        h, w = shp
        degenerate = h == 1 or w == 1
        try:
            T = tcoords_to_image_coords(shp)
        except ValueError:
            if degenerate:
                self.note("tcoords:degenerate-refused")
                return []  # a one-pixel-wide image has no invertible mapping; outside the statement
            raise
        self.note("tcoords:corners")
        if not verify:
            return []
        # (s, t): s to the right, t upwards; image (row, col) with row 0 at the top
        tc = np.array([[0.0, 0.0], [1.0, 0.0], [0.0, 1.0], [1.0, 1.0], [0.5, 0.25]])
        exp = np.array([[h - 1, 0], [h - 1, w - 1], [0, 0], [0, w - 1], [(1 - 0.25) * (h - 1), 0.5 * (w - 1)]], dtype=float)
        got = T.apply(tc)
        if np.abs(got - exp).max() > 1e-12:
            return [Failure("tcoords_to_image_coords", "corners", "shape %s: corners map to\n%s\nexpected\n%s" % (shp, got, exp))]
        return []

    def _op_inverse(self, st, op, verify):
        from menpo.transform import image_coords_to_tcoords, tcoords_to_image_coords

        shp = st["root"][1]
        h, w = shp
        if h == 1 or w == 1:
            return []
        T = tcoords_to_image_coords(shp)
        S = image_coords_to_tcoords(shp)
        self.note("tcoords:inverse")
        if not verify:
            return []
        grid = np.array([[a, b] for a in np.linspace(-0.5, 1.5, 5) for b in np.linspace(0, 1, 4)])
        fails = []
        if np.abs(S.apply(T.apply(grid)) - grid).max() > 1e-12:
            fails.append(Failure("tcoords", "mutual-inverse", "image_coords_to_tcoords(tcoords_to_image_coords(x)) != x"))
        pix = np.array([[i, j] for i in range(h) for j in range(w)], dtype=float)
        if np.abs(T.apply(S.apply(pix)) - pix).max() > 1e-10:
            fails.append(Failure("tcoords", "mutual-inverse", "tcoords_to_image_coords(image_coords_to_tcoords(p)) != p"))
        corners = np.array([[0, 0], [0, w - 1], [h - 1, 0], [h - 1, w - 1]], dtype=float)
        exp = np.array([[0, 1], [1, 1], [0, 0], [1, 0]], dtype=float)
        if np.abs(S.apply(corners) - exp).max() > 1e-12:
            fails.append(Failure("image_coords_to_tcoords", "corners", "shape %s" % (shp,)))
        return fails

    # ------------------------------------------------------------------ reporting
    def vacuity(self, notes, stats):
        need = ["turn:wraps", "turn:plain", "axis-angle:3d-negative", "axis-angle:3d-positive", "axis-angle:2d-negative", "axis-angle:2d-non-negative", "quat:grid", "quat:half-turn", "quat:near-half-turn", "about:rotate-deg", "about:rotate-rad", "about:shear-deg", "about:transform-other", "about:transform-homogeneous", "factory:zero", "factory:all-zero", "factory:equal", "factory:one-different", "factory:tiny-difference-clear", "factory:different-perm", "factory:odd-factor-in-the-middle", "factory:tiny-different", "factory:mixed-magnitude", "factory:small-equal", "tcoords:corners", "tcoords:inverse"]
        return ["outcome %s never produced" % n for n in need if not notes.get(n)]

    def rule(self):
        return (
            "rotation constructors: every sequence (up to the depth bound) of angle letters per axis and unit, accumulated by "
            "composition, compared with Rodrigues' formula; axis-angle and quaternion clauses on a 29-axis x 13-angle grid; "
            "about-centre transforms on 6 objects x every transform letter with an offset alphabet; Scale factory letters; "
            "texture-coordinate corner table on 6 image shapes"
        )

    def alphabet_sizes(self):
        return {"angles": len(ANGLES_DEG), "axis_angle_grid": len(axis_angle_grid()), "quaternion_grid": len(quaternion_grid()), "centre_objects": 10, "tcoord_shapes": 6}

    def assumptions(self):
        return [
            "continuous quantifiers (all angles / all quaternions / all rotation matrices) are decided on the letter grids only",
            "identity and half-turn rotations are outside the 3-D axis-angle clause (as in the property)",
            "numpy.random is seeded before axis_and_angle_of_rotation (it draws a helper vector); two different seeds must agree",
            "one-pixel-wide image shapes admit no invertible texture mapping: a ValueError there is accepted",
        ]


CHECK = C20
