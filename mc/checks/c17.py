"""C17 - mesh masking keeps whole triangles and attributes; mesh geometry is sound.

Space   : 5 generic vertices in 2-D and 3-D with every list of <= 3 (quick, plus the five closed tetrahedra) / <= 4 (thorough)
          distinct triangles out of the 10 possible (isolated triangles, fans, non-manifold edges, closed tetrahedra, orphan
          vertices), every 5-triangle list that uses one edge three times (sorted order and rotated by one
          position; thorough: every rotation for plain TriMesh), 2x2 / 2x3 / 3x3 grids (uint32 triangle lists), Delaunay meshes of
          6 and 7 points (int32 triangle lists); TriMesh, ColouredTriMesh (colour = f(vertex id)) and
          TexturedTriMesh (tcoord = g(vertex id)); triangles with sorted and with mixed vertex order.
Forms   : the same payload presented in every other argument form that the constructors / mask methods accept: the
          triangle list as uint8 / int8 / int16 / uint16 / int32 / uint32 / int64 array, as python list / tuple / list
          of lists, Fortran-ordered, read-only, strided view, copy=False (contiguous, read-only, strided); points as
          float32, python list, Fortran-ordered, read-only, strided, copy=False read-only; colours / tcoords as
          float32, uint8, single channel, strided, list, Fortran; masks as read-only / strided views, triangle masks
          as python lists.  One aspect is varied at a time on small meshes (every mask) and on meshes large enough
          for the index dtype to matter: 5x5, 6x6 grids, a 24-point Delaunay mesh (thorough: a 17x17 grid with 16-bit
          triangle lists) with a structured mask family.  The reference always works in float64 / python ints on
          the presented values.
Ops     : every vertex mask and every triangle mask that keeps a whole triangle (state changing; thorough masks
          the *result* again), and read-only geometry letters: the static identities, four rigid motions and
          three uniform scales.
Oracle  : index-free reference on plain python sets / numpy (see _ref_mask, _ref_geometry): kept triangles =
          those whose three vertices survive, kept vertices = surviving vertices of kept triangles, points /
          colours / tcoords equal attr[kept] bit for bit, every kept triangle joins the same three coordinate
          rows as before; areas = 1/2 |cross| >= 0, edge lengths >= 0, both invariant under rigid motion and
          scaling with s^2 / s; triangle normals unit, orthogonal to their edges, rotate with R; vertex normals
          unit where a unit normal exists; boundary flags = triangles owning an edge used exactly once; unique
          edges = each undirected edge once.
"""
import itertools

import numpy as np

from mc.core import Check, Failure
from mc.letters import rotation_matrix, rs
from mc.observe import obs_diff, obs_key, observe

TRIS10 = list(itertools.combinations(range(5), 3))
CLASSES = ["TriMesh", "ColouredTriMesh", "TexturedTriMesh"]
PERMS = [(0, 1, 2), (1, 2, 0), (2, 0, 1), (0, 2, 1), (2, 1, 0), (1, 0, 2)]

MIN_DIST = 0.8  # general-position guard: minimum pairwise vertex distance on the 5 x 5 (x 5) domain
MIN_AREA_BIG = 0.1  # the 24-point Delaunay letter (thin triangles on the hull are part of it)
MIN_AREA = 0.35  # ... and minimum area of every triangle that a mesh letter can contain
TOL = 1e-10  # geometry comparisons (observed error on the unchanged tree <= 1e-13, mutant effects >= 1e-2)
DEPTH2_MAX_POINTS = 6  # masks of a masked mesh are enumerated only below these sizes (stated bound)
DEPTH2_MAX_TRIS = 5

BIG_POINTS = 9  # meshes above these sizes get the structured mask family instead of every mask
BIG_TRIS = 8
HUGE_POINTS = 64  # ... and above this size the per-element mask letters address every 8th element

TL_DTYPES = ["uint8", "int8", "int16", "uint16", "int32", "uint32", "int64"]
TL_FORMS = ["tl:" + d for d in TL_DTYPES] + ["tl:list", "tl:tuple", "tl:lol", "tl:fortran", "tl:readonly", "tl:strided", "tl:nocopy", "tl:nocopy-readonly", "tl:nocopy-strided"]
PT_FORMS = ["pt:float32", "pt:list", "pt:fortran", "pt:readonly", "pt:strided", "pt:nocopy-readonly"]
AT_FORMS = {
    "TriMesh": [],
    "ColouredTriMesh": ["at:float32", "at:uint8", "at:1ch", "at:strided", "at:fortran"],
    "TexturedTriMesh": ["at:float32", "at:list", "at:strided", "at:fortran"],
}
MK_FORMS = ["mk:readonly", "mk:strided", "mk:list"]
TOL32 = 1e-3  # float32 letters (DESIGN 2.6)

MAG_FORMS = ["mag:1", "mag:1e-6", "mag:1e-9", "mag:1e6", "mag:offset"]
# further read-only letters, asked on the magnitude roots only (a small subset of the roots)
MAG_SCALES = ["1e-6", "1e-9", "1e6", "1+1e-7"]
MAG_RIGID = ["rotate-1e-7", "translate-1e6-spreads"]

# refusal kinds the masking / geometry code distinguishes (each is a self-loop letter on the live mesh)
REFUSALS = ["vmask-size", "vmask-no-triangle", "tmask-size", "tmask-none", "normals-2d"]

RIGID = ["translate", "rotate", "rotate+translate", "half-turn+translate"]
SCALES = ["0.25", "3", "generic"]


def _bits(b, n):
    return np.array([(b >> i) & 1 for i in range(n)], dtype=bool)


def _tri_area(p, t):
    a, b, c = p[t[0]], p[t[1]], p[t[2]]
    u, v = b - a, c - a
    if p.shape[1] == 2:
        return 0.5 * abs(u[0] * v[1] - u[1] * v[0])
    cx = u[1] * v[2] - u[2] * v[1]
    cy = u[2] * v[0] - u[0] * v[2]
    cz = u[0] * v[1] - u[1] * v[0]
    return 0.5 * float(np.sqrt(cx * cx + cy * cy + cz * cz))


_PTS_CACHE = {}


def guarded_points(n, d, seed, tris, salt, size=5.0):
    """n seeded points in [0.5, 5.5]^d with pairwise distance >= MIN_DIST and every triangle of `tris` of area
    >= MIN_AREA (deterministic redraw)."""
    key = (n, d, seed, salt, size)
    if key in _PTS_CACHE:
        return _PTS_CACHE[key].copy()
    r = rs(seed, "c17", salt, n, d)
    for _ in range(20000):
        p = 0.5 + size * r.rand(n, d)
        diff = p[:, None, :] - p[None, :, :]
        dist = np.sqrt((diff ** 2).sum(-1)) + np.eye(n) * 1e9
        if dist.min() < MIN_DIST:
            continue
        if all(_tri_area(p, t) >= MIN_AREA for t in tris):
            _PTS_CACHE[key] = p
            return p.copy()
    raise RuntimeError("general-position guard could not be satisfied (%r)" % (key,))


def grid_tris(rows, cols):
    """right-handed grid triangulation, diagonal from top-left to bottom-right (written out by hand)."""
    idx = lambda i, j: i * cols + j  # noqa
    down, up = [], []
    for i in range(rows - 1):
        for j in range(cols - 1):
            down.append((idx(i, j), idx(i + 1, j), idx(i + 1, j + 1)))
            up.append((idx(i, j), idx(i + 1, j + 1), idx(i, j + 1)))
    return down + up


def five_lists():
    """every 5-subset of the 10 triangles on 5 vertices in which some edge is used three times"""
    out = []
    for combo in itertools.combinations(range(10), 5):
        cnt = {}
        for i in combo:
            t = TRIS10[i]
            for e in ((t[0], t[1]), (t[1], t[2]), (t[0], t[2])):
                cnt[e] = cnt.get(e, 0) + 1
        if max(cnt.values()) >= 3:
            out.append(combo)
    return out


def und_edges(t):
    return [frozenset((int(t[0]), int(t[1]))), frozenset((int(t[1]), int(t[2]))), frozenset((int(t[2]), int(t[0])))]


class Model(object):
    """reference mesh: plain arrays and a python list of vertex-index triples"""

    def __init__(self, cls, points, tris, colours=None, tcoords=None, dtype="int64", form="std"):
        self.cls = cls
        self.form = form
        self.base = TOL32 if form == "pt:float32" else TOL
        self.points = np.array(points, dtype=float)
        self.tris = [tuple(int(v) for v in t) for t in tris]
        self.colours = None if colours is None else np.array(colours, dtype=float)
        self.tcoords = None if tcoords is None else np.array(tcoords, dtype=float)
        self.dtype = dtype
        # scale-aware tolerances: L = spread of the coordinates (unit of length of this mesh), cond = how large
        # the coordinates are relative to it (a common offset costs that many digits), tol = relative tolerance
        p = self.points
        spread = float((p.max(0) - p.min(0)).max()) if p.size else 0.0
        mag = float(np.abs(p).max()) if p.size else 0.0
        self.L = spread or mag or 1.0
        self.cond = max(1.0, mag / self.L)
        self.k = max(1.0, 1e-3 * self.cond)
        self.tol = self.base * self.k

    @property
    def n(self):
        return self.points.shape[0]

    @property
    def d(self):
        return self.points.shape[1]

    def used(self):
        return set(v for t in self.tris for v in t)

    def key(self):
        return (self.cls, self.points.shape, self.points.tobytes(), tuple(self.tris))


def _ref_mask(model, vmask):
    """the property, literally: triangles all of whose vertices survive; surviving vertices of kept triangles"""
    kept_tris = [t for t in model.tris if all(vmask[v] for v in t)]
    kept_vertices = sorted(set(v for t in kept_tris for v in t))
    new_index = {}
    for v in kept_vertices:
        new_index[v] = len(new_index)
    new = Model(
        model.cls,
        model.points[kept_vertices],
        [tuple(new_index[v] for v in t) for t in kept_tris],
        None if model.colours is None else model.colours[kept_vertices],
        None if model.tcoords is None else model.tcoords[kept_vertices],
        model.dtype,
        model.form,
    )
    return new, kept_tris, kept_vertices


class C17(Check):
    id = "C17"
    title = "mesh masking keeps whole triangles and attributes; mesh geometry is sound"
    queries_must_not_mutate = True

    def depth(self):
        return 1 if self.tier == "quick" else 2

    # ------------------------------------------------------------------------------------------ roots
    def _mesh_letters(self):
        quick = self.tier == "quick"
        out = []
        for k in range(1, 4 if quick else 5):
            for combo in itertools.combinations(range(10), k):
                out.append(("sub", combo))
        if quick:
            # the five closed tetrahedra (no unshared edge) belong to the <= 4 scope; quick keeps them explicitly
            for vs in itertools.combinations(range(5), 4):
                out.append(("sub", tuple(i for i, t in enumerate(TRIS10) if set(t) <= set(vs))))
        for combo in five_lists():
            for r in (0, 1):
                out.append(("five", combo[r:] + combo[:r]))
            if not quick:
                # the remaining rotations: boundary detection is inherited, so plain TriMesh only (see roots)
                for r in (2, 3, 4):
                    out.append(("five+", combo[r:] + combo[:r]))
        for shp in ((2, 2), (2, 3), (3, 3)):
            out.append(("grid", shp))
        for n in (6, 7):
            out.append(("del", n))
        return out

    def roots(self):
        quick = self.tier == "quick"
        out = []
        for fam, arg in self._mesh_letters():
            for cls in CLASSES:
                if fam == "five+" and cls != "TriMesh":
                    continue
                for d in (2, 3):
                    orients = ["s"]
                    if fam in ("five", "five+") and cls == "TriMesh":
                        orients.append("m")
                    if fam == "sub" and (cls == "TriMesh" or not quick):
                        orients.append("m")
                    for o in orients:
                        out.append(("five" if fam == "five+" else fam, arg, o, cls, d))
        # the argument-form roots (some of them on large meshes) are spread evenly over the list so that the
        # chunks handed to the worker processes cost about the same
        fr = self._form_roots()
        seen_per_carrier = {}
        order = []
        for r in fr:
            c = (r[0], r[1])
            order.append(seen_per_carrier.get(c, 0))
            seen_per_carrier[c] = order[-1] + 1
        fr = [r for _, _, r in sorted(zip(order, range(len(fr)), fr))]
        merged, j = [], 0
        for i, r in enumerate(out):
            merged.append(r)
            while j < len(fr) and (j + 1) * len(out) <= (i + 1) * len(fr):
                merged.append(fr[j])
                j += 1
        return merged + fr[j:]

    def _form_carriers(self):
        """(mesh letter, which form groups it carries)"""
        small = [("sub", (0, 6)), ("grid", (2, 3)), ("del", 6)]
        big = [("grid", (5, 5)), ("grid", (6, 6)), ("del", 24)]
        return small, big

    def _form_roots(self):
        """one presentation aspect varied at a time: 6-tuples (family, arg, orientation, class, dim, form)"""
        small, big = self._form_carriers()
        out = []
        for cls in CLASSES:
            for d in (2, 3):
                for fam, arg in small + big:
                    is_big = (fam, arg) in big
                    if not is_big or (fam, arg) == big[0]:
                        # container / view / points / attribute / mask presentation does not interact with the mesh
                        # size: small carriers and the first large one
                        forms = TL_FORMS + PT_FORMS + AT_FORMS[cls] + MK_FORMS
                    else:
                        forms = ["tl:" + dt for dt in TL_DTYPES]  # the index dtype does
                    if is_big:
                        forms.append("std")  # the large meshes in the standard form as well
                    for f in forms:
                        if f == "pt:list" and cls == "ColouredTriMesh":
                            continue  # its constructor reads points.shape: a python list is rejected by the tree
                        out.append((fam, arg, "s", cls, d, f))
        # magnitude letters on a few small carriers; one long, thin mesh (many elements along one axis)
        for cls in CLASSES:
            for d in (2, 3):
                for fam, arg in small + [("five", five_lists()[0])]:
                    for f in MAG_FORMS:
                        out.append((fam, arg, "s", cls, d, f))
        for d in (2, 3):
            out.append(("grid", (2, 40), "s", "TriMesh", d, "std"))
            out.append(("grid", (2, 40), "s", "TriMesh", d, "mag:1e-6"))
        if self.tier != "quick":
            # 16-bit triangle lists on more than 256 vertices
            for cls in CLASSES:
                for f in ("tl:int16", "tl:uint16", "tl:nocopy", "tl:strided", "std"):
                    out.append(("grid", (17, 17), "s", cls, 3, f))
            for f in ("tl:int16", "tl:uint16"):
                out.append(("grid", (17, 17), "s", "TriMesh", 2, f))
        return out

    # ------------------------------------------------------------------------------------------ state
    def _spec_mesh(self, root):
        """(points, tris, index dtype) of a mesh letter - plain data, no menpo"""
        fam, arg, orient, cls, d = root[:5]
        d = int(d)
        if fam in ("sub", "five"):
            p = guarded_points(5, d, self.seed, TRIS10, "five-vertices")
            tris = [TRIS10[int(i)] for i in arg]
            if orient == "m":
                tris = [tuple(t[j] for j in PERMS[(i + 1) % 6]) for i, t in enumerate(tris)]
            return p, tris, "int64"
        if fam == "grid":
            rows, cols = int(arg[0]), int(arg[1])
            tris = grid_tris(rows, cols)
            p = np.array([[float(i), float(j)] for i in range(rows) for j in range(cols)])
            # jitter so that no two triangles are congruent (payload), far below the lattice spacing
            p = p * 1.5 + 0.5 + 0.3 * rs(self.seed, "c17", "grid", rows, cols).rand(rows * cols, 2)
            if d == 3:
                z = 0.5 + 2.0 * rs(self.seed, "c17", "gridz", rows, cols).rand(rows * cols, 1)
                p = np.hstack([p, z])
            return p, tris, "uint32"
        if fam == "del":
            from scipy.spatial import Delaunay

            n = int(arg)
            # large Delaunay letters live on a larger domain and accept thinner (hull) triangles
            size = 5.0 if n <= 8 else 2.2 * float(np.sqrt(n))
            min_area = MIN_AREA if n <= 8 else MIN_AREA_BIG
            jitter = 0.1 if n <= 8 else 0.04
            ck = ("del", n, d, self.seed)
            if ck in _PTS_CACHE:
                return _PTS_CACHE[ck][0].copy(), list(_PTS_CACHE[ck][1]), "int32"
            # structure (the triangulation) is fixed by a seed-independent base layout; the seed only jitters the
            # coordinates, and the letter is kept only if it still is the Delaunay triangulation of its own points
            tris = p2 = None
            for attempt in range(200):
                base = guarded_points(n, 2, 0, [], ("delaunay-base", attempt), size)
                tris = [tuple(int(v) for v in t) for t in Delaunay(base).simplices]
                if all(_tri_area(base, t) >= min_area * 1.3 for t in tris):
                    break
            else:
                raise RuntimeError("no guarded Delaunay base letter")
            r = rs(self.seed, "c17", "delaunay-jitter", n)
            for attempt in range(2000):
                p2 = base + jitter * (r.rand(n, 2) - 0.5)
                same = set(frozenset(int(v) for v in t) for t in Delaunay(p2).simplices) == set(frozenset(t) for t in tris)
                if same and all(_tri_area(p2, t) >= min_area for t in tris):
                    break
            else:
                raise RuntimeError("no guarded Delaunay letter")
            p = p2
            if d == 3:
                z = 0.5 + 3.0 * rs(self.seed, "c17", "delz", n).rand(n, 1)
                p = np.hstack([p2, z])
            _PTS_CACHE[ck] = (p.copy(), list(tris))
            return p, tris, "int32"
        raise ValueError(root)

    @staticmethod
    def _attrs(n):
        ids = np.arange(n, dtype=float)
        colours = np.stack([(ids + 1) / (n + 1), 0.5 + ids / (4.0 * n), 1.0 - ids / (2.0 * n)], axis=1)
        tcoords = np.stack([(ids + 1) / (n + 2), 1.0 - (ids + 1) / (n + 3)], axis=1)
        return colours, tcoords

    def _texture(self):
        from menpo.image import Image

        return Image(rs(self.seed, "c17", "texture").rand(2, 3, 4))

    @staticmethod
    def _strided(a):
        """the same values as a non-contiguous view (every other column of a wider array)"""
        a = np.asarray(a)
        if a.ndim == 1:
            wide = np.zeros(2 * a.shape[0], dtype=a.dtype)
            wide[::2] = a
            return wide[::2]
        wide = np.zeros((a.shape[0], 2 * a.shape[1]), dtype=a.dtype)
        wide[:, ::2] = a
        return wide[:, ::2]

    @staticmethod
    def _readonly(a):
        a = np.array(a, copy=True)
        a.flags.writeable = False
        return a

    def _present(self, form, points, tris, dtype, colours, tcoords):
        """the payload in the argument form of the letter -> (points, trilist, colours, tcoords, copy)"""
        kind, _, what = form.partition(":")
        tl = np.array(tris, dtype=dtype).reshape(-1, 3)
        copy = True
        if kind == "tl":
            if what in TL_DTYPES:
                tl = np.array(tris, dtype=what)
            elif what == "list":
                tl = [tuple(int(v) for v in t) for t in tris]
            elif what == "tuple":
                tl = tuple(tuple(int(v) for v in t) for t in tris)
            elif what == "lol":
                tl = [[int(v) for v in t] for t in tris]
            elif what == "fortran":
                tl = np.asfortranarray(np.array(tris, dtype="int64"))
            elif what in ("readonly", "nocopy-readonly"):
                tl = self._readonly(np.array(tris, dtype="int32"))
            elif what in ("strided", "nocopy-strided"):
                tl = self._strided(np.array(tris, dtype="int16"))
            elif what == "nocopy":
                tl = np.array(tris, dtype="int16")
            else:
                raise ValueError(form)
            copy = not what.startswith("nocopy")
        elif kind == "pt":
            if what == "float32":
                points = points.astype("float32")
            elif what == "list":
                points = points.tolist()
            elif what == "fortran":
                points = np.asfortranarray(points)
            elif what in ("readonly", "nocopy-readonly"):
                points = self._readonly(points)
                copy = what == "readonly"
            elif what == "strided":
                points = self._strided(points)
            else:
                raise ValueError(form)
        elif kind == "at":
            if what == "float32":
                colours, tcoords = colours.astype("float32"), tcoords.astype("float32")
            elif what == "uint8":
                colours = np.round(colours * 255).astype("uint8")
            elif what == "1ch":
                colours = colours[:, :1].copy()
            elif what == "strided":
                colours, tcoords = self._strided(colours), self._strided(tcoords)
            elif what == "fortran":
                colours, tcoords = np.asfortranarray(colours), np.asfortranarray(tcoords)
            elif what == "list":
                tcoords = tcoords.tolist()
            else:
                raise ValueError(form)
        elif kind == "mag":
            # the same payload at another legal magnitude (uniform, so the conditioning is kept)
            if what == "offset":
                points = points + 1e6 * float((points.max(0) - points.min(0)).max())
            else:
                f = float(what)
                points, colours, tcoords = points * f, colours * f, tcoords * f
        elif kind not in ("std", "mk"):
            raise ValueError(form)
        return points, tl, colours, tcoords, copy

    def _make(self, cls, points, tris, dtype, colours, tcoords, form="std"):
        """-> (live mesh, the presented points / colours / tcoords as float64 values for the reference)"""
        from menpo.shape import ColouredTriMesh, TexturedTriMesh, TriMesh

        points, tl, colours, tcoords, copy = self._present(form, points, tris, dtype, colours, tcoords)
        shown = (np.array(points, dtype=float), np.array(colours, dtype=float), np.array(tcoords, dtype=float))
        if cls == "TriMesh":
            mesh = TriMesh(points, tl, copy=copy)
        elif cls == "ColouredTriMesh":
            mesh = ColouredTriMesh(points, tl, colours, copy=copy)
        else:
            mesh = TexturedTriMesh(points, tcoords, self._texture(), tl, copy=copy)
        return mesh, shown

    def build(self, root):
        p, tris, dtype = self._spec_mesh(root)
        cls = root[3]
        form = root[5] if len(root) > 5 else "std"
        colours, tcoords = self._attrs(p.shape[0])
        mesh, (p, colours, tcoords) = self._make(cls, p.copy(), tris, dtype, colours.copy(), tcoords.copy(), form)
        model = Model(cls, p, tris, colours if cls == "ColouredTriMesh" else None, tcoords if cls == "TexturedTriMesh" else None, dtype, form)
        return {"root": root, "mesh": mesh, "model": model, "texture0": observe(self._texture()) if cls == "TexturedTriMesh" else None}

    def canon(self, st):
        return (st["model"].key(), obs_key(observe(st["mesh"])))

    def is_query(self, op):
        return op[0] in ("geom", "rigid", "scale", "refuse")

    # ------------------------------------------------------------------------------------------ alphabet
    def ops(self, st, level):
        m = st["model"]
        # refused calls come first: every later letter of this state then runs on a live mesh that has seen them
        out = [("refuse", kind) for kind in REFUSALS if kind != "normals-2d" or m.d == 2]
        out += [("geom",)] + [("rigid", r) for r in RIGID] + [("scale", s) for s in SCALES]
        if m.form.startswith("mag:"):
            out += [("rigid", r) for r in MAG_RIGID] + [("scale", s) for s in MAG_SCALES]
        if level >= 1 and (m.n > DEPTH2_MAX_POINTS or len(m.tris) > DEPTH2_MAX_TRIS):
            return out
        n, k = m.n, len(m.tris)
        if n > BIG_POINTS or k > BIG_TRIS:
            tmasks, vmasks = self._structured_masks(m)
            self.note("mask:structured-family")
            if m.form in ("tl:uint8", "tl:int8") and n > 16 or m.form in ("tl:int16", "tl:uint16", "tl:nocopy", "tl:strided") and n > 256:
                self.note("form:big-mesh-small-index-dtype")  # n_points^2 exceeds the range of the index dtype
        else:
            # triangle masks first (fewer, simpler), then vertex masks; all-true first in both
            tmasks = sorted(range(1, 2 ** k), key=lambda b: (-bin(b).count("1"), b))
            vmasks = sorted(range(1, 2 ** n), key=lambda b: (-bin(b).count("1"), b))
        out += [("tmask", b) for b in tmasks]
        for b in vmasks:
            if any(all((b >> v) & 1 for v in t) for t in m.tris):
                out.append(("vmask", b))
            else:
                self.note("vmask:not-enumerated-keeps-no-triangle")
        return out

    @staticmethod
    def _structured_masks(m):
        """explicit mask family of a mesh too large for all 2^n masks (bit i = element i kept): all, all but one
        element, one triangle / the closed neighbourhood of one vertex alone, index prefixes and suffixes, residue
        classes.  Above HUGE_POINTS the per-element letters address every 8th element."""
        n, k = m.n, len(m.tris)
        step = 8 if n > HUGE_POINTS else 1
        full_v, full_t = (1 << n) - 1, (1 << k) - 1
        nb = [1 << v for v in range(n)]
        for t in m.tris:
            for v in t:
                for w in t:
                    nb[v] |= 1 << w
        vm = [full_v]
        vm += [full_v & ~(1 << v) for v in range(0, n, step)]
        vm += [nb[v] for v in range(0, n, step)]
        for i in (n // 4, n // 2, (3 * n) // 4):
            vm += [(1 << i) - 1, full_v & ~((1 << i) - 1)]
        for r in range(3):
            vm.append(sum(1 << v for v in range(n) if v % 3 != r))
        tm = [full_t]
        tm += [full_t & ~(1 << t) for t in range(0, k, step)]
        tm += [1 << t for t in range(0, k, step)]
        for i in (k // 4, k // 2, (3 * k) // 4):
            tm += [(1 << i) - 1, full_t & ~((1 << i) - 1)]
        tm += [sum(1 << t for t in range(k) if t % 2 == r) for r in range(2)]

        def uniq(seq):
            seen, out = set(), []
            for b in seq:
                if b and b not in seen:
                    seen.add(b)
                    out.append(b)
            return out

        return uniq(tm), uniq(vm)

    # ------------------------------------------------------------------------------------------ step
    def apply(self, st, op, verify=True):
        kind = op[0]
        if kind in ("vmask", "tmask"):
            return self._apply_mask(st, op, verify)
        if not verify:
            return []
        if kind == "refuse":
            return self._refuse(st, op[1])
        if kind == "geom":
            return self._geom(st)
        if kind == "rigid":
            return self._rigid(st, op[1])
        if kind == "scale":
            return self._scale(st, op[1])
        raise ValueError(op)

    # ---- refused calls
    def _refused_calls(self, model, kind):
        """[(variant name, method name, argument)] of one refusal kind on a mesh - plain data from the reference"""
        n, k = model.n, len(model.tris)
        out = []
        if kind == "vmask-size":
            for name, ln in (("one-short", n - 1), ("one-long", n + 1), ("empty", 0), ("n_tris", k)):
                if ln != n and ln >= 0:
                    out.append((name, "from_mask", np.ones(ln, dtype=bool)))
        elif kind == "vmask-no-triangle":
            cands = [("all-false", np.zeros(n, dtype=bool))]
            one = np.zeros(n, dtype=bool)
            one[model.tris[0][0]] = True
            cands.append(("one-vertex", one))
            two = np.zeros(n, dtype=bool)
            two[list(model.tris[0][:2])] = True
            cands.append(("two-vertices-of-a-triangle", two))
            # a maximal set without a whole triangle: drop the first still-whole triangle's last vertex, greedily
            big = np.ones(n, dtype=bool)
            for t in model.tris:
                if all(big[v] for v in t):
                    big[t[2]] = False
            cands.append(("all-but-one-vertex-per-triangle", big))
            seen = set()
            for name, m in cands:
                if any(all(m[v] for v in t) for t in model.tris) or m.tobytes() in seen:
                    continue
                seen.add(m.tobytes())
                out.append((name, "from_mask", m))
        elif kind == "tmask-size":
            for name, ln in (("one-short", k - 1), ("one-long", k + 1)):
                out.append((name, "from_tri_mask", np.ones(ln, dtype=bool)))
        elif kind == "tmask-none":
            out.append(("all-false", "from_tri_mask", np.zeros(k, dtype=bool)))
        elif kind == "normals-2d":
            out += [("tri_normals", "tri_normals", None), ("vertex_normals", "vertex_normals", None)]
        else:
            raise ValueError(kind)
        return out

    def _refuse(self, st, kind):
        """(a) the call raises, (b) receiver and argument are observably unchanged, (c) the retry is refused in the
        same way, (d) a valid mask on the same live mesh still answers like the reference (the geometry letters
        follow on the same live mesh)."""
        mesh, model = st["mesh"], st["model"]
        where = "refused-%s/%s" % (kind, model.cls)
        fails = []
        for name, method, arg in self._refused_calls(model, kind):
            before = observe(mesh)
            arg0 = None if arg is None else arg.copy()
            outcome = []
            for attempt in (0, 1):
                try:
                    r = getattr(mesh, method)() if arg is None else getattr(mesh, method)(arg)
                    outcome.append(("returned", type(r).__name__))
                except Exception as e:  # noqa - the refusal under test
                    outcome.append((type(e).__name__, str(e)))
                d = obs_diff(before, observe(mesh))
                if d is not None:
                    fails.append(Failure(where, "receiver-changed-by-refused-call", "%s(%s) [%s, attempt %d] -> %s; receiver: %s" % (method, None if arg0 is None else arg0.astype(int).tolist(), name, attempt + 1, outcome[-1], d)))
                    break
                if arg is not None and not np.array_equal(arg, arg0):
                    fails.append(Failure(where, "argument-changed-by-refused-call", "%s [%s]" % (method, name)))
                    break
            if fails:
                break
            if outcome[0][0] == "returned":
                fails.append(Failure(where, "not-refused", "%s(%s) [%s] returned a %s" % (method, None if arg0 is None else arg0.astype(int).tolist(), name, outcome[0][1])))
                break
            if kind in ("vmask-size", "normals-2d") and outcome[0][0] != "ValueError":
                fails.append(Failure(where, "exception-type", "%s [%s] raised %s, the code documents ValueError" % (method, name, outcome[0])))
                break
            if outcome[0] != outcome[1]:
                fails.append(Failure(where, "retry-differs", "%s [%s]: first %s, then %s" % (method, name, outcome[0], outcome[1])))
                break
            self.note("refuse:%s:%s" % (kind, outcome[0][0]))
        if fails:
            return fails
        # (d) a valid call on the very same live mesh
        keep_all = np.ones(len(model.tris), dtype=bool)
        vmask = np.array([v in model.used() for v in range(model.n)], dtype=bool)
        exp, kept_tris, _ = _ref_mask(model, vmask)
        try:
            res = mesh.from_tri_mask(keep_all)
        except Exception as e:  # noqa
            return [Failure(where, "valid-call-after-refusal-raised", "from_tri_mask(all true): %s: %s" % (type(e).__name__, e))]
        f = self._compare(where, res, exp, model, kept_tris, st)
        for x in f:
            x.clause = "valid-call-after-refusal/" + x.clause
        return f

    # ---- masking
    def _apply_mask(self, st, op, verify):
        kind, b = op[0], int(op[1])
        mesh, model = st["mesh"], st["model"]
        cls = model.cls
        where = "%s/%s" % ("from_mask" if kind == "vmask" else "from_tri_mask", cls)
        if kind == "vmask":
            arg = _bits(b, model.n)
            vmask = arg.copy()
        else:
            arg = _bits(b, len(model.tris))
            sel = set(v for t, keep in zip(model.tris, arg) if keep for v in t)
            vmask = np.array([v in sel for v in range(model.n)], dtype=bool)
        new_model, kept_tris, kept_vertices = _ref_mask(model, vmask)
        orphans_before = set(range(model.n)) - model.used()
        all_true_fast = kind == "vmask" and bool(arg.all())
        # (arg is still the plain boolean array here; it is put into the letter's argument form below)
        if all_true_fast and orphans_before:
            # [interp] an all-true vertex mask leaves no vertex without a triangle that had one: the identical
            # mesh (pre-existing orphans kept, what menpo returns) and the orphan-free mesh both satisfy the text
            alt_model = Model(cls, model.points, model.tris, model.colours, model.tcoords, model.dtype, model.form)
        else:
            alt_model = None
        arg_before = arg.copy()
        if model.form == "mk:readonly":
            arg = self._readonly(arg)
        elif model.form == "mk:strided":
            arg = self._strided(arg)
        elif model.form == "mk:list" and kind == "tmask":
            arg = [bool(v) for v in arg]
        if verify:
            self.note("form:%s:mask" % model.form)
            # warm the receiver up: every geometry / edge / boundary query is asked of the source mesh first, so anything
            # memoised on it has been filled before the mask is taken (a masked mesh must not inherit it)
            pre, _ = self._static(mesh, model, where_suffix="/before-mask")
            if pre:
                return pre
        before = observe(mesh) if verify else None
        exc = None
        try:
            res = mesh.from_mask(arg) if kind == "vmask" else mesh.from_tri_mask(arg)
        except Exception as e:  # noqa - turned into a failure of the property (these masks must be accepted)
            exc = e
            res = None
        if exc is not None:
            if not verify:
                raise exc
            return [Failure(where, "raised", "mask %s (form %s) of a mesh with %d points, triangles %r: %s: %s" % (arg_before.astype(int).tolist(), model.form, model.n, model.tris, type(exc).__name__, exc))]
        fails = []
        chosen = new_model
        if verify:
            n_kept_sel = int(arg_before.sum())
            if kind == "vmask":
                tag = "all-true" if all_true_fast else ("orphans-dropped" if len(kept_vertices) < n_kept_sel else "no-orphans")
            else:
                tag = "all-true" if arg_before.all() else "partial"
                if len(kept_tris) > n_kept_sel:
                    tag += "-unselected-triangle-kept"
                if orphans_before:
                    self.note("tmask:root-orphans-dropped")
            self.note("%s:%s" % (kind, tag))
            if len(kept_tris) == len(model.tris) and not all_true_fast and kind == "vmask":
                self.note("vmask:partial-keeps-all-triangles")
            if not np.array_equal(np.asarray(arg), arg_before):
                fails.append(Failure(where, "mask-argument-changed", "mask %s became %s" % (arg_before.astype(int).tolist(), np.asarray(arg).astype(int).tolist())))
            d = obs_diff(before, observe(mesh))
            if d is not None:
                fails.append(Failure(where, "receiver-changed", d))
            f1 = self._compare(where, res, new_model, model, kept_tris, st)
            if f1 and alt_model is not None:
                f2 = self._compare(where, res, alt_model, model, list(model.tris), st)
                if not f2:
                    self.note("vmask:all-true-identical-copy-keeps-root-orphans")
                    f1 = []
                    chosen = alt_model
            elif alt_model is not None:
                self.note("vmask:all-true-dropped-root-orphans")
            if f1:
                ctx = " [mask %s on %d points, triangles %r]" % (arg_before.astype(int).tolist(), model.n, model.tris)
                for f in f1:
                    f.detail = (f.detail + ctx)[:2000]
                fails.extend(f1)
            if res is mesh:
                fails.append(Failure(where, "result-is-receiver", "the masked mesh is the receiver itself"))
            if not fails:
                # ... and the geometry / edge / boundary identities are asked of the masked mesh straight away
                post, _ = self._static(res, chosen, where_suffix="/after-mask")
                fails.extend(post)
                self.note("mask:geometry-of-result-checked")
        else:
            if alt_model is not None and res.n_points == alt_model.n:
                chosen = alt_model
        st["mesh"] = res
        st["model"] = chosen
        return fails

    def _compare(self, where, res, exp, old_model, kept_tris, st):
        """index-free comparison of a masked mesh with the reference"""
        fails = []
        if type(res).__name__ != exp.cls:
            return [Failure(where, "result-class", "expected %s got %s" % (exp.cls, type(res).__name__))]
        pts = np.asarray(res.points)
        tl = np.asarray(res.trilist)
        if tl.ndim != 2 or tl.shape[1] != 3 or tl.dtype.kind not in "iu":
            return [Failure(where, "trilist-shape", "trilist has shape %s dtype %s" % (tl.shape, tl.dtype))]
        if tl.shape[0] != len(exp.tris):
            fails.append(Failure(where, "kept-triangles", "expected %d triangles %r, got %d" % (len(exp.tris), kept_tris, tl.shape[0])))
        if pts.shape != exp.points.shape or not np.array_equal(pts, exp.points):
            fails.append(Failure(where, "kept-vertices", "expected %d points %s, got %d points %s" % (exp.n, exp.points.tolist(), pts.shape[0], pts.tolist())))
        if fails:
            return fails
        if tl.size and (tl.min() < 0 or tl.max() >= pts.shape[0]):
            return [Failure(where, "trilist-index-range", "indices %d..%d with %d points" % (tl.min(), tl.max(), pts.shape[0]))]
        for i, t0 in enumerate(kept_tris):
            want = old_model.points[list(t0)]
            got = pts[tl[i].astype(int)]
            if not np.array_equal(want, got):
                fails.append(Failure(where, "triangle-coordinates", "kept triangle #%d (old indices %r) joined %s before and %s after (new indices %r)" % (i, t0, want.tolist(), got.tolist(), tl[i].tolist())))
                break
        if exp.colours is not None:
            c = np.asarray(res.colours)
            if c.shape != exp.colours.shape or not np.array_equal(c, exp.colours):
                fails.append(Failure(where, "colours", "expected %s got %s" % (exp.colours.tolist(), c.tolist())))
        if exp.tcoords is not None:
            c = np.asarray(res.tcoords.points)
            if c.shape != exp.tcoords.shape or not np.array_equal(c, exp.tcoords):
                fails.append(Failure(where, "tcoords", "expected %s got %s" % (exp.tcoords.tolist(), c.tolist())))
            dt = obs_diff(st["texture0"], observe(res.texture))
            if dt is not None:
                fails.append(Failure(where, "texture", dt))
        return fails

    # ---- geometry
    def _ref_geometry(self, model):
        cache = self.__dict__.setdefault("_geom_cache", {})
        key = model.key()
        if key in cache:
            return cache[key]
        if len(cache) > 16:
            cache.clear()
        g = cache[key] = {}
        p, tris = model.points, model.tris
        T = np.array(tris, dtype=int).reshape(-1, 3)
        A, B, C = p[T[:, 0]], p[T[:, 1]], p[T[:, 2]]
        u, v = B - A, C - A
        if p.shape[1] == 2:
            g["areas"] = 0.5 * np.abs(u[:, 0] * v[:, 1] - u[:, 1] * v[:, 0])
        else:
            cx = u[:, 1] * v[:, 2] - u[:, 2] * v[:, 1]
            cy = u[:, 2] * v[:, 0] - u[:, 0] * v[:, 2]
            cz = u[:, 0] * v[:, 1] - u[:, 1] * v[:, 0]
            g["areas"] = 0.5 * np.sqrt(cx * cx + cy * cy + cz * cz)
        g["elen"] = np.sqrt(np.stack([((A - B) ** 2).sum(1), ((B - C) ** 2).sum(1), ((C - A) ** 2).sum(1)], axis=1)).reshape(-1)
        g["edges3"] = np.stack([B - A, C - B, A - C], axis=1)  # (k, 3, d)
        cnt = {}
        for t in tris:
            for e in und_edges(t):
                cnt[e] = cnt.get(e, 0) + 1
        g["edge_count"] = cnt
        g["boundary"] = np.array([any(cnt[e] == 1 for e in und_edges(t)) for t in tris], dtype=bool)
        g["uedges"] = set(cnt)
        ue = np.array([sorted(e) for e in cnt], dtype=int).reshape(-1, 2)
        g["ulen"] = np.sort(np.sqrt(((p[ue[:, 0]] - p[ue[:, 1]]) ** 2).sum(1)))
        return g

    def _static(self, mesh, model, where_suffix=""):
        """the identities that hold on one mesh; returns (failures, measured values for the invariance letters)"""
        fails = []
        g = self._ref_geometry(model)
        k = len(model.tris)
        cls = model.cls
        tol, L = model.tol, model.L  # relative tolerance, unit of length of this mesh
        self.note("form:%s:geom" % model.form)
        W = lambda m: "%s/%s%s" % (m, cls, where_suffix)  # noqa
        out = {}
        # areas
        a = np.asarray(mesh.tri_areas())
        out["areas"] = a
        if a.shape != (k,):
            fails.append(Failure(W("tri_areas"), "shape", "expected (%d,) got %s" % (k, a.shape)))
        else:
            if not (a >= 0).all():
                fails.append(Failure(W("tri_areas"), "non-negative", a.tolist()))
            if not np.allclose(a, g["areas"], rtol=tol, atol=tol * L * L):
                fails.append(Failure(W("tri_areas"), "half-cross-product", "expected %s got %s" % (g["areas"].tolist(), a.tolist())))
            ma = mesh.mean_tri_area()
            if not abs(ma - g["areas"].mean()) <= tol * (L * L + abs(ma)):
                fails.append(Failure(W("mean_tri_area"), "mean", "expected %r got %r" % (g["areas"].mean(), ma)))
        # edge lengths
        el = np.asarray(mesh.edge_lengths())
        out["elen"] = el
        if el.shape != (3 * k,):
            fails.append(Failure(W("edge_lengths"), "shape", "expected (%d,) got %s" % (3 * k, el.shape)))
        else:
            if not (el >= 0).all():
                fails.append(Failure(W("edge_lengths"), "non-negative", el.tolist()))
            if not np.allclose(el, g["elen"], rtol=tol, atol=tol * L):
                fails.append(Failure(W("edge_lengths"), "euclidean-length", "expected %s got %s" % (g["elen"].tolist(), el.tolist())))
        ei = np.asarray(mesh.edge_indices())
        if ei.shape != (3 * k, 2):
            fails.append(Failure(W("edge_indices"), "shape", "expected (%d, 2) got %s" % (3 * k, ei.shape)))
        else:
            T = np.array(model.tris, dtype=np.int64).reshape(-1, 3)
            big = np.int64(model.n + 1)
            pairs = np.sort(ei.astype(np.int64).reshape(k, 3, 2), axis=2)
            got_keys = np.sort(pairs[:, :, 0] * big + pairs[:, :, 1], axis=1)
            wp = np.sort(np.stack([T[:, [0, 1]], T[:, [1, 2]], T[:, [2, 0]]], axis=1), axis=2)
            want_keys = np.sort(wp[:, :, 0] * big + wp[:, :, 1], axis=1)
            bad = np.nonzero((got_keys != want_keys).any(1))[0]
            if bad.size:
                i = int(bad[0])
                fails.append(Failure(W("edge_indices"), "triangle-edges", "triangle %r: expected %r got %r" % (model.tris[i], wp[i].tolist(), ei[3 * i : 3 * i + 3].tolist())))
        # unique edges
        ue = np.asarray(mesh.unique_edge_indices())
        if ue.ndim != 2 or ue.shape[1] != 2:
            fails.append(Failure(W("unique_edge_indices"), "shape", str(ue.shape)))
        else:
            got = [frozenset(int(v) for v in row) for row in ue]
            self.note("unique_edges:%s" % ("some-shared" if len(g["uedges"]) < 3 * k else "none-shared"))
            if len(set(got)) != len(got) or any(len(e) != 2 for e in got):
                fails.append(Failure(W("unique_edge_indices"), "each-edge-once", "rows %s list an undirected edge twice" % ue.tolist()))
            elif set(got) != g["uedges"]:
                fails.append(Failure(W("unique_edge_indices"), "edge-set", "expected %s got %s" % (sorted(sorted(e) for e in g["uedges"]), ue.tolist())))
            else:
                ul = np.sort(np.asarray(mesh.unique_edge_lengths()))
                out["ulen"] = ul
                if ul.shape != g["ulen"].shape or not (ul >= 0).all() or not np.allclose(ul, g["ulen"], rtol=tol, atol=tol * L):
                    fails.append(Failure(W("unique_edge_lengths"), "euclidean-length", "expected %s got %s" % (g["ulen"].tolist(), ul.tolist())))
                uv = np.asarray(mesh.unique_edge_vectors())
                if uv.shape != (len(got), model.d) or not np.allclose(np.sqrt((uv ** 2).sum(1)), np.asarray(mesh.unique_edge_lengths()), rtol=tol, atol=tol * L):
                    fails.append(Failure(W("unique_edge_vectors"), "shape-or-length", "shape %s" % (uv.shape,)))
                mel = mesh.mean_edge_length()
                if not abs(mel - g["ulen"].mean()) <= tol * (L + abs(mel)):
                    fails.append(Failure(W("mean_edge_length"), "mean", "expected %r got %r" % (g["ulen"].mean(), mel)))
        # boundary
        try:
            bt = np.asarray(mesh.boundary_tri_index())
        except Exception as e:  # noqa
            bt = None
            fails.append(Failure(W("boundary_tri_index"), "raised", "triangles %r: %s: %s" % (model.tris, type(e).__name__, e)))
        if bt is not None:
            out["boundary"] = bt
            mx = max(g["edge_count"].values())
            self.note("boundary:%s" % ("closed" if not g["boundary"].any() else "all" if g["boundary"].all() else "mixed"))
            self.note("boundary:max-edge-use-%d" % min(mx, 3))
            if mx >= 3 and not g["boundary"].all():
                self.note("boundary:edge-thrice-with-interior-triangle")
            if bt.shape != (k,) or bt.dtype != bool:
                fails.append(Failure(W("boundary_tri_index"), "shape", "shape %s dtype %s" % (bt.shape, bt.dtype)))
            elif not np.array_equal(bt, g["boundary"]):
                fails.append(Failure(W("boundary_tri_index"), "owns-unshared-edge", "triangles %r: expected %s got %s" % (model.tris, g["boundary"].astype(int).tolist(), bt.astype(int).tolist())))
        # normals
        if model.d == 3:
            self.note("geom:3d")
            tn = np.asarray(mesh.tri_normals())
            out["tn"] = tn
            if tn.shape != (k, 3):
                fails.append(Failure(W("tri_normals"), "shape", str(tn.shape)))
            else:
                ln = np.sqrt((tn ** 2).sum(1))
                if not np.allclose(ln, 1.0, rtol=0, atol=tol):
                    fails.append(Failure(W("tri_normals"), "unit", "norms %s" % ln.tolist()))
                if True:
                    es = g["edges3"]
                    cos = np.einsum("kej,kj->ke", es, tn.astype(float)) / np.sqrt((es ** 2).sum(2))
                    bad = np.nonzero(np.abs(cos).max(1) > (1e-9 if model.base == TOL else 1e-4) * model.k)[0]
                    if bad.size:
                        i = int(bad[0])
                        fails.append(Failure(W("tri_normals"), "perpendicular", "triangle %r normal %s: cosines with its edges %s" % (model.tris[i], tn[i].tolist(), cos[i].tolist())))
                vn = np.asarray(mesh.vertex_normals())
                out["vn"] = vn
                if vn.shape != (model.n, 3):
                    fails.append(Failure(W("vertex_normals"), "shape", str(vn.shape)))
                elif not fails:
                    # [interp] a unit normal exists only where the incident triangle normals do not cancel
                    acc = np.zeros((model.n, 3))
                    T = np.array(model.tris, dtype=int).reshape(-1, 3)
                    for j in range(3):
                        np.add.at(acc, T[:, j], tn.astype(float))
                    mag = np.sqrt((acc ** 2).sum(1))
                    used = model.used()
                    for v in range(model.n):
                        if v not in used:
                            self.note("vertex_normals:orphan-exempt")
                            continue
                        if mag[v] < 1e-3:
                            self.note("vertex_normals:cancelling-exempt")
                            continue
                        self.note("vertex_normals:unit-required")
                        lv = float(np.sqrt((vn[v] ** 2).sum()))
                        if abs(lv - 1.0) > tol:
                            fails.append(Failure(W("vertex_normals"), "unit", "vertex %d has a normal of length %r" % (v, lv)))
                            break
        else:
            self.note("geom:2d")
            for name in ("tri_normals", "vertex_normals"):
                try:
                    r = getattr(mesh, name)()
                    fails.append(Failure(W(name), "2d-not-refused", "returned %r" % (r,)))
                except ValueError:
                    self.note("normals:2d-refused")
        return fails, out

    def _geom(self, st):
        fails, _ = self._static(st["mesh"], st["model"])
        return fails

    def _rigid_letter(self, name, d):
        r = rs(self.seed, "c17", "rigid", name, d)
        R = np.eye(d)
        t = np.zeros(d)
        if name == "rotate-1e-7":
            # nearly but not exactly the identity (well above rounding)
            a = 1e-7
            R = np.eye(d)
            R[0, 0], R[0, 1], R[1, 0], R[1, 1] = np.cos(a), -np.sin(a), np.sin(a), np.cos(a)
            return R, t
        if name == "translate-1e6-spreads":
            return R, np.full(d, 1e6)  # multiplied by the spread of the mesh in _rigid
        if "translate" in name:
            t = -7.0 + 14.0 * r.rand(d)
        if name.startswith("rotate"):
            R = rotation_matrix(d, self.seed, ("c17", name))
        elif name.startswith("half-turn"):
            R = -np.eye(2) if d == 2 else np.diag([-1.0, -1.0, 1.0])
            if d == 3:
                Q = rotation_matrix(3, self.seed, ("c17", "axis"))
                R = Q.dot(R).dot(Q.T)
        return R, t

    def _moved(self, st, R, t, s):
        """a fresh mesh of the same class whose points are s * R p + t (built through the constructor)"""
        model = st["model"]
        p2 = s * model.points.dot(R.T) + t
        colours, tcoords = self._attrs(model.n)
        form = model.form if model.form.startswith(("tl:", "pt:")) else "std"
        mesh2, (p2, _, _) = self._make(model.cls, p2.copy(), model.tris, model.dtype, colours, tcoords, form)
        m2 = Model(model.cls, p2, model.tris, model.colours, model.tcoords, model.dtype, model.form)
        return mesh2, m2

    def _invariance(self, st, R, t, s, where_suffix, clause):
        model = st["model"]
        cache = st.get("static")
        if cache is None or cache[0] is not st["mesh"]:
            cache = (st["mesh"],) + self._static(st["mesh"], model)
            st["static"] = cache
        f0, v0 = cache[1], cache[2]
        if f0:
            return f0  # reported by the 'geom' letter with its own signature as well
        mesh2, m2 = self._moved(st, R, t, s)
        fails, v1 = self._static(mesh2, m2, where_suffix)
        if fails:
            return fails
        cls = model.cls
        kk = max(model.k, m2.k)
        rt = (1e-9 if model.base == TOL else TOL32) * kk
        L1 = s * model.L  # unit of length of the moved mesh
        if not np.allclose(v1["areas"], s * s * v0["areas"], rtol=rt, atol=rt * L1 * L1):
            fails.append(Failure("tri_areas/%s" % cls, clause, "areas %s became %s (s=%r)" % (v0["areas"].tolist(), v1["areas"].tolist(), s)))
        if not np.allclose(v1["elen"], s * v0["elen"], rtol=rt, atol=rt * L1):
            fails.append(Failure("edge_lengths/%s" % cls, clause, "lengths %s became %s (s=%r)" % (v0["elen"].tolist(), v1["elen"].tolist(), s)))
        if not np.allclose(v1["ulen"], s * v0["ulen"], rtol=rt, atol=rt * L1):
            fails.append(Failure("unique_edge_lengths/%s" % cls, clause, "lengths %s became %s (s=%r)" % (v0["ulen"].tolist(), v1["ulen"].tolist(), s)))
        if not np.array_equal(v0["boundary"], v1["boundary"]):
            fails.append(Failure("boundary_tri_index/%s" % cls, clause, "%s became %s" % (v0["boundary"].tolist(), v1["boundary"].tolist())))
        if model.d == 3:
            if not np.allclose(v1["tn"], v0["tn"].dot(R.T), rtol=0, atol=(1e-9 if model.base == TOL else 1e-4) * kk):
                fails.append(Failure("tri_normals/%s" % cls, "follow-rotation" if clause == "rigid-invariance" else clause, "normals %s became %s, expected %s" % (v0["tn"].tolist(), v1["tn"].tolist(), v0["tn"].dot(R.T).tolist())))
        return fails

    def _rigid(self, st, name):
        R, t = self._rigid_letter(name, st["model"].d)
        # translations are expressed in units of the mesh's own spread (scale-aware letters)
        t = t * (st["model"].L / 5.0 if name != "translate-1e6-spreads" else st["model"].L)
        self.note("rigid:%s" % name)
        return self._invariance(st, R, t, 1.0, "", "rigid-invariance")

    def _scale(self, st, name):
        d = st["model"].d
        s = 0.6 + rs(self.seed, "c17", "scale", d).rand() if name == "generic" else (1.0 + 1e-7 if name == "1+1e-7" else float(name))
        self.note("scale:%s" % name)
        return self._invariance(st, np.eye(d), np.zeros(d), s, "", "uniform-scaling")

    # ------------------------------------------------------------------------------------------ reporting
    def vacuity(self, notes, stats):
        need = [
            "vmask:all-true",
            "vmask:no-orphans",
            "vmask:orphans-dropped",
            "vmask:partial-keeps-all-triangles",
            "vmask:all-true-identical-copy-keeps-root-orphans",
            "tmask:all-true",
            "tmask:partial",
            "tmask:partial-unselected-triangle-kept",
            "tmask:root-orphans-dropped",
            "boundary:closed",
            "boundary:all",
            "boundary:mixed",
            "boundary:max-edge-use-1",
            "boundary:max-edge-use-2",
            "boundary:max-edge-use-3",
            "boundary:edge-thrice-with-interior-triangle",
            "unique_edges:some-shared",
            "unique_edges:none-shared",
            "geom:2d",
            "geom:3d",
            "normals:2d-refused",
            "vertex_normals:unit-required",
            "vertex_normals:orphan-exempt",
        ]
        need += ["rigid:%s" % r for r in RIGID + MAG_RIGID] + ["scale:%s" % s for s in SCALES + MAG_SCALES]
        forms = sorted(set(r[5] for r in self._form_roots()))
        need += ["form:%s:geom" % f for f in forms] + ["form:%s:mask" % f for f in forms]
        need += ["mask:structured-family", "form:big-mesh-small-index-dtype"]
        need += ["refuse:vmask-size:ValueError", "refuse:normals-2d:ValueError"]
        for kind in ("vmask-no-triangle", "tmask-size", "tmask-none"):
            if not any(k.startswith("refuse:%s:" % kind) for k in notes):
                out_missing = "refusal kind %s never produced a refusal" % kind
                need.append(out_missing)
        out = ["outcome %s never produced" % n for n in need if not notes.get(n)]
        if self.tier == "thorough" and stats.per_level.get(2, 0) == 0:
            out.append("no mask was applied to the result of a mask")
        return out

    def rule(self):
        return (
            "every mesh letter x class x dimension is a root; every vertex mask and triangle mask keeping a whole "
            "triangle and every geometry letter is applied to it (thorough: again to every distinct masked mesh); "
            "each call on the real mesh is compared with the set-based reference mesh"
        )

    def alphabet_sizes(self):
        letters = self._mesh_letters()
        fam = {}
        for f, _ in letters:
            fam[f] = fam.get(f, 0) + 1
        if "five+" in fam:
            fam["five (further rotations, TriMesh only)"] = fam.pop("five+")
        forms = {}
        for r in self._form_roots():
            forms[r[5]] = forms.get(r[5], 0) + 1
        small, big = self._form_carriers()
        fam["argument-form roots"] = len(self._form_roots())
        return {"argument_forms": forms, "form_carriers": {"small (every mask)": [repr(c) for c in small], "large (structured masks)": [repr(c) for c in big]}, "mesh_letters": fam, "classes": CLASSES, "dims": [2, 3], "roots": len(self.roots()), "rigid_letters": RIGID, "scale_letters": SCALES, "orientations": ["sorted", "mixed"]}

    def assumptions(self):
        return [
            "general-position guard: pairwise vertex distance >= %.2f, every mesh triangle of area >= %.2f" % (MIN_DIST, MIN_AREA),
            "Delaunay letters: a fixed 6 / 7 point layout whose coordinates are jittered by the seed and kept only while the triangulation stays the Delaunay triangulation of the jittered points (structure never depends on the seed)",
            "argument forms: only forms the unchanged constructors / mask methods accept are letters (excluded: float / uint64 triangle lists, integer points, list / integer masks, tuple triangle masks, list colours, list points for ColouredTriMesh, index dtypes whose maximum equals the largest vertex index); float32 points: geometry tolerance %.0e" % TOL32,
            "meshes with more than %d points or %d triangles get the structured mask family (all, all but one element, one triangle / one closed vertex neighbourhood alone, index prefixes / suffixes, residue classes); above %d points the per-element letters address every 8th element" % (BIG_POINTS, BIG_TRIS, HUGE_POINTS),
            "masks that keep no whole triangle are outside the quantifier of the masking clauses; they, wrong-length vertex / triangle masks, all-false triangle masks and normals of 2-D meshes are REFUSED-CALL letters (first letters of every state): must raise (ValueError where the code raises it explicitly), leave receiver and argument observably unchanged, be refused identically on retry, and a valid mask on the same live mesh must still match the reference; geometry letters follow on the same live mesh",
            "not a refusal letter: tri_areas of meshes that are neither 2-D nor 3-D (outside the quantifier), constructor refusals (no live receiver)",
            "[interp] all-true vertex mask on a mesh with pre-existing orphan vertices: the identical copy (orphans kept) and the orphan-free mesh are both accepted; every partial mask must drop them",
            "[interp] a triangle mask keeps every triangle all of whose vertices survive, i.e. also unselected triangles spanned by vertices of selected ones",
            "[interp] vertex normals must be unit only for vertices of at least one triangle whose incident normals do not cancel; the orientation (sign) of normals is not part of the property",
            "depth 2 (thorough): masks of a masked mesh are enumerated when it has <= %d points and <= %d triangles; geometry letters always" % (DEPTH2_MAX_POINTS, DEPTH2_MAX_TRIS),
            "mixed vertex order letters: TriMesh (all families), thorough also the other classes on the <= 4 triangle lists; 5-triangle family: sorted + rotated by one for all classes, thorough adds the other three rotations for TriMesh",
            "geometry tolerance: relative %.0e x max(1, 1e-3 x |coordinate| / spread); absolute parts are that times spread (lengths) or spread^2 (areas) of the mesh itself - never a fixed epsilon; masking comparisons are bitwise" % TOL,
            "magnitude letters (payload x 1, 1e-6, 1e-9, 1e6, common offset of 1e6 spreads; further scale letters 1e-6, 1e-9, 1e6, 1+1e-7, a rotation by 1e-7 rad and a translation by 1e6 spreads) on 4 small meshes x class x dim, plus a 2 x 40 grid (plain and x 1e-6); rigid translations are expressed in units of the mesh's spread",
        ]


CHECK = C17
