"""C08 - retargeting an alignment equals rebuilding it, whatever happened before.

State   : one alignment built from (class letter, constructor options, source, initial target) plus the
          copies taken from it (at most MAX_OBJS live objects).  Reference model = for every live object
          the *name* of the target it was last given; everything else (class, options, source) is fixed by
          the root.
Ops     : set_target(t) for every target of the pool (a rotated+scaled, a reflected, a sheared noisy copy
          of the source and the source object itself), on the original or on any copy; copy() of any live
          object (the copy stays in the state and is re-checked after every later step);
          set_target(wrong number of points: n+1, n-1), set_target(other dimensionality, same n),
          set_target(other dimensionality with the same number of coordinates);
          pseudoinverse() of any live object: the inverse JOINS the state (model: source = old target,
          target = old source, same options) and is then retargeted / copied / inverted like any other.
          Every step ends with the complete sequence of public queries on every live object (also when a
          history is merely replayed), so an object is always queried, changed through its public API and
          queried again - whatever an object memoises, or inherits through copy() / pseudoinverse(), is used.
Oracle  : after every step every live object is observationally identical (exact) to
          cls(fresh source, fresh copy of its model target, **options) built from regenerated payload:
          class, h_matrix / TPS coefficients, source, target, options, image of probe points,
          aligned_source(), alignment_error(), n_points and the same observation of pseudoinverse();
          its target / source hold exactly the coordinates that were passed; every object the caller passed
          (source, all pool targets, wrong-sized targets, kernel centres) is unchanged; wrong-sized targets
          raise ValueError and change nothing; copy() gives a distinct object of the same class.
          An inverse of the homogeneous family is the inverted fit, not a fit (C04's subject): until its first
          set_target only the clauses below are demanded of it; a TPS / PWA inverse is a new construction and
          must equal the fresh build at once.  Every live object, always: aligned_source() == apply(source
          points) and alignment_error() == ||target - apply(source points)|| (exact), source / target hold
          exactly the coordinates of the model.
Refused : every call the tree refuses is a self-loop letter on the same live object: the four wrong-sized
          set_target calls, apply(points of the other dimensionality), apply(points outside the source domain)
          for piecewise-affine maps, and constructing the same class from the object's own source and a
          wrong-sized target / from 3-D point sets for the 2-D-only classes.  Oracle: it raises (ValueError where
          the interface documents it, TriangleContainmentError outside the domain), the complete observation of
          the receiver and of every argument is exactly as before, an immediate retry is refused with the same
          exception type, message and mask, every live object still satisfies the normal oracle - and every VALID
          operation of every history is itself preceded by one refused call on its receiver (kinds in rotation),
          so that each later valid step is checked on an object that has seen refused calls.
GPA     : roots of kind "G": GeneralizedProcrustesAnalysis(sources) without a fixed target - every
          transforms[i] is exactly AlignmentSimilarity(sources[i], gpa.target, allow_mirror=...) and reports
          gpa.target as its target; the inputs are unchanged; each returned transform, retargeted once
          more, still equals the fresh build (the option survived the iterations).  Shape families: three
          converging ones and 'noconv' - unrelated random shapes, the first set (in a fixed seeded order) on which
          the iteration budget runs out (converged is False): same oracle.  GPA refusals: a single shape, shapes
          of different sizes / dimensionalities raise, leave the inputs unchanged, and the same PointCloud
          objects are then aligned by the valid runs.
"""
import hashlib

import numpy as np

from mc.core import Check, Failure
from mc.letters import MIN_AREA, generic_points, rotation_matrix, rs
from mc.observe import buffers, obs_diff, obs_key, observe

MAX_OBJS = 3
TARGETS = ("rot", "refl", "shear", "self", "int")
BAD_KINDS = ("n+1", "n-1", "dims", "samesize")  # set_target(wrong-sized target)
# further calls the unchanged tree refuses, made on (or from) the same live object between the valid operations
CALL_KINDS = ("apply-dims", "apply-outside", "ctor-n+1", "ctor-dims", "ctor-3d")
GPA_REFUSALS = ("single-shape", "mixed-n-points", "mixed-dims")
NOCONV_CANDIDATES = 1500


# ------------------------------------------------------------------------------------------------
# alphabet of class / option letters
# ------------------------------------------------------------------------------------------------
def class_letters():
    """(class name, options as a tuple of (name, value) pairs, dimensionalities)."""
    out = []
    for name in ("AlignmentTranslation", "AlignmentUniformScale", "AlignmentAffine"):
        out.append((name, (), (2, 3)))
    for mir in (False, True):
        out.append(("AlignmentRotation", (("allow_mirror", mir),), (2, 3)))
    for rot in (True, False):
        for mir in (False, True):
            out.append(("AlignmentSimilarity", (("rotation", rot), ("allow_mirror", mir)), (2, 3)))
    # kernel None = the constructor's own default branch; msv 'cut1' = a floor between the two smallest
    # singular values of the TPS system matrix of this very source (so that the floor changes the fit)
    for kern, msvs in (("None", ("1e-4", "1e-2", "cut1")), ("R2LogRRBF", ("1e-4", "1e-2", "cut1")), ("R2LogR2RBF", ("1e-4",))):
        for msv in msvs:
            out.append(("ThinPlateSplines", (("kernel", kern), ("min_singular_val", msv)), (2,)))
    for name in ("PythonPWA", "CachedPWA"):
        for src in ("TriMesh", "PointCloud"):  # a PointCloud source is triangulated by the constructor
            out.append((name, (("source", src),), (2,)))
    return out


def letter_name(root):
    name, opts = root[1], root[2]
    if not opts:
        return name
    return "%s(%s)" % (name, ",".join("%s=%s" % (k, v) for k, v in opts))


PWA_LAYOUT = {
    3: ([[0.5, 0.5], [0.5, 5.5], [5.5, 3.0]], [[0, 1, 2]]),
    4: ([[0.5, 0.5], [0.5, 5.5], [5.5, 5.5], [5.5, 0.5]], [[0, 1, 2], [0, 2, 3]]),
    5: ([[0.5, 0.5], [0.5, 5.5], [5.5, 5.5], [5.5, 0.5], [3.0, 3.0]], [[0, 1, 4], [1, 2, 4], [2, 3, 4], [3, 0, 4]]),
    6: (
        [[0.5, 0.5], [0.5, 5.5], [5.5, 5.5], [5.5, 0.5], [2.2, 3.0], [3.8, 3.0]],
        [[0, 1, 4], [1, 2, 5], [1, 5, 4], [2, 3, 5], [3, 0, 4], [3, 4, 5]],
    ),
}


def _kernel_matrix(kind, pts):
    """Plain numpy version of the two radial basis kernels (only used to place the 'cut1' floor)."""
    diff = pts[:, None, :] - pts[None, :, :]
    r = np.sqrt((diff ** 2).sum(-1))
    with np.errstate(divide="ignore", invalid="ignore"):
        u = r ** 2 * (np.log(r) if kind == "R2LogRRBF" else 2 * np.log(r))
    u[r == 0] = 0.0
    return u


def _tps_system_singular_values(kind, pts):
    n = pts.shape[0]
    k = _kernel_matrix(kind, pts)
    p = np.concatenate([np.ones((n, 1)), pts], axis=1)
    l = np.zeros((n + 3, n + 3))
    l[:n, :n] = k
    l[:n, n:] = p
    l[n:, :n] = p.T
    return np.linalg.svd(l, compute_uv=False)


def _linear_maps(d, seed, salt):
    """The three generating maps of the target pool (linear part, uniform over seeds in structure)."""
    r = rs(seed, "c08-maps", salt, d)
    rot = rotation_matrix(d, seed, ("c08", salt, "a"))
    small = rotation_matrix(d, seed, ("c08", salt, "b"))
    refl = np.eye(d)
    refl[0, 0] = -1.0
    shear = np.eye(d) + np.triu(0.35 + 0.3 * r.rand(d, d), 1)
    shear[d - 1, 0] = 0.15
    shear = shear.dot(np.diag(1.0 + 0.25 * np.arange(d)))
    return {"rot": 1.3 * rot, "refl": 0.8 * small.dot(refl), "shear": shear}


class C08(Check):
    id = "C08"
    title = "retargeting an alignment equals rebuilding it, whatever happened before"

    def __init__(self, tier, seed):
        Check.__init__(self, tier, seed)
        self._pl = {}

    # ------------------------------------------------------------------ bounds
    def depth(self):
        return 3 if self.tier == "quick" else 4

    def _sizes(self, d):
        if self.tier == "quick":
            return (6,)
        return (3, 6) if d == 2 else (4, 6)

    def _inits(self):
        # "int": an integer-dtype target (PointCloud keeps int64 points; anything that updates fit buffers in place
        # would keep the dtype of the first target)
        return ("rot", "refl", "shear", "int") if self.tier == "quick" else ("rot", "refl", "shear", "self", "int")

    def roots(self):
        out = []
        for name, opts, dims in class_letters():
            for d in dims:
                for n in self._sizes(d):
                    for init in self._inits():
                        out.append(("A", name, opts, d, n, init))
        ks = (2, 3) if self.tier == "quick" else (2, 3, 4)
        for d in (2, 3):
            for n in ((5,) if self.tier == "quick" else (4, 6)):
                for k in ks:
                    for variant in ("sim", "refl", "shift"):
                        out.append(("G", d, n, k, variant))
        # unrelated shapes on which the iteration budget runs out (the give-up path of the iteration)
        for d, n, k in ((2, 4, 3), (3, 5, 3)) if self.tier == "quick" else ((2, 4, 3), (3, 5, 3), (2, 5, 3)):
            out.append(("G", d, n, k, "noconv"))
        return out

    # ------------------------------------------------------------------ payload (seeded, structure fixed)
    def _payload(self, root):
        if root in self._pl:
            return self._pl[root]
        if root[0] == "G":
            pl = self._gpa_payload(root)
        else:
            pl = self._align_payload(root)
        self._pl[root] = pl
        return pl

    def _align_payload(self, root):
        _, name, opts, d, n, _init = root
        o = dict(opts)
        seed = self.seed
        trilist = None
        if name in ("PythonPWA", "CachedPWA"):
            base, tl = PWA_LAYOUT[n]
            s = np.array(base) + (rs(seed, "c08-pwa", n).rand(n, 2) - 0.5) * 0.4
            trilist = np.array(tl)
        elif name == "ThinPlateSplines":
            s = generic_points(n, 2, seed, ("c08-tps", n), min_area=MIN_AREA)
        else:
            s = generic_points(n, d, seed, ("c08-src", n, d), min_area=MIN_AREA if d == 2 else None)
        c = s.mean(axis=0)
        maps = _linear_maps(d, seed, n)
        targets = {}
        for i, tn in enumerate(("rot", "refl", "shear")):
            r = rs(seed, "c08-tgt", tn, n, d)
            shift = (r.rand(d) - 0.5) * 2.0
            targets[tn] = (s - c).dot(maps[tn].T) + c + shift + 0.15 * r.randn(n, d)
        targets["int"] = np.round(2.0 * targets["rot"]).astype(np.int64)
        rb = rs(seed, "c08-bad", n, d)
        od = 3 if d == 2 else 2
        bad = {
            "n+1": 0.5 + 5 * rb.rand(n + 1, d),
            "n-1": 0.5 + 5 * rb.rand(n - 1, d),
            "dims": 0.5 + 5 * rb.rand(n, od),
        }
        if (n * d) % od == 0:
            bad["samesize"] = 0.5 + 5 * rb.rand(n * d // od, od)
        pl = {"S": s, "trilist": trilist, "targets": targets, "bad": bad}
        pl["xbad"] = {"apply-dims": 0.5 + 5 * rb.rand(5, od)}
        if trilist is not None:
            tri = s[trilist[:2]]
            inside = tri.mean(axis=1)
            pl["xbad"]["apply-outside"] = np.concatenate([inside[:1], [[100.0, 100.0]], inside[1:], [[-50.0, 3.0]]])
        if d == 2 and name in ("ThinPlateSplines", "PythonPWA", "CachedPWA"):
            p3 = generic_points(6, 3, seed, ("c08-3d", n))
            pl["bad3d"] = (p3, np.array([[0, 1, 2], [1, 2, 3], [2, 3, 4], [3, 4, 5]]), p3 * 1.1 + 0.3)
        if name == "ThinPlateSplines":
            kind = "R2LogRRBF" if o["kernel"] == "R2LogRRBF" else "R2LogR2RBF"
            sv = _tps_system_singular_values(kind, s)
            pl["sv"] = sv
            pl["msv"] = {"1e-4": 1e-4, "1e-2": 1e-2, "cut1": float(np.sqrt(sv[-1] * sv[-2]))}[o["min_singular_val"]]
        return pl

    def _gpa_payload(self, root):
        _, d, n, k, variant = root
        seed = self.seed
        if variant == "noconv":
            return self._gpa_noconv_payload(root)
        b = generic_points(n, d, seed, ("c08-gpa", n, d), min_area=MIN_AREA if d == 2 else None)
        c = b.mean(axis=0)
        shapes = []
        for i in range(k):
            r = rs(seed, "c08-gpa-shape", variant, n, d, i)
            t = (r.rand(d) - 0.5) * 3.0
            if variant == "shift":
                shapes.append(b + t)
                continue
            m = (0.7 + 0.8 * r.rand()) * rotation_matrix(d, seed, ("c08-gpa", variant, i))
            if variant == "refl" and i == 1:
                e = np.eye(d)
                e[0, 0] = -1.0
                m = m.dot(e)
            shapes.append((b - c).dot(m.T) + c + t + 0.2 * r.randn(n, d))
        maps = _linear_maps(d, seed, ("gpa", n))
        r = rs(seed, "c08-gpa-retarget", n, d)
        retarget = (b - c).dot(maps["refl"].T) + c + 0.15 * r.randn(n, d)
        return {"shapes": shapes, "retarget": retarget}

    def _gpa_noconv_payload(self, root):
        """Unrelated random shapes: candidates i = 0, 1, ... in a fixed seeded order; the first set on which the
        iteration gives up (found by running it - this only selects an input)."""
        from menpo.shape import PointCloud
        from menpo.transform import GeneralizedProcrustesAnalysis

        _, d, n, k, _variant = root
        chosen, index = None, None
        for i in range(NOCONV_CANDIDATES):
            r = rs(self.seed, "c08-gpa-noconv", d, n, k, i)
            shapes = [1.5 * r.randn(n, d) for _ in range(k)]
            ok = True
            for sh in shapes:  # non-degenerate: no two points of a shape closer than 0.3
                diff = sh[:, None, :] - sh[None, :, :]
                if (np.sqrt((diff ** 2).sum(-1)) + np.eye(n) * 9).min() < 0.3:
                    ok = False
            if not ok:
                continue
            if chosen is None:
                chosen = shapes  # fall-back (vacuity() then reports that no run gave up)
            g = GeneralizedProcrustesAnalysis([PointCloud(sh.copy()) for sh in shapes])
            if not g.converged:
                chosen, index = shapes, i
                break
        b = chosen[0]
        c = b.mean(axis=0)
        maps = _linear_maps(d, self.seed, ("gpa", n))
        r = rs(self.seed, "c08-gpa-retarget", n, d)
        retarget = (b - c).dot(maps["refl"].T) + c + 0.15 * r.randn(n, d)
        return {"shapes": chosen, "retarget": retarget, "noconv_index": index}

    # ------------------------------------------------------------------ construction
    def _make_source(self, root, pl):
        from menpo.shape import PointCloud, TriMesh

        if pl["trilist"] is not None and dict(root[2]).get("source") == "TriMesh":
            return TriMesh(pl["S"].copy(), pl["trilist"].copy())
        return PointCloud(pl["S"].copy())

    def _make_kernel(self, root, src, kern=None):
        from menpo.transform.rbf import R2LogR2RBF, R2LogRRBF

        kern = kern or dict(root[2]).get("kernel", "None")
        if kern == "R2LogRRBF":
            return R2LogRRBF(src.points)
        if kern == "R2LogR2RBF":
            return R2LogR2RBF(src.points)
        return None

    def _construct(self, root, src, tgt, kernel, override=None):
        import menpo.transform as mt
        from menpo.transform.piecewiseaffine.base import CachedPWA, PythonPWA

        name = root[1]
        o = dict(root[2])
        if override:
            o.update(override)
        if name == "ThinPlateSplines":
            msv = o["min_singular_val"]
            if not isinstance(msv, float):
                msv = self._payload(root)["msv"]
            return mt.ThinPlateSplines(src, tgt, kernel=kernel, min_singular_val=msv)
        if name == "PythonPWA":
            return PythonPWA(src, tgt)
        if name == "CachedPWA":
            return CachedPWA(src, tgt)
        return getattr(mt, name)(src, tgt, **o)

    def _ref_trilist(self, root):
        """triangulation every inverse of a PWA letter inherits: the explicit one, or the constructor's own."""
        from menpo.shape import TriMesh

        pl = self._payload(root)
        if dict(root[2]).get("source") == "TriMesh":
            return pl["trilist"]
        if "delaunay" not in pl:
            pl["delaunay"] = np.array(TriMesh(pl["S"].copy()).trilist, copy=True)
        return pl["delaunay"]

    def _pts(self, root, name):
        pl = self._payload(root)
        return pl["S"] if name in ("S", "self") else pl["targets"][name]

    def _fresh(self, root, model, override=None, kern=None):
        """cls(source, target, **options) from regenerated payload - shares nothing with the explored state.
        model = (source name, target name[, fitted]); source 'S' is the root's source object, any other source
        name is a pool target that became a source through pseudoinverse()."""
        from menpo.shape import PointCloud, TriMesh

        if isinstance(model, str):
            model = ("S", model)
        src_n, tgt_n = model[0], model[1]
        pl = self._payload(root)
        if src_n == "S":
            src = self._make_source(root, pl)
        elif pl["trilist"] is not None:
            src = TriMesh(pl["targets"][src_n].copy(), self._ref_trilist(root).copy())
        else:
            src = PointCloud(pl["targets"][src_n].copy())
        if tgt_n == "self":
            tgt = src if src_n == "S" else PointCloud(pl["S"].copy())
        else:
            tgt = PointCloud(pl["targets"][tgt_n].copy())
        return self._construct(root, src, tgt, self._make_kernel(root, src, kern), override)

    # ------------------------------------------------------------------ state
    def build(self, root):
        from menpo.shape import PointCloud

        pl = self._payload(root)
        if root[0] == "G":
            d, n = root[1], root[2]
            r = rs(self.seed, "c08-gpa-odd", d, n)
            return {
                "root": root,
                "kind": "G",
                "objs": [],
                "model": [],
                "sources": [PointCloud(sh.copy()) for sh in pl["shapes"]],
                "odd": {"mixed-n-points": PointCloud(0.5 + 5 * r.rand(n - 1, d)), "mixed-dims": PointCloud(0.5 + 5 * r.rand(n, 5 - d))},
            }
        src = self._make_source(root, pl)
        kernel = self._make_kernel(root, src)
        pool = {tn: PointCloud(pl["targets"][tn].copy()) for tn in ("rot", "refl", "shear", "int")}
        pool["self"] = src
        bad = {k: PointCloud(v.copy()) for k, v in pl["bad"].items()}
        al = self._construct(root, src, pool[root[5]], kernel)
        passed = [("source", src)] + [("target:" + k, v) for k, v in pool.items() if k != "self"] + [("wrong:" + k, v) for k, v in bad.items()]
        if kernel is not None:
            passed.append(("kernel.c", kernel.c))
        xbad = {k: v.copy() for k, v in pl["xbad"].items()}
        passed += [("argument:" + k, v) for k, v in xbad.items()]
        bad3d = None
        if "bad3d" in pl:
            from menpo.shape import TriMesh

            p3, tl3, t3 = pl["bad3d"]
            bad3d = (TriMesh(p3.copy(), tl3.copy()) if dict(root[2]).get("source") == "TriMesh" else PointCloud(p3.copy()), PointCloud(t3.copy()))
            passed += [("argument:3d-source", bad3d[0]), ("argument:3d-target", bad3d[1])]
        st = {
            "root": root,
            "kind": "A",
            "src": src,
            "kernel": kernel,
            "pool": pool,
            "bad": bad,
            "xbad": xbad,
            "bad3d": bad3d,
            "n_valid": 0,
            "passed": passed,
            "obs0": [(k, observe(v)) for k, v in passed],
            "objs": [al],
            "model": [("S", root[5], True)],
            "who": ["original"],
        }
        self._touch(st)
        return st

    def _touch(self, st):
        """the complete sequence of public queries on every live object (part of every step, verified or not)."""
        for al in st["objs"]:
            self._full_obs(al)

    # the complete public observation of one alignment (fixed order of calls: CachedPWA memoises the last input)
    def _full_obs(self, al):
        from menpo.transform import ThinPlateSplines
        from menpo.transform.piecewiseaffine.base import AbstractPWA

        d = observe(al)
        d["n_points"] = int(al.n_points)
        d["aligned_source"] = np.array(al.aligned_source().points, copy=True)
        d["alignment_error"] = float(al.alignment_error())
        if isinstance(al, ThinPlateSplines):
            d["coefficients"] = np.array(al.coefficients, copy=True)
        s = al.source.points
        if isinstance(al, AbstractPWA):
            tri = s[al.trilist]
            x = np.concatenate([tri[:, 0] * w[0] + tri[:, 1] * w[1] + tri[:, 2] * w[2] for w in ((0.2, 0.3, 0.5), (0.6, 0.3, 0.1))])
        else:
            c = s.mean(axis=0)
            x = np.concatenate([c + 0.3 * (s - c), c[None, :] + 1.7 * (s[:2] - c)])
        d["probe_near_source"] = np.asarray(al.apply(x))
        d["pseudoinverse"] = observe(al.pseudoinverse())
        return d

    def _hidden(self, al):
        # walked attribute by attribute: mc.observe.buffers lists an array once per walk, so one walk over the whole
        # object would make the digest depend on whether source and target happen to be the same PointCloud object
        # (an inverse retargeted to the point set it was derived from) although nothing observable depends on it
        h = hashlib.sha1()
        for name, val in vars(al).items():
            for path, arr in buffers(val, path="." + name):
                h.update(path.encode())
                h.update(repr(obs_key(arr)).encode())
        return h.hexdigest()

    def canon(self, st):
        if st["kind"] == "G":
            return ("G",)
        h = hashlib.sha1()
        for al in st["objs"]:
            h.update(repr(obs_key(self._full_obs(al))).encode())
            # private buffers only make merging more conservative (never part of a verdict): two histories
            # are merged only if nothing reachable from the objects differs
            h.update(self._hidden(al).encode())
        return (tuple(st["model"]), h.hexdigest())

    # ------------------------------------------------------------------ alphabet of operations
    def ops(self, st, level):
        if st["kind"] == "G":
            return [("gpa-refuse", k) for k in GPA_REFUSALS] + [("gpa", False), ("gpa", True)]
        out = []
        n_obj = len(st["objs"])
        last = level >= 3  # the fourth operation of a thorough history is a set_target (the re-fit is what is compared)
        for j in range(n_obj):
            for tn in TARGETS:
                out.append(("set", j, tn))
            if last:
                continue
            if n_obj < MAX_OBJS:
                out.append(("copy", j))
                out.append(("pinv", j))
            for k in self._refusal_kinds(st):
                out.append(("bad", j, k))
        return out

    def _refusal_kinds(self, st, on_receiver_only=False):
        out = [k for k in BAD_KINDS if k in st["bad"]] + ["apply-dims"]
        if "apply-outside" in st["xbad"]:
            out.append("apply-outside")
        if not on_receiver_only:
            out += ["ctor-n+1", "ctor-dims"]
            if st["bad3d"] is not None:
                out.append("ctor-3d")
        return out

    def _refusal(self, st, j, kind):
        """(callable making the refused call, exception class it has to raise or None for 'any', who says so)."""
        from menpo.transform.piecewiseaffine.base import TriangleContainmentError

        al = st["objs"][j]
        root = st["root"]
        if kind in BAD_KINDS:
            return (lambda: al.set_target(st["bad"][kind])), ValueError
        if kind == "apply-dims":
            return (lambda: al.apply(st["xbad"]["apply-dims"])), None
        if kind == "apply-outside":
            return (lambda: al.apply(st["xbad"]["apply-outside"])), TriangleContainmentError
        if kind in ("ctor-n+1", "ctor-dims"):
            tgt = st["bad"][kind[5:]]
            return (lambda: self._construct(root, al.source, tgt, self._make_kernel(root, al.source))), ValueError
        if kind == "ctor-3d":
            src3, tgt3 = st["bad3d"]
            return (lambda: self._construct(root, src3, tgt3, self._make_kernel(root, src3))), ValueError
        raise ValueError(kind)

    @staticmethod
    def _raises(call):
        try:
            call()
        except Exception as e:  # the refusal itself is what is observed here; its type is judged by the caller
            return e
        return None

    @staticmethod
    def _same_refusal(e1, e2):
        if type(e1) is not type(e2) or str(e1) != str(e2):
            return False
        m1, m2 = getattr(e1, "points_outside_source_domain", None), getattr(e2, "points_outside_source_domain", None)
        if (m1 is None) != (m2 is None):
            return False
        return m1 is None or np.array_equal(m1, m2)

    def _refused_first(self, st, j, verify, where, op):
        """one refused call on the receiver of the valid operation that follows (kinds in rotation over position in
        the history, receiver and letter of the valid operation)."""
        kinds = self._refusal_kinds(st, on_receiver_only=True)
        code = TARGETS.index(op[2]) if op[0] == "set" else len(TARGETS) + (op[0] == "pinv")
        kind = kinds[(3 * st["n_valid"] + j + code) % len(kinds)]
        st["n_valid"] += 1
        call, _exp = self._refusal(st, j, kind)
        e = self._raises(call)
        if verify:
            self.note("refused-before-valid-op:%s" % kind)
            if e is None:
                return [Failure(where, "refused-call-raises", "the %s call made before this operation was accepted" % kind)]
        return []

    # ------------------------------------------------------------------ step
    def apply(self, st, op, verify=True):
        kind = op[0]
        if kind == "gpa":
            return self._gpa(st, op[1]) if verify else []
        if kind == "gpa-refuse":
            return self._gpa_refuse(st, op[1]) if verify else []
        fails = self._apply(st, op, verify)
        if not verify:
            self._touch(st)
        return fails

    def _apply(self, st, op, verify):
        kind = op[0]
        root = st["root"]
        letter = letter_name(root)
        j = op[1]
        al = st["objs"][j]
        fails = []
        if kind in ("set", "copy", "pinv"):
            fails.extend(self._refused_first(st, j, verify, {"set": "set_target:", "copy": "copy:", "pinv": "pseudoinverse:"}[kind] + letter, op))
        if kind == "set":
            tn = op[2]
            al.set_target(st["pool"][tn])
            src_n, old_tn, was_fitted = st["model"][j]
            changed = old_tn != tn
            st["model"][j] = (src_n, tn, True)
            if verify:
                self.note("set:%s" % ("new-target" if changed else "same-target-again"))
                self.note("set-on:%s" % st["who"][j])
                if not was_fitted:
                    self.note("set-on:inverted-fit")
                if src_n != "S":
                    self.note("set-on:object-whose-source-was-a-target")
                if len(set(st["model"])) > 1:
                    self.note("copies:diverged")
                fails.extend(self._verify_all(st, "set_target:" + letter))
            return fails
        if kind == "copy":
            c = al.copy()
            if verify:
                self.note("copy:ok")
                if c is al:
                    fails.append(Failure("copy:" + letter, "copy-is-distinct-object", "copy() returned its receiver"))
                if type(c) is not type(al):
                    fails.append(Failure("copy:" + letter, "copy-class", "copy() of %s is a %s" % (type(al).__name__, type(c).__name__)))
            st["objs"].append(c)
            st["model"].append(st["model"][j])
            st["who"].append("copy")
            if verify:
                self.note("copy-of:%s" % st["who"][j])
                fails.extend(self._verify_all(st, "copy:" + letter))
            return fails
        if kind == "pinv":
            inv = al.pseudoinverse()
            src_n, tgt_n, _fitted = st["model"][j]
            rebuilt = root[1] in ("ThinPlateSplines", "PythonPWA", "CachedPWA")  # these construct a new alignment
            if verify:
                self.note("pinv:%s" % ("new-construction" if rebuilt else "inverted-fit"))
                self.note("pinv-of:%s" % st["who"][j])
                if inv is al:
                    fails.append(Failure("pseudoinverse:" + letter, "inverse-is-distinct-object", "pseudoinverse() returned its receiver"))
                if type(inv) is not type(al):
                    fails.append(Failure("pseudoinverse:" + letter, "inverse-class", "pseudoinverse() of %s is a %s" % (type(al).__name__, type(inv).__name__)))
            st["objs"].append(inv)
            st["model"].append(("S" if tgt_n == "self" else tgt_n, "self" if src_n == "S" else src_n, rebuilt))
            st["who"].append("inverse")
            if verify:
                fails.extend(self._verify_all(st, "pseudoinverse:" + letter))
            return fails
        if kind == "bad":
            rk = op[2]
            call, expected = self._refusal(st, j, rk)
            if not verify:
                self._raises(call)
                self._raises(call)
                self._raises(call)
                return fails
            where = ("set_target-wrong-%s:%s" if rk in BAD_KINDS else "refused-%s:%s") % (rk, letter)
            raise_clause = "wrong-size-rejected" if (rk in BAD_KINDS or rk.startswith("ctor-n") or rk.startswith("ctor-d")) else "refused-call-raises"
            before = self._full_obs(al)
            e1 = self._raises(call)
            if e1 is None:
                self.note("bad:%s:accepted" % rk)
                return [Failure(where, raise_clause, "the call was accepted (receiver %r of %s source points)" % (st["model"][j], st["src"].points.shape[0]))]
            self.note("bad:%s:%s" % (rk, type(e1).__name__))
            if expected is not None and not isinstance(e1, expected):
                fails.append(Failure(where, raise_clause, "expected %s, got %s: %s" % (expected.__name__, type(e1).__name__, e1)))
            e2 = self._raises(call)  # the immediate retry (nothing in between that could refresh a memo)
            diff = obs_diff(before, self._full_obs(al))
            if diff:
                fails.append(Failure(where, "refused-call-leaves-receiver-unchanged", "receiver %r after the refused call: %s" % (st["model"][j], diff)))
            if e2 is None or not self._same_refusal(e1, e2):
                fails.append(Failure(where, "retry-refused-the-same-way", "first %s: %s / retry %s" % (type(e1).__name__, e1, "accepted" if e2 is None else "%s: %s" % (type(e2).__name__, e2))))
            e3 = self._raises(call)  # and once more after the object has been queried
            if e3 is None or not self._same_refusal(e1, e3):
                fails.append(Failure(where, "retry-refused-the-same-way", "first %s: %s / after the queries %s" % (type(e1).__name__, e1, "accepted" if e3 is None else "%s: %s" % (type(e3).__name__, e3))))
            if not fails:
                fails.extend(self._verify_all(st, where, clause_prefix="after-rejection:"))
            return fails
        raise ValueError(op)

    # ------------------------------------------------------------------ oracle
    def _verify_all(self, st, where, clause_prefix=""):
        root = st["root"]
        pl = self._payload(root)
        fails = []
        for k, (al, mod) in enumerate(zip(st["objs"], st["model"])):
            who = st["who"][k]
            tn = mod[1]
            exp_t = self._pts(root, mod[1])
            exp_s = self._pts(root, mod[0])
            got_t = np.asarray(al.target.points)
            if got_t.shape != exp_t.shape or not np.array_equal(got_t, exp_t):
                fails.append(Failure(where, clause_prefix + "%s-target-is-the-one-set" % who, "object #%d: model target %r, target held differs (max abs %s)" % (k, tn, _maxabs(got_t, exp_t))))
            got_s = np.asarray(al.source.points)
            if got_s.shape != exp_s.shape or not np.array_equal(got_s, exp_s):
                fails.append(Failure(where, clause_prefix + "%s-source-kept" % who, "object #%d: source differs from the model's %r (max abs %s)" % (k, mod[0], _maxabs(got_s, exp_s))))
            # self-consistency of the queries (whatever is memoised on the object or inherited from its parent)
            mapped = np.asarray(al.apply(np.array(got_s, copy=True)))
            got_a = np.asarray(al.aligned_source().points)
            if got_a.shape != mapped.shape or not np.array_equal(got_a, mapped):
                fails.append(Failure(where, clause_prefix + "%s-aligned-source-is-apply-of-source" % who, "object #%d %r: aligned_source() differs from apply(source.points) (max abs %s)" % (k, mod, _maxabs(got_a, mapped))))
            if got_t.shape == mapped.shape:
                err, exp_err = float(al.alignment_error()), float(np.linalg.norm(got_t - mapped))
                if err != exp_err:
                    fails.append(Failure(where, clause_prefix + "%s-alignment-error-is-distance-to-target" % who, "object #%d %r: alignment_error() %r, ||target - apply(source)|| %r" % (k, mod, err, exp_err)))
            self.note("selfconsistency:%s" % who)
            if not mod[2]:
                # the inverted fit of the homogeneous family: no fresh build to compare with before its first set_target
                self._full_obs(al)
                self.note("inverted-fit:checked-without-fresh-build")
                continue
            fresh = self._fresh(root, mod)
            if who == "inverse" or mod[0] != "S":
                self.note("equals-fresh:%s" % ("inverse-or-its-copy"))
            if type(al) is not type(fresh):
                fails.append(Failure(where, clause_prefix + "%s-class" % who, "object #%d is a %s, fresh build a %s" % (k, type(al).__name__, type(fresh).__name__)))
                continue
            diff = obs_diff(self._full_obs(fresh), self._full_obs(al))
            if diff:
                fails.append(
                    Failure(
                        where,
                        clause_prefix + "%s-equals-fresh-build" % who,
                        "object #%d (models of live objects %r): fresh %s(%r, %r) vs explored object: %s" % (k, st["model"], letter_name(root), mod[0], tn, diff),
                    )
                )
        now = [(k, observe(v)) for k, v in st["passed"]]
        for (k, a), (_, b) in zip(st["obs0"], now):
            diff = obs_diff(a, b)
            if diff:
                fails.append(Failure(where, clause_prefix + "caller-objects-unchanged", "%s changed: %s" % (k, diff)))
        return fails

    def check_root(self, st, root):
        if st["kind"] == "G":
            return []
        letter = letter_name(root)
        fails = self._verify_all(st, "construct:" + letter)
        # non-vacuity of the option letters: on which pool targets does the *other* value of an option give
        # a different fit (so that forgetting the option at re-fit time is observable)
        name, o = root[1], dict(root[2])
        alts = []
        if "allow_mirror" in o and o.get("rotation", True):
            alts.append(("allow_mirror", {"allow_mirror": not o["allow_mirror"]}, None))
        if "rotation" in o:
            alts.append(("rotation", {"rotation": not o["rotation"]}, None))
        if name == "ThinPlateSplines":
            alts.append(("kernel", None, "R2LogR2RBF" if o["kernel"] == "R2LogRRBF" else "R2LogRRBF"))
            if o["min_singular_val"] != "1e-4":
                alts.append(("min_singular_val", {"min_singular_val": 1e-4}, None))
        for optname, override, kern in alts:
            for tn in ("rot", "refl", "shear"):
                a = self._fresh(root, tn)
                b = self._fresh(root, tn, override=override, kern=kern)
                s = a.source.points
                x = s.mean(axis=0) + 0.3 * (s - s.mean(axis=0))  # off the landmarks (a TPS interpolates them whatever the kernel)
                differs = not np.allclose(a.apply(x), b.apply(x), atol=1e-6, rtol=0)
                self.note("option-%s:%s:%s" % ("matters" if differs else "invisible", name, optname))
        if name == "AlignmentRotation" and o["allow_mirror"]:
            for tn in ("rot", "refl", "shear"):
                det = np.linalg.det(self._fresh(root, tn).h_matrix)
                self.note("mirror-fit:det%s" % ("-1" if det < 0 else "+1"))
        return fails

    # ------------------------------------------------------------------ GPA clause
    def _gpa(self, st, allow_mirror):
        from menpo.shape import PointCloud
        from menpo.transform import AlignmentSimilarity, GeneralizedProcrustesAnalysis

        root = st["root"]
        pl = self._payload(root)
        where = "gpa:%s(allow_mirror=%s)" % (root[4], allow_mirror)
        sources = st["sources"]  # the same PointCloud objects for every run (and for the refused calls) of this root
        before = [observe(PointCloud(s.copy())) for s in pl["shapes"]]
        g = GeneralizedProcrustesAnalysis(sources, allow_mirror=allow_mirror)
        fails = []
        if root[4] == "noconv":
            self.note("gpa-unrelated-shapes:%s" % ("gave-up" if not g.converged else "converged"))
        self.note("gpa:%s" % ("one-iteration" if g.n_iterations == 1 else "several-iterations"))
        self.note("gpa:%s" % ("converged" if g.converged else "not-converged"))
        if len(g.transforms) != len(sources):
            return [Failure(where, "one-transform-per-shape", "%d transforms for %d shapes" % (len(g.transforms), len(sources)))]
        common = np.array(g.target.points, copy=True)
        any_mirror = False
        for i, t in enumerate(g.transforms):
            if not isinstance(t, AlignmentSimilarity):
                fails.append(Failure(where, "transform-class", "transforms[%d] is a %s" % (i, type(t).__name__)))
                continue
            tt = np.asarray(t.target.points)
            if tt.shape != common.shape or not np.array_equal(tt, common):
                fails.append(Failure(where, "transform-reports-common-target", "transforms[%d].target differs from gpa.target (max abs %s)" % (i, _maxabs(tt, common))))
            fresh = AlignmentSimilarity(PointCloud(pl["shapes"][i].copy()), PointCloud(common.copy()), allow_mirror=allow_mirror)
            diff = obs_diff(self._full_obs(fresh), self._full_obs(t))
            if diff:
                fails.append(Failure(where, "transform-is-alignment-to-common-target", "transforms[%d] vs AlignmentSimilarity(sources[%d], gpa.target): %s" % (i, i, diff)))
            if np.linalg.det(fresh.h_matrix) < 0:
                any_mirror = True
        if allow_mirror:
            self.note("gpa-mirror:%s" % ("a-member-is-reflected" if any_mirror else "no-reflection"))
        for i, (s, b) in enumerate(zip(sources, before)):
            diff = obs_diff(b, observe(s))
            if diff:
                fails.append(Failure(where, "caller-objects-unchanged", "sources[%d] changed: %s" % (i, diff)))
        if fails:
            return fails
        # whatever happened before: the members went through the iterations' set_target calls; one more
        for i, t in enumerate(g.transforms):
            t.set_target(PointCloud(pl["retarget"].copy()))
            fresh = AlignmentSimilarity(PointCloud(pl["shapes"][i].copy()), PointCloud(pl["retarget"].copy()), allow_mirror=allow_mirror)
            diff = obs_diff(self._full_obs(fresh), self._full_obs(t))
            if diff:
                fails.append(Failure(where, "member-retargeted-equals-fresh-build", "transforms[%d].set_target(t) vs fresh build: %s" % (i, diff)))
            self.note("gpa:member-retargeted")
        return fails

    def _gpa_refuse(self, st, kind):
        from menpo.transform import GeneralizedProcrustesAnalysis

        where = "gpa-refused:%s" % kind
        srcs = st["sources"]
        args = [srcs[0]] if kind == "single-shape" else list(srcs) + [st["odd"][kind]]
        before = [observe(a) for a in args]
        call = lambda: GeneralizedProcrustesAnalysis(args)  # noqa: E731
        e1 = self._raises(call)
        if e1 is None:
            self.note("gpa-refused:%s:accepted" % kind)
            return [Failure(where, "refused-call-raises", "GeneralizedProcrustesAnalysis accepted %d shapes of sizes %r" % (len(args), [a.points.shape for a in args]))]
        self.note("gpa-refused:%s:%s" % (kind, type(e1).__name__))
        fails = []
        if kind == "single-shape" and not isinstance(e1, ValueError):
            fails.append(Failure(where, "refused-call-raises", "expected the documented ValueError, got %s: %s" % (type(e1).__name__, e1)))
        e2 = self._raises(call)
        if e2 is None or not self._same_refusal(e1, e2):
            fails.append(Failure(where, "retry-refused-the-same-way", "first %s: %s / retry %r" % (type(e1).__name__, e1, e2)))
        for i, (a, b) in enumerate(zip(args, before)):
            diff = obs_diff(b, observe(a))
            if diff:
                fails.append(Failure(where, "caller-objects-unchanged", "argument %d changed: %s" % (i, diff)))
        return fails

    # ------------------------------------------------------------------ reporting
    def vacuity(self, notes, stats):
        need = [
            "set:new-target",
            "set:same-target-again",
            "set-on:original",
            "set-on:copy",
            "copies:diverged",
            "copy:ok",
            "copy-of:inverse",
            "pinv:inverted-fit",
            "pinv:new-construction",
            "pinv-of:original",
            "pinv-of:copy",
            "pinv-of:inverse",
            "set-on:inverse",
            "set-on:inverted-fit",
            "set-on:object-whose-source-was-a-target",
            "equals-fresh:inverse-or-its-copy",
            "inverted-fit:checked-without-fresh-build",
            "selfconsistency:original",
            "selfconsistency:copy",
            "selfconsistency:inverse",
            "bad:n+1:ValueError",
            "bad:n-1:ValueError",
            "bad:dims:ValueError",
            "bad:samesize:ValueError",
            "bad:apply-dims:ValueError",
            "bad:apply-outside:TriangleContainmentError",
            "bad:ctor-n+1:ValueError",
            "bad:ctor-dims:ValueError",
            "bad:ctor-3d:ValueError",
            "refused-before-valid-op:n+1",
            "refused-before-valid-op:dims",
            "refused-before-valid-op:apply-dims",
            "refused-before-valid-op:apply-outside",
            "gpa-refused:single-shape:ValueError",
            "gpa-refused:mixed-n-points:ValueError",
            "gpa-refused:mixed-dims:ValueError",
            "gpa:not-converged",
            "gpa-unrelated-shapes:gave-up",
            "option-matters:AlignmentRotation:allow_mirror",
            "option-matters:AlignmentSimilarity:allow_mirror",
            "option-matters:AlignmentSimilarity:rotation",
            "option-matters:ThinPlateSplines:kernel",
            "option-matters:ThinPlateSplines:min_singular_val",
            "mirror-fit:det-1",
            "mirror-fit:det+1",
            "gpa:one-iteration",
            "gpa:several-iterations",
            "gpa:converged",
            "gpa-mirror:a-member-is-reflected",
            "gpa:member-retargeted",
        ]
        return ["outcome %s never produced" % n for n in need if not notes.get(n)]

    def rule(self):
        return (
            "breadth-first over all sequences of set_target(pool target) / copy() / pseudoinverse() / set_target(wrong-sized "
            "target) applied to the original alignment or to any copy / inverse derived so far (derived objects join the "
            "state and every step ends with all public queries on all live objects), from every (class, options, size, "
            "initial target) root; after every step every live object is compared exactly with a fresh construction "
            "from regenerated payload; states merge only if model, public observation and every reachable private "
            "buffer coincide; GPA roots compare every returned transform with the fresh alignment to gpa.target"
        )

    def alphabet_sizes(self):
        roots = self.roots()
        return {
            "class_option_letters": len(class_letters()),
            "alignment_roots": len([r for r in roots if r[0] == "A"]),
            "gpa_roots": len([r for r in roots if r[0] == "G"]),
            "targets": len(TARGETS),
            "wrong_target_kinds": len(BAD_KINDS),
            "other_refused_call_kinds": len(CALL_KINDS),
            "gpa_refusal_kinds": len(GPA_REFUSALS),
            "max_live_objects": MAX_OBJS,
            "ops_per_live_object": len(TARGETS) + len(BAD_KINDS) + len(CALL_KINDS) + 2,
            "n_points_2d": list(self._sizes(2)),
            "n_points_3d": list(self._sizes(3)),
        }

    def assumptions(self):
        return [
            "comparison with the fresh build is exact (bitwise) - constructor and re-fit run the same arithmetic",
            "sources obey the general-position guard of mc.letters (pairwise distance >= 0.8, 2-D triangle area >= 0.35); PWA sources are jittered convex layouts with an explicit triangulation",
            "at most %d live objects (original + copies + inverses); sequences bounded by the depth of the tier; the fourth operation of a thorough history is restricted to set_target (all targets, all live objects)" % MAX_OBJS,
            "aliasing between source / target / pool objects is not part of the canonical state: an operation that writes into a caller's object is reported by the caller-objects-unchanged clause at the step where it happens",
            "the fresh construction itself is the reference the property names; its optimality is C07's subject",
            "a wrong-sized target must be refused with ValueError (DESIGN.md C08) and leave every observation unchanged",
            "refused calls explored: wrong-sized set_target (4 kinds), apply of the other dimensionality, apply outside the piecewise-affine domain, construction from the live source with a wrong-sized target / from 3-D data for 2-D-only classes, GPA of one shape / of shapes of different size or dimensionality; the alignment classes validate no option value (kernel, min_singular_val, rotation, allow_mirror are taken as given), so there is no invalid-option letter",
            "the non-converging GPA shape set is the first of %d seeded candidate sets of unrelated shapes (min pairwise distance 0.3) on which the unchanged iteration gives up" % NOCONV_CANDIDATES,
            "GPA is run with target=None only (the property's clause); 2..4 shapes, three shape families",
        ]


def _maxabs(a, b):
    if a.shape != b.shape:
        return "shape %s vs %s" % (a.shape, b.shape)
    return "%.3g" % float(np.abs(a - b).max())


CHECK = C08
