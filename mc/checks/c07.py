"""C07 - alignments recover exact maps, fit optimally where promised, and interpolate.

Root    : (class/option letter, n_dims, source letter).  Class letters: AlignmentTranslation, AlignmentUniformScale,
          AlignmentRotation (mirror off/on), AlignmentSimilarity (rotation on/off x mirror off/on), AlignmentAffine,
          ThinPlateSplines (both kernels), PythonPWA / CachedPWA / PiecewiseAffine (TriMesh source with ccw, cw
          and mixed triangle winding; PointCloud source triangulated by the constructor),
          GeneralizedProcrustesAnalysis (3 shapes; mirror off/on; target given or not).
          Source letters: 3, 4, 5, 6 generic points in 2-D (+ the 5 point fan layout for PWA), 4 and 5 in 3-D.
State   : the current source point set (initially the source letter; after an op the *aligned source returned by
          menpo*, so that deeper levels align the output of a previous alignment).
Ops     : ("align", member letter, noise level): the target is member(source) + noise * fixed direction, where
          the members are a parameter grid of every homogeneous family (translations, uniform scales, rotations
          of all quadrants about the origin, reflections, similarities with/without rotation and with reflection,
          affinities with shear / anisotropic scale / negative determinant) and unrelated ("arbitrary") targets.
          ("alignf", member, noise, source form, target form): the same for a reduced member alphabet with source
          and/or target presented as float32 / int64 / int32 / int16 / uint8 / list / tuple / read-only /
          non-contiguous / Fortran-ordered data, or the options as numpy bools (level 0 only).
          ("route", name, member, noise): the same (source, target) reached by another public route - set_target
          on an alignment built for the source itself / for an unrelated target, copy(), copy() then set_target,
          from_vector / from_vector_inplace of the constructor result's parameters then set_target (vectorizable
          classes), set_rotation_matrix then set_target, the module-level optimal_rotation_matrix /
          procrustes_alignment - each with the full oracle and exact agreement with the constructor route.
          ("perm", order, member, noise): source and target rows permuted consistently (trilist relabelled): full
          oracle, and the same map as for the original order up to rounding.
          ("order", perm, points) on the live alignment (self loops): after apply(X), apply(X[perm]) on the same
          object must equal apply(X)[perm] exactly (X = the source landmarks via aligned_source(), and a grid of
          dyadic coordinates inside the domain), and apply(X) again the first answer.
          ("refuse", kind) on the live alignment of a level-1 state (self loops): set_target with n+1 / n-1 points
          or another dimensionality, apply to points of another dimensionality, PWA apply with a point outside
          every source triangle (plain and batched), constructor calls with mismatched sizes / dimensionalities,
          3-D data for TPS / PWA, a singular (collinear) source for the affine fit, GPA with one source.  Oracle:
          the documented exception (and containment mask) is raised, an immediate retry and a retry after valid
          calls are refused identically, observe(alignment) and every argument are unchanged; ("recheck",) then
          runs the normal oracles on that same live object.
Oracle  : reference models in plain numpy, written without SVD where menpo uses one
          (rotation: closed-form angle in 2-D, Horn's quaternion eigenvector in 3-D; affine: lstsq;
          translation: centroid difference; scale: ratio of centred Frobenius norms; PWA: point-in-triangle by
          orientation tests + a 2x2 solve), plus exhaustive competitor grids (all 2-D angles on a 0.25 degree grid,
          2000 3-D axis-angle rotations, +-delta on every translation / affine parameter).
"""
import math

import numpy as np

from mc.core import Check, Failure, HarnessError
from mc.letters import MIN_AREA, generic_points, pwa_layout, rs
from mc.observe import obs_key

# ------------------------------------------------------------------------------------------------
# tolerances (sized on the unchanged tree, seeds 0..9: see the 'worst:' outcome notes in the evidence)
# ------------------------------------------------------------------------------------------------
TOL_RECOVER = 1e-8  # recovered h_matrix vs generating member (relative to the coordinate scale)
TOL_CLOSED = 1e-9  # h_matrix vs closed-form reference (relative to scale, divided by the conditioning gap)
TOL_GRID = 1e-9  # err(A) <= min over the competitor grid + TOL_GRID * scale
TOL_TPS = 1e-8  # TPS interpolation / affine reproduction
TOL_PWA = 1e-12  # PWA interpolation at the vertices (relative to scale)
TOL_PWA_IN = 1e-9  # PWA inside triangles (a division by the triangle determinant is involved)
TOL_ID = 1e-12  # identities that use the same arithmetic up to re-association
MIN_GAP = 1e-3  # below this relative gap the optimal rotation is not compared as a matrix (only through its error)
GUARD_DIST = 0.3  # chained sources (outputs of a previous alignment) are expanded only when still in general position
GUARD_AREA = 0.1
GUARD_SV = 0.3
EPS_EDGE = 1e-7

NOISE = {"quick": (0.0, 0.01, 0.1), "thorough": (0.0, 0.001, 0.01, 0.1, 0.5)}
NOISE_CHAIN = (0.0, 0.1)

# ---- argument forms: the same payload presented with another legal dtype / container / memory layout.
# Integer forms carry integer-valued payload (the generic points scaled by INT_SCALE and rounded, which keeps
# them in general position); the reference always works in float64 on exactly the values that were passed.
INT_FORMS = ("i64", "i32", "i16", "u8")
DTYPE_FORMS = ("f32",) + INT_FORMS
CONTAINER_FORMS = ("list", "tuple", "ro", "nc", "fortran")
ALL_FORMS = DTYPE_FORMS + CONTAINER_FORMS
NP_DTYPE = {"f32": np.float32, "i64": np.int64, "i32": np.int32, "i16": np.int16, "u8": np.uint8}
INT_SCALE = 4.0
F32_K = 1e5  # float32 letters: every tolerance is multiplied by this (1e-3 .. 1e-4 relative)
FORM_PAIRS = (
    [("f64", x) for x in ALL_FORMS]
    + [(x, "f64") for x in ALL_FORMS]
    + [(x, x) for x in DTYPE_FORMS]
    + [("i64", "f32"), ("f32", "i64"), ("npopt", "f64")]
)
FORM_FAMILIES = ("tr", "sc", "rot", "simrefl", "aff", "arb")
NOISE_FORM = (0.0, 0.1)
OPTION_CLASSES = ("RotM", "SimM", "SimNR", "SimNRM", "GPAM")

# ---- public routes to an alignment of (source, target) next to the plain constructor (each gets the full oracle
# and must agree with the constructor's result on the same inputs)
ROUTES_ALL = ("set_target:from-source", "set_target:from-other", "copy", "copy+set_target")
ROUTES_VECTOR = ("from_vector", "from_vector_inplace")  # then set_target(T); where the class is vectorizable
ROUTE_NAMES = ROUTES_ALL + ROUTES_VECTOR + ("set_rotation_matrix", "function")
NON_ALIGNMENT = {"Tr": "Translation", "US": "UniformScale", "Rot": "Rotation", "RotM": "Rotation", "Sim": "Similarity", "SimM": "Similarity", "SimNR": "Similarity", "SimNRM": "Similarity", "Aff": "Affine"}


PERMS = ("reversed", "rot1", "shuffle")
SCALES = (1e-3, 1e-6, 1e6)


def permutation(m, name):
    """fixed permutations of range(m): reversed, rotated by one, a fixed shuffle i -> (a*i + 3) mod m."""
    idx = np.arange(m)
    if name == "reversed":
        return idx[::-1].copy()
    if name == "rot1":
        return np.roll(idx, 1)
    for a in (7, 5, 11, 3, 13, 17):
        if math.gcd(a, m) == 1 and a % m != 1:
            return (a * idx + 3) % m
    return np.roll(idx, 2)


def routes_of(cls, d):
    out = list(ROUTES_ALL)
    if cls in ("Tr", "US", "Aff") or (cls in ("Rot", "RotM") and d == 3) or (cls in SIMILARITY_OPTS and d == 2):
        out += list(ROUTES_VECTOR)  # (2-D rotations and 3-D similarities are not vectorizable in menpo)
    if cls in ("Rot", "RotM"):
        out += ["set_rotation_matrix", "function"]  # function = module level optimal_rotation_matrix
    if cls in SIMILARITY_OPTS:
        out += ["function"]  # module level procrustes_alignment
    return out

HOMOG = ("Tr", "US", "Rot", "RotM", "Sim", "SimM", "SimNR", "SimNRM", "Aff")
TPS = ("TPS", "TPS2")
PWA = ("PWApy-ccw", "PWApy-cw", "PWApy-mixed", "PWAc-ccw", "PWApy-pc", "PWA-pc")
GPA = ("GPA", "GPAM", "GPAT")

SIMILARITY_OPTS = {"Sim": (True, False), "SimM": (True, True), "SimNR": (False, False), "SimNRM": (False, True)}

FAMILY = {
    "Tr": {"tr"},
    "US": {"sc"},
    "Rot": {"rot"},
    "RotM": {"rot", "refl"},
    "Sim": {"tr", "sc", "rot", "sim", "simnr"},
    "SimM": {"tr", "sc", "rot", "sim", "simnr", "refl", "simrefl"},
    "SimNR": {"tr", "sc", "simnr"},
    "SimNRM": {"tr", "sc", "simnr"},
    "Aff": {"tr", "sc", "rot", "sim", "simnr", "refl", "simrefl", "aff"},
}


# ------------------------------------------------------------------------------------------------
# members of the transform families (the generating maps of the targets)
# ------------------------------------------------------------------------------------------------
def rot2(deg):
    t = math.radians(deg)
    return np.array([[math.cos(t), -math.sin(t)], [math.sin(t), math.cos(t)]])


AXES3 = {
    "x": np.array([1.0, 0.0, 0.0]),
    "y": np.array([0.0, 1.0, 0.0]),
    "z": np.array([0.0, 0.0, 1.0]),
    "g": np.array([0.2, -0.5, 0.84]) / np.linalg.norm([0.2, -0.5, 0.84]),
    "h": np.array([-0.7, 0.1, 0.3]) / np.linalg.norm([-0.7, 0.1, 0.3]),
}


def rodrigues(axis, theta):
    a = np.asarray(axis, dtype=float)
    a = a / np.linalg.norm(a)
    k = np.array([[0, -a[2], a[1]], [a[2], 0, -a[0]], [-a[1], a[0], 0]])
    return np.eye(3) + math.sin(theta) * k + (1 - math.cos(theta)) * k.dot(k)


def flip(d):
    f = np.eye(d)
    f[-1, -1] = -1.0
    return f


AFF2 = {
    "shear": ([[1.0, 0.6], [0.0, 1.0]], [0.0, 0.0]),
    "nus": ([[1.5, 0.0], [0.0, 0.6]], [0.0, 0.0]),
    "negdet": ([[0.9, 0.3], [0.4, -1.1]], [0.5, -1.0]),
    "generic": ([[1.2, 0.4], [-0.3, 0.8]], [0.5, -1.0]),
    "squash": ([[0.4, -0.7], [0.9, 0.2]], [-2.0, 1.5]),
    "nusrot": ([[1.1, -1.0], [0.5, 0.6]], [0.0, 3.0]),
}
AFF3 = {
    "shear": ([[1.0, 0.6, 0.0], [0.0, 1.0, 0.3], [0.0, 0.0, 1.0]], [0.0, 0.0, 0.0]),
    "nus": ([[1.5, 0.0, 0.0], [0.0, 0.6, 0.0], [0.0, 0.0, 1.1]], [0.0, 0.0, 0.0]),
    "negdet": ([[1.2, 0.4, 0.2], [-0.3, 0.8, -0.1], [0.2, -0.1, -1.1]], [0.5, -1.0, 0.25]),
    "generic": ([[1.2, 0.4, -0.2], [-0.3, 0.8, 0.1], [0.2, -0.1, 1.1]], [0.5, -1.0, 0.25]),
    "squash": ([[0.4, -0.7, 0.1], [0.9, 0.2, -0.3], [0.1, 0.5, 0.8]], [-2.0, 1.5, 0.0]),
    "nusrot": ([[1.1, -1.0, 0.0], [0.5, 0.6, 0.2], [0.0, -0.2, 1.4]], [0.0, 3.0, -1.0]),
}


def _tr(d, k):
    v = [(0.0, 0.0, 0.0), (1.5, -2.0, 0.5), (-3.0, 0.25, 2.0), (0.0, 4.0, 0.0), (-0.001, 0.0, 0.002)][k]
    return tuple(v[:d])


def member_letters(d, size):
    """size: 'full' (quick level 0), 'wide' (thorough level 0), 'small' (deeper levels)."""
    out = []
    if size == "small":
        if d == 2:
            return [("tr",) + _tr(2, 1), ("sc", 2.0), ("rot", 120), ("refl", 40), ("sim", 0.5, 45) + _tr(2, 1), ("simrefl", 2.0, 230) + _tr(2, 2), ("aff", "negdet"), ("arb", 0)]
        return [("tr",) + _tr(3, 1), ("sc", 2.0), ("rot", "g", 120), ("refl", "g", 40), ("sim", 0.5, "g", 45) + _tr(3, 1), ("simrefl", 2.0, "h", 230) + _tr(3, 2), ("aff", "negdet"), ("arb", 0)]
    wide = size == "wide"
    for k in (0, 1, 2) + ((3, 4) if wide else ()):
        out.append(("tr",) + _tr(d, k))
    for s in (0.25, 0.5, 1.0, 2.0, 4.0) if wide else (0.5, 2.0):
        out.append(("sc", s))
    if d == 2:
        for a in range(15, 360, 15) if wide else (30, 120, 200, 300, 180):
            out.append(("rot", a))
        for a in range(0, 360, 45) if wide else (40, 250):
            out.append(("refl", a))
        sims = [(0.5, 45, 1), (2.0, -100, 1), (0.5, 170, 2), (2.0, 20, 0)]
        if wide:
            sims += [(s, a, 1) for s in (0.5, 2.0) for a in (135, 225, 315)] + [(1.0, 90, 3)]
        for s, a, k in sims:
            out.append(("sim", s, a) + _tr(2, k))
        for s, a, k in [(0.5, 60, 1), (2.0, 230, 2)] + ([(1.0, 0, 0), (0.5, 300, 3)] if wide else []):
            out.append(("simrefl", s, a) + _tr(2, k))
    else:
        rots = [("x", 90), ("g", 30), ("g", 120), ("h", 200), ("z", 180)]
        if wide:
            rots += [(ax, a) for ax in ("y", "g", "h") for a in (45, 135, 270, 330)] + [("x", 180), ("g", 180)]
        for ax, a in rots:
            out.append(("rot", ax, a))
        for ax, a in [("g", 40), ("y", 250)] + ([("x", 0), ("h", 120), ("z", 180), ("g", 300)] if wide else []):
            out.append(("refl", ax, a))
        sims = [(0.5, "g", 45, 1), (2.0, "h", -100, 1), (0.5, "x", 170, 2), (2.0, "z", 20, 0)]
        if wide:
            sims += [(s, ax, a, 1) for s in (0.5, 2.0) for ax, a in (("g", 135), ("h", 225), ("y", 315))] + [(1.0, "z", 90, 3)]
        for s, ax, a, k in sims:
            out.append(("sim", s, ax, a) + _tr(3, k))
        for s, ax, a, k in [(0.5, "g", 60, 1), (2.0, "h", 230, 2)] + ([(1.0, "x", 0, 0), (0.5, "y", 300, 3)] if wide else []):
            out.append(("simrefl", s, ax, a) + _tr(3, k))
    for s, k in [(0.5, 1), (2.0, 2)] + ([(1.0, 1), (4.0, 3)] if wide else []):
        out.append(("simnr", s) + _tr(d, k))
    for name in ("shear", "nus", "negdet", "generic") + (("squash", "nusrot") if wide else ()):
        out.append(("aff", name))
    for k in (0, 1) + ((2,) if wide else ()):
        out.append(("arb", k))
    return out


def member_h(m, d):
    """homogeneous matrix of a member letter (None for an arbitrary target)."""
    fam = m[0]
    h = np.eye(d + 1)
    if fam == "tr":
        h[:d, d] = m[1 : 1 + d]
    elif fam == "sc":
        h[:d, :d] *= m[1]
    elif fam in ("rot", "refl"):
        r = rot2(m[1]) if d == 2 else rodrigues(AXES3[m[1]], math.radians(m[2]))
        h[:d, :d] = r.dot(flip(d)) if fam == "refl" else r
    elif fam in ("sim", "simrefl"):
        if d == 2:
            r, t = rot2(m[2]), m[3:5]
        else:
            r, t = rodrigues(AXES3[m[2]], math.radians(m[3])), m[4:7]
        if fam == "simrefl":
            r = r.dot(flip(d))
        h[:d, :d] = m[1] * r
        h[:d, d] = t
    elif fam == "simnr":
        h[:d, :d] *= m[1]
        h[:d, d] = m[2 : 2 + d]
    elif fam == "aff":
        a, t = (AFF2 if d == 2 else AFF3)[m[1]]
        h[:d, :d] = np.array(a)
        h[:d, d] = t
    elif fam == "arb":
        return None
    else:
        raise ValueError(m)
    return h


def is_identity(m):
    return m[0] == "tr" and not any(m[1:])


# GPA: triples of members applied to one base shape
def gpa_triples(d):
    if d == 2:
        ident, sa, sb, sr = ("tr", 0.0, 0.0), ("sim", 0.5, 45) + _tr(2, 1), ("sim", 2.0, -100) + _tr(2, 2), ("simrefl", 0.5, 60) + _tr(2, 1)
        ro = ("rot", 120)
    else:
        ident, sa, sb, sr = ("tr", 0.0, 0.0, 0.0), ("sim", 0.5, "g", 45) + _tr(3, 1), ("sim", 2.0, "h", -100) + _tr(3, 2), ("simrefl", 0.5, "g", 60) + _tr(3, 1)
        ro = ("rot", "g", 120)
    return [
        ("copies", (ident, sa, sb)),
        ("families", (ro, ("sc", 2.0), ("tr",) + _tr(d, 1))),
        ("mirrored", (sa, sr, sb)),
        ("affine-copy", (("aff", "shear"), sa, ("tr",) + _tr(d, 2))),
        ("arbitrary", (("arb", 0), ("arb", 1), ident)),
    ]


# ------------------------------------------------------------------------------------------------
# reference models
# ------------------------------------------------------------------------------------------------
def fro(x):
    return float(np.sqrt((np.asarray(x) ** 2).sum()))


def apply_h(h, pts):
    d = pts.shape[1]
    return pts.dot(h[:d, :d].T) + h[:d, d]


def ref_rot2(s, t, improper=False):
    """argmin over proper (or improper) 2-D rotations R of |s R^T - t|, closed form; and its relative gap."""
    s = s * np.array([1.0, -1.0]) if improper else s
    a = float((s * t).sum())
    b = float((s[:, 0] * t[:, 1] - s[:, 1] * t[:, 0]).sum())
    th = math.atan2(b, a)
    r = np.array([[math.cos(th), -math.sin(th)], [math.sin(th), math.cos(th)]])
    if improper:
        r = r.dot(np.diag([1.0, -1.0]))
    den = fro(s) * fro(t)
    return r, (math.hypot(a, b) / den if den > 0 else 0.0)


def quat_to_mat(q):
    w, x, y, z = q / np.linalg.norm(q)
    return np.array(
        [
            [1 - 2 * (y * y + z * z), 2 * (x * y - w * z), 2 * (x * z + w * y)],
            [2 * (x * y + w * z), 1 - 2 * (x * x + z * z), 2 * (y * z - w * x)],
            [2 * (x * z - w * y), 2 * (y * z + w * x), 1 - 2 * (x * x + y * y)],
        ]
    )


def ref_rot3(s, t):
    """Horn's closed form: the proper rotation maximising sum t_i . (R s_i) is the top eigenvector of N."""
    m = s.T.dot(t)  # m[a, b] = sum_i s_ia t_ib
    sxx, sxy, sxz = m[0]
    syx, syy, syz = m[1]
    szx, szy, szz = m[2]
    n = np.array(
        [
            [sxx + syy + szz, syz - szy, szx - sxz, sxy - syx],
            [syz - szy, sxx - syy - szz, sxy + syx, szx + sxz],
            [szx - sxz, sxy + syx, -sxx + syy - szz, syz + szy],
            [sxy - syx, szx + sxz, syz + szy, -sxx - syy + szz],
        ]
    )
    w, v = np.linalg.eigh(n)
    den = fro(s) * fro(t)
    return quat_to_mat(v[:, -1]), (float(w[-1] - w[-2]) / den if den > 0 else 0.0)


def ref_rotation(s, t, mirror):
    """least-squares rotation about the origin mapping rows of s onto rows of t (orthogonal if mirror).
    returns (R, error, relative gap, is_improper)."""
    d = s.shape[1]
    rp, gp = ref_rot2(s, t) if d == 2 else ref_rot3(s, t)
    ep = fro(s.dot(rp.T) - t)
    if not mirror:
        return rp, ep, gp, False
    if d == 2:
        ri, gi = ref_rot2(s, t, improper=True)
    else:
        q, gi = ref_rot3(s, -t)  # R improper <=> -R proper (odd dimension)
        ri = -q
    ei = fro(s.dot(ri.T) - t)
    den = fro(s) * fro(t)
    between = abs(ep * ep - ei * ei) / (4 * den) if den > 0 else 0.0  # = smallest singular value / (|s||t|)
    if ei < ep:
        return ri, ei, min(gi, between), True
    return rp, ep, min(gp, between), False


_GRID = {}


def rotation_grid(d):
    """every 2-D angle on a 0.25 degree grid / 2000 3-D rotations (100 axes on the sphere x 20 angles in (0, pi])."""
    if d in _GRID:
        return _GRID[d]
    if d == 2:
        th = np.deg2rad(np.arange(1440) * 0.25)
        g = np.empty((1440, 2, 2))
        g[:, 0, 0] = np.cos(th)
        g[:, 0, 1] = -np.sin(th)
        g[:, 1, 0] = np.sin(th)
        g[:, 1, 1] = np.cos(th)
    else:
        k = np.arange(100) + 0.5
        phi = np.arccos(1 - 2 * k / 100)
        lam = np.pi * (1 + 5 ** 0.5) * k
        axes = np.stack([np.cos(lam) * np.sin(phi), np.sin(lam) * np.sin(phi), np.cos(phi)], axis=1)
        mats = [np.eye(3)]
        for a in axes:
            for j in range(1, 21):
                mats.append(rodrigues(a, math.pi * j / 20))
        g = np.array(mats[:2000])
    _GRID[d] = g
    return g


def grid_min_error(s, t, mirror):
    """min over the rotation grid (and its reflected copy when mirroring is allowed) of |s R^T - t|."""
    d = s.shape[1]
    g = rotation_grid(d)
    al = np.einsum("kij,nj->kni", g, s) - t
    best = float(np.sqrt((al ** 2).sum(axis=(1, 2)).min()))
    if mirror:
        g2 = np.einsum("kij,jl->kil", g, flip(d))
        al = np.einsum("kij,nj->kni", g2, s) - t
        best = min(best, float(np.sqrt((al ** 2).sum(axis=(1, 2)).min())))
    return best


def ref_similarity(s, t, rotation, mirror):
    cs, ct = s.mean(axis=0), t.mean(axis=0)
    s0, t0 = s - cs, t - ct
    scale = fro(t0) / fro(s0)
    d = s.shape[1]
    if rotation:
        r, _, gap, improper = ref_rotation(s0, t0, mirror)
    else:
        r, gap, improper = np.eye(d), 1.0, False
    h = np.eye(d + 1)
    h[:d, :d] = scale * r
    h[:d, d] = ct - h[:d, :d].dot(cs)
    return h, scale, gap, improper


def ref_affine(s, t):
    d = s.shape[1]
    x = np.hstack([s, np.ones((s.shape[0], 1))])
    sol = np.linalg.lstsq(x, t, rcond=None)[0]  # (d+1, d)
    h = np.eye(d + 1)
    h[:d, :] = sol.T
    return h


def tri_area2(p, tri):
    a, b, c = p[tri[:, 0]], p[tri[:, 1]], p[tri[:, 2]]
    return (b[:, 0] - a[:, 0]) * (c[:, 1] - a[:, 1]) - (b[:, 1] - a[:, 1]) * (c[:, 0] - a[:, 0])


def ref_pwa(s, t, tri, pts):
    """piecewise affine map by orientation tests + a 2x2 solve per point; None where no triangle contains the point."""
    out = []
    for p in pts:
        val = None
        for a, b, c in tri:
            pa, pb, pc = s[a], s[b], s[c]
            m = np.array([pb - pa, pc - pa]).T
            det = m[0, 0] * m[1, 1] - m[0, 1] * m[1, 0]
            sgn = 1.0 if det > 0 else -1.0
            e1 = sgn * ((pb[0] - pa[0]) * (p[1] - pa[1]) - (pb[1] - pa[1]) * (p[0] - pa[0]))
            e2 = sgn * ((pc[0] - pb[0]) * (p[1] - pb[1]) - (pc[1] - pb[1]) * (p[0] - pb[0]))
            e3 = sgn * ((pa[0] - pc[0]) * (p[1] - pc[1]) - (pa[1] - pc[1]) * (p[0] - pc[0]))
            if min(e1, e2, e3) >= -1e-12:
                uv = np.linalg.solve(m, p - pa)
                val = t[a] + uv[0] * (t[b] - t[a]) + uv[1] * (t[c] - t[a])
                break
        out.append(val)
    return out


def edge_margin(s, tri, p):
    """smallest barycentric coordinate of p over the triangles that contain it (0 = on an edge or vertex)."""
    best = None
    for a, b, c in tri:
        m = np.array([s[b] - s[a], s[c] - s[a]]).T
        uv = np.linalg.solve(m, p - s[a])
        w = min(uv[0], uv[1], 1 - uv[0] - uv[1])
        if w >= -1e-9 and (best is None or w < best):
            best = w
    return 1.0 if best is None else abs(best)


BARY = [(1 / 3.0, 1 / 3.0, 1 / 3.0), (0.6, 0.3, 0.1), (0.1, 0.1, 0.8), (0.2, 0.7, 0.1), (0.98, 0.01, 0.01), (0.01, 0.495, 0.495), (0.45, 0.1, 0.45)]


def delaunay(p):
    if len(p) == 3:
        return np.array([[0, 1, 2]])
    from scipy.spatial import Delaunay

    return np.asarray(Delaunay(p).simplices, dtype=int)


def wind(p, tri, mode):
    """re-order every triangle counter-clockwise / clockwise / alternating."""
    tri = np.array(tri, dtype=int)
    a2 = tri_area2(p, tri)
    out = []
    for k, (row, a) in enumerate(zip(tri, a2)):
        ccw = list(row) if a > 0 else [row[0], row[2], row[1]]
        want_ccw = mode == "ccw" or (mode == "mixed" and k % 2 == 0)
        out.append(ccw if want_ccw else [ccw[0], ccw[2], ccw[1]])
    # rotate the vertex order of odd triangles so that 'i' is not always the lowest index
    out = [r if k % 2 == 0 else [r[1], r[2], r[0]] for k, r in enumerate(out)]
    return np.array(out, dtype=int)


def cast_values(values, form):
    """the float64 values as they survive the cast to the form's dtype (identity for container forms)."""
    if form in NP_DTYPE:
        return np.asarray(values).astype(NP_DTYPE[form]).astype(float)
    return np.array(values, dtype=float)


def present(values, form):
    """(object to hand to PointCloud / TriMesh, copy flag) for one argument form of a float64 value array."""
    v = np.array(values, dtype=float)
    if form in NP_DTYPE:
        return v.astype(NP_DTYPE[form]), True
    if form == "list":
        return v.tolist(), True
    if form == "tuple":
        return tuple(tuple(r) for r in v.tolist()), True
    if form == "ro":
        v.setflags(write=False)
        return v, False
    if form == "nc":
        big = np.zeros((v.shape[0], 2 * v.shape[1]))
        big[:, ::2] = v
        return big[:, ::2], False
    if form == "fortran":
        return np.asfortranarray(v), False
    return v, True


def present_trilist(tri, form):
    tri = np.array(tri, dtype=int)
    if form in ("i32", "i16", "u8", "i64"):
        return tri.astype(NP_DTYPE[form])
    if form == "list":
        return tri.tolist()
    if form == "tuple":
        return tuple(tuple(r) for r in tri.tolist())
    return tri


# ------------------------------------------------------------------------------------------------
class C07(Check):
    id = "C07"
    title = "alignments recover exact maps, fit optimally where promised, and interpolate"

    def __init__(self, tier, seed):
        Check.__init__(self, tier, seed)
        self._src_cache = {}
        self._k = 1.0  # tolerance multiplier of the op being checked (float32 letters)
        self._form = ("f64", "f64")
        self._unit = 1.0  # magnitude letter of the op being checked: every tolerance is relative to it
        self._exact = True  # the target is exactly member(source) at noise 0 (false when it had to be rounded)

    def depth(self):
        # level 0: construct an alignment; level 1: refused calls + re-check on that same live alignment
        # (thorough: also a second alignment built from the aligned source)
        return 2

    # ------------------------------------------------------------------ roots
    def roots(self):
        out = []
        for cls in HOMOG:
            for n in (3, 4, 5, 6):
                out.append((cls, 2, "g%d" % n))
            for n in (4, 5):
                out.append((cls, 3, "g%d" % n))
        for cls in TPS:
            for n in (3, 4, 5, 6):
                out.append((cls, 2, "g%d" % n))
        for cls in PWA:
            for n in (3, 4, 5, 6):
                out.append((cls, 2, "g%d" % n))
            out.append((cls, 2, "L5"))
        for cls in GPA:
            for n in (3, 4, 5, 6):
                out.append((cls, 2, "g%d" % n))
            for n in (4, 5):
                out.append((cls, 3, "g%d" % n))
        return out

    def _source(self, d, letter, salt="c07-src"):
        key = (d, letter, salt)
        if key not in self._src_cache:
            if letter == "L5":
                p = pwa_layout(self.seed, salt)[0]
            else:
                n = int(letter[1:])
                j = 0
                while True:
                    p = generic_points(n, d, self.seed, (salt, j), min_area=MIN_AREA if d == 2 else None)
                    sv = np.linalg.svd(p - p.mean(axis=0), compute_uv=False)
                    if d == 2 or sv[-1] >= 0.8:  # 3-D: not nearly coplanar
                        break
                    j += 1
                    if j > 200:
                        raise HarnessError("no non-coplanar source found")
            self._src_cache[key] = p
        return self._src_cache[key].copy()

    def build(self, root):
        cls, d, letter = root
        s = self._source(d, letter)
        st = {"root": root, "cls": cls, "d": d, "S": s, "chain_ok": True, "tri": None, "level": 0, "live": None, "tkey": None}
        if cls in PWA:
            st["tri"] = pwa_layout(self.seed, "c07-src")[1] if letter == "L5" else delaunay(s)
        return st

    def canon(self, st):
        # tkey = (target, forms) of the live alignment the refused-call letters act on
        return (st["cls"], st["d"], st["level"] > 0, st["chain_ok"], obs_key(st["S"]), st["tkey"])

    # ------------------------------------------------------------------ alphabet
    def _guard(self, st):
        s, d = st["S"], st["d"]
        n = len(s)
        diff = s[:, None, :] - s[None, :, :]
        dist = np.sqrt((diff ** 2).sum(-1)) + np.eye(n) * 1e9
        if dist.min() < GUARD_DIST or np.abs(s).max() > 60:
            return False
        sv = np.linalg.svd(s - s.mean(axis=0), compute_uv=False)
        if sv[-1] < GUARD_SV:
            return False
        if d == 2 and st["cls"] in TPS + PWA:
            import itertools

            for i, j, k in itertools.combinations(range(n), 3):
                if abs(tri_area2(s, np.array([[i, j, k]]))[0]) * 0.5 < GUARD_AREA:
                    return False
        if st["tri"] is not None:
            # a valid triangulation stays one under an orientation preserving or reversing map: every triangle
            # keeps the same relative orientation as at the root, and no triangle has collapsed
            a2 = tri_area2(s, st["tri"])
            root_a2 = tri_area2(self._source(st["d"], st["root"][2]), st["tri"])
            if len(set(np.sign(a2 * root_a2))) != 1 or np.abs(a2).min() * 0.5 < GUARD_AREA:
                return False
        return True

    def ops(self, st, level):
        cls, d = st["cls"], st["d"]
        if cls in GPA:
            if level > 0:
                return [("refuse", "gpa:one-source")] if level == 1 else []
            out = [("gpa", k, nz) for k in range(len(gpa_triples(d))) for nz in NOISE[self.tier]]
            for fs, ft in FORM_PAIRS:
                if not self._form_enabled(cls, fs, ft):
                    continue
                for nz in NOISE_FORM:
                    for k in (0, 4):  # similarity copies / arbitrary shapes
                        if "u8" in (fs, ft) and k != 4:
                            continue  # only the arbitrary shapes stay inside the range of the unsigned type
                        out.append(("gpaf", k, nz, fs, ft))
            return out
        if level == 0:
            mem = member_letters(d, "full" if self.tier == "quick" else "wide")
            out = [("align", m, nz) for nz in NOISE[self.tier] for m in mem]
            # argument forms: the reduced member alphabet presented in every legal form of source / target
            fmem = [m for m in member_letters(d, "small") if m[0] in FORM_FAMILIES]
            for fs, ft in FORM_PAIRS:
                if not self._form_enabled(cls, fs, ft):
                    continue
                for nz in NOISE_FORM:
                    for m in fmem:
                        if fs == "u8" and ft == "u8" and m[0] not in ("sc", "arb"):
                            continue  # the image must stay inside the range of the unsigned type
                        out.append(("alignf", m, nz, fs, ft))
            # magnitude letters (small subset of roots): the reduced members, mirrored targets included, at other scales
            if cls in HOMOG and st["root"][2] == "g4":
                for u in SCALES:
                    for nz in NOISE_FORM:
                        for m in member_letters(d, "small"):
                            out.append(("scale", u, m, nz))
            # the same correspondences given in another order (source and target permuted consistently)
            for pn in ("reversed", "shuffle"):
                for nz in NOISE_FORM:
                    for m in member_letters(d, "small"):
                        out.append(("perm", pn, m, nz))
            # alternate public routes to the same alignment
            for rt in routes_of(cls, d):
                for nz in NOISE_FORM:
                    for m in member_letters(d, "small"):
                        out.append(("route", rt, m, nz))
            return out
        out = []
        live = st["live"]
        if level == 1 and live is not None and live["forms"] == ("f64", "f64") and live["noise"] in NOISE_CHAIN:
            # refused calls on the live alignment (self loops), each group followed by the normal oracle on the
            # same live object
            out += [("refuse", k) for k in ("set_target:n+1", "set_target:n-1", "set_target:dims")] + [("recheck",)]
            out += [("refuse", "apply:dims")]
            if cls in PWA:
                out += [("refuse", "apply:outside"), ("refuse", "apply:outside-batched")]
            out += [("recheck",)]
            out += [("refuse", "construct:n-mismatch"), ("refuse", "construct:dims")]
            if cls in TPS + PWA and not cls.endswith("-pc"):
                # (a PointCloud source is triangulated first: in 3-D scipy's Qhull, not menpo, decides the outcome)
                out.append(("refuse", "construct:3d"))
            if cls == "Aff":
                out.append(("refuse", "construct:singular"))
            out += [("recheck",)]
            # order letters: the same points queried again in another row order on the same live object
            out += [("order", pn, kind) for kind in ("source", "grid") for pn in PERMS]
        if self.tier != "thorough":
            return out
        if not st["chain_ok"]:
            self.note("chain:not-expanded(arbitrary-or-noisy-parent)")
            return out
        if not self._guard(st):
            self.note("chain:not-expanded(guard)")
            return out
        self.note("chain:expanded")
        return out + [("align", m, nz) for nz in NOISE_CHAIN for m in member_letters(d, "small")]

    # ------------------------------------------------------------------ argument forms
    # (class, form) combinations that the unchanged tree does not accept or mishandles in a way the property
    # does not cover are not letters; each exclusion is listed with its reason in assumptions()
    FORM_EXCLUDED = {
        # (class group or letter, source form, target form) with "*" = any; reasons: narrow / unsigned integer
        # arithmetic wraps around inside menpo on the unchanged tree (reported, not part of the property text)
        ("Rot", "u8", "u8"): "target.T . source is computed in uint8 and wraps",
        ("RotM", "u8", "u8"): "target.T . source is computed in uint8 and wraps",
        ("Aff", "u8", "*"): "the normal equations a a^T are computed in uint8 and wrap",
        ("PWA", "u8", "*"): "source edge vectors are differences of unsigned integers and wrap",
        ("PWA", "*", "u8"): "target edge vectors are differences of unsigned integers and wrap",
        ("PWA", "i16", "*"): "dot_jj * dot_kk overflows int16",
        ("PWA", "f32", "*"): "barycentric coordinates are computed in float32: vertices of the source mesh itself fall outside every triangle by ~1e-8 (TriangleContainmentError)",
    }

    def _form_enabled(self, cls, fs, ft):
        if fs == "npopt":
            return cls in OPTION_CLASSES
        if cls in GPA and cls != "GPAT" and ft != "f64":
            return False  # no target argument
        grp = "PWA" if cls in PWA else "TPS" if cls in TPS else "GPA" if cls in GPA else cls
        for key in ((grp, fs, ft), (grp, fs, "*"), (grp, "*", ft)):
            if key in self.FORM_EXCLUDED:
                return False
        return True

    def _form_pair(self, s0, member, noise, fs, ft):
        """float64 value arrays (source, target) of the pair presented in forms (fs, ft): exactly the values that
        survive the casts, so that the reference is computed from what menpo was really given."""
        n, d = s0.shape
        int_s, int_t = fs in INT_FORMS, ft in INT_FORMS
        k = INT_SCALE if (int_s or int_t) else 1.0
        nz = noise * k * self._noise_dir(n, d)
        h = member_h(member, d)
        arb = None if h is not None else k * self._source(d, "g%d" % n, salt=("c07-arb", member[1]))
        if int_t and not int_s:
            # integer target, non-integer source: source = member^-1(target) (+ noise)
            t = np.rint(k * s0 if h is not None else arb)
            s = (k * s0 if h is None else apply_h(np.linalg.inv(h), t)) + nz
            s = cast_values(s, fs)
        else:
            s = cast_values(np.rint(k * s0) if int_s else s0, fs)
            t = (arb if h is None else apply_h(h, s)) + nz
            if int_t:
                t = np.rint(t)
        t = cast_values(t, ft)
        return s, t

    # ------------------------------------------------------------------ targets
    def _noise_dir(self, n, d, salt=0):
        return rs(self.seed, "c07-noise", n, d, salt).uniform(-1.0, 1.0, size=(n, d))

    def _target(self, s, member, noise, salt=0):
        n, d = s.shape
        h = member_h(member, d)
        if h is None:
            base = self._source(d, "g%d" % n, salt=("c07-arb", member[1]))
        else:
            base = apply_h(h, s)
        return base + noise * self._noise_dir(n, d, salt)

    # ------------------------------------------------------------------ construction
    def _construct(self, cls, s, t, tri, fs="f64", ft="f64"):
        import menpo.transform as mt
        from menpo.shape import PointCloud, TriMesh
        from menpo.transform.piecewiseaffine.base import CachedPWA, PythonPWA
        from menpo.transform.rbf import R2LogRRBF

        ps, cs = present(s, fs)
        pt, ct = present(t, ft)
        src, tgt = PointCloud(ps, copy=cs), PointCloud(pt, copy=ct)
        true_, false_ = (np.bool_(True), np.bool_(False)) if fs == "npopt" else (True, False)
        if cls == "Tr":
            al = mt.AlignmentTranslation(src, tgt)
        elif cls == "US":
            al = mt.AlignmentUniformScale(src, tgt)
        elif cls == "Rot":
            al = mt.AlignmentRotation(src, tgt)
        elif cls == "RotM":
            al = mt.AlignmentRotation(src, tgt, allow_mirror=true_)
        elif cls in SIMILARITY_OPTS:
            rot, mir = SIMILARITY_OPTS[cls]
            rot, mir = (true_ if rot else false_), (true_ if mir else false_)
            if cls == "Sim":
                al = mt.AlignmentSimilarity(src, tgt)  # the defaults
            else:
                al = mt.AlignmentSimilarity(src, tgt, rotation=rot, allow_mirror=mir)
        elif cls == "Aff":
            al = mt.AlignmentAffine(src, tgt)
        elif cls == "TPS":
            al = mt.ThinPlateSplines(src, tgt)
        elif cls == "TPS2":
            al = mt.ThinPlateSplines(src, tgt, kernel=R2LogRRBF(s.copy()))
        elif cls in PWA:
            kind, srck = cls.split("-")
            if srck != "pc":
                src = TriMesh(ps, trilist=present_trilist(wind(s, tri, srck), fs), copy=cs)
            klass = {"PWApy": PythonPWA, "PWAc": CachedPWA, "PWA": mt.PiecewiseAffine}[kind]
            al = klass(src, tgt)
        else:
            raise ValueError(cls)
        return al, src, tgt

    # ------------------------------------------------------------------ step
    def apply(self, st, op, verify=True):
        self._unit = 1.0
        if op[0] in ("gpa", "gpaf"):
            return self._apply_gpa(st, op, verify)
        if op[0] == "refuse":
            return self._apply_refuse(st, op, verify)
        if op[0] == "recheck":
            return self._apply_recheck(st, verify)
        if op[0] == "route":
            return self._apply_route(st, op, verify)
        if op[0] == "order":
            return self._apply_order(st, op, verify)
        if op[0] == "perm":
            return self._apply_perm(st, op, verify)
        cls, d = st["cls"], st["d"]
        if op[0] == "alignf":
            _, member, noise, fs, ft = op
            s, t = self._form_pair(st["S"].copy(), member, noise, fs, ft)
            self._k = F32_K if "f32" in (fs, ft) else 1.0
            self.note("form:%s>%s" % (fs, ft))
            if ft in INT_FORMS and fs not in INT_FORMS and noise == 0.0 and member[0] != "arb":
                self.note("form:integer-target-is-exact-image-of-noninteger-source")
        elif op[0] == "scale":
            # the same payload at another magnitude: coordinates, translation of the member and noise times u
            _, u, member, noise = op
            fs = ft = "f64"
            s = u * st["S"]
            t = u * self._target(st["S"].copy(), member, noise)
            self._k, self._unit = 1.0, float(u)
            self.note("scale:%g" % u)
            if member[0] in ("refl", "simrefl"):
                self.note("scale:%g:mirrored-target" % u)
        else:
            _, member, noise = op
            fs = ft = "f64"
            s = st["S"].copy()
            t = self._target(s, member, noise)
            self._k = 1.0
        self._form = (fs, ft)
        self._exact = not (ft in INT_FORMS and fs in INT_FORMS)
        tri = st["tri"]
        if op[0] == "alignf" and tri is not None:
            tri = delaunay(s)  # the presented source is a rounded / inverse-mapped copy: triangulate what is passed
        al, src, tgt = self._construct(cls, s, t, tri, fs, ft)
        fails = []
        if verify:
            fails = self._oracle(cls, d, al, src, tgt, s, t, member, noise, st)
        try:
            st["S"] = np.array(al.aligned_source().points, dtype=float)
        except Exception:
            if fails:  # already reported by the oracle (source landmarks outside the PWA domain)
                return fails
            raise
        st["level"] += 1
        st["live"] = {"al": al, "src": src, "tgt": tgt, "s": s, "t": t, "member": member, "noise": noise, "forms": (fs, ft) if op[0] != "scale" else ("scale", op[1]), "tri": tri}
        st["tkey"] = (obs_key(t / self._unit), fs, ft, self._unit)
        # deeper levels: only behind an affine family member with noise 0 or 0.1 (the image of a general-position
        # source under such a map is again in general position; the guard is re-evaluated on the real output)
        st["chain_ok"] = member[0] != "arb" and noise in NOISE_CHAIN and op[0] == "align"
        return fails

    # ------------------------------------------------------------------ alternate routes
    def _apply_route(self, st, op, verify):
        from menpo.shape import PointCloud
        from menpo.transform.base.alignment import Alignment
        from mc.observe import obs_diff, observe

        _, route, member, noise = op
        cls, d = st["cls"], st["d"]
        s = st["S"].copy()
        t = self._target(s, member, noise)
        t_other = self._target(s, ("arb", 1), 0.0)
        self._k, self._form, self._exact = 1.0, ("f64", "f64"), True
        tri = st["tri"]
        where = "%s/%dd" % (cls, d)
        fails = []
        scl = max(1.0, float(np.abs(s).max()), float(np.abs(t).max()))

        def bad(clause, detail):
            fails.append(Failure(where, "%s@%s" % (clause, route), "member=%r noise=%r n=%d: %s" % (member, noise, len(s), detail)))

        fresh, fsrc, ftgt = self._construct(cls, s, t, tri)
        self.note("route:%s" % route)
        al, src, tgt = None, None, PointCloud(t.copy())

        def synced(x, what):
            """after a re-parametrisation the target is the aligned source and the error is zero."""
            ax = np.asarray(x.apply(s.copy()))
            if np.abs(np.asarray(x.target.points) - ax).max() > TOL_ID * scl * 10:
                bad("target-synced", "%s: target is not the aligned source (off by %.3g)" % (what, np.abs(np.asarray(x.target.points) - ax).max()))
            if abs(float(x.alignment_error())) > TOL_ID * scl * 10:
                bad("alignment-error", "%s: alignment_error()=%.3g right after the target was synced from the state" % (what, x.alignment_error()))
            if np.abs(np.asarray(x.h_matrix) - np.asarray(fresh.h_matrix)).max() > TOL_ID * scl:
                bad("parameters", "%s: h_matrix differs from the one whose parameters were given by %.3g" % (what, np.abs(np.asarray(x.h_matrix) - np.asarray(fresh.h_matrix)).max()))

        if route == "function":
            if cls in ("Rot", "RotM"):
                from menpo.transform.homogeneous.rotation import optimal_rotation_matrix

                r = np.asarray(optimal_rotation_matrix(fsrc, tgt, allow_mirror=cls == "RotM"))
                h = np.eye(d + 1)
                h[:d, :d] = r
            else:
                from menpo.transform.homogeneous.similarity import procrustes_alignment

                rot, mir = SIMILARITY_OPTS[cls]
                sim = procrustes_alignment(fsrc, tgt, rotation=rot, allow_mirror=mir)
                if isinstance(sim, Alignment) or type(sim).__name__ != "Similarity":
                    bad("result-class", "procrustes_alignment returned %s" % type(sim).__name__)
                h = np.asarray(sim.h_matrix)
                if np.abs(np.asarray(sim.apply(s.copy())) - apply_h(h, s)).max() > TOL_ID * scl * 10:
                    bad("aligned-source", "apply(source) differs from h_matrix applied to the source")
            st["S"] = np.array(fresh.aligned_source().points, dtype=float)
            st["level"] += 1
            st["chain_ok"] = False
            st["live"] = None
            st["tkey"] = (obs_key(t), "route", route)
            if not verify:
                return []
            a1 = apply_h(h, s)
            sub = self._homog_clauses(cls, d, where, h, s, t, a1, fro(a1 - t), scl, member, noise)
            fails.extend(Failure(f.where, "%s@%s" % (f.clause, route), f.detail) for f in sub)
            if not np.array_equal(h, np.asarray(fresh.h_matrix)):
                bad("route-agreement", "the module-level function and the alignment class disagree by %.3g" % np.abs(h - np.asarray(fresh.h_matrix)).max())
            else:
                self.note("route:agrees-with-constructor")
            if not np.array_equal(fsrc.points, s) or not np.array_equal(tgt.points, t):
                bad("inputs-mutated", "the point clouds passed to the function were modified")
            return fails

        if route in ("set_target:from-source", "set_target:from-other"):
            al, src, _ = self._construct(cls, s, s.copy() if route.endswith("source") else t_other, tri)
            ret = al.set_target(tgt)
            if ret is not None:
                bad("result", "set_target returned %r" % (ret,))
        elif route == "copy":
            al0, src, tgt = self._construct(cls, s, t, tri)
            al = al0.copy()
            if al is al0 or type(al) is not type(al0):
                bad("result-class", "copy() returned %s" % type(al).__name__)
        elif route == "copy+set_target":
            al0, src, _ = self._construct(cls, s, t_other, tri)
            h0 = observe(al0)
            al = al0.copy()
            al.set_target(tgt)
            if obs_diff(h0, observe(al0)) is not None:
                bad("copy-independent", "retargeting the copy changed the original: %s" % obs_diff(h0, observe(al0)))
        elif route in ("from_vector", "from_vector_inplace", "set_rotation_matrix"):
            lin = np.asarray(fresh.h_matrix)[:d, :d]
            if route != "set_rotation_matrix" and cls not in ("Tr", "US", "Aff") and np.linalg.det(lin) < 0:
                # a reflection has no rotation / similarity parameter vector: this route does not reach it
                self.note("route:%s:reflection-not-representable" % route)
                al, src, _ = self._construct(cls, s, t_other, tri)
                al.set_target(tgt)
            else:
                base, src, _ = self._construct(cls, s, t_other, tri)
                if route == "from_vector":
                    before = observe(base)
                    al = base.from_vector(fresh.as_vector())
                    if al is base or type(al) is not type(base):
                        bad("result-class", "from_vector returned %s" % type(al).__name__)
                    if obs_diff(before, observe(base)) is not None:
                        bad("copy-independent", "from_vector changed its receiver: %s" % obs_diff(before, observe(base)))
                elif route == "from_vector_inplace":
                    al = base
                    al.from_vector_inplace(fresh.as_vector())  # public (deprecated) in-place route
                else:
                    al = base
                    al.set_rotation_matrix(np.array(fresh.rotation_matrix))
                if verify:
                    synced(al, route)
                self.note("route:%s:parameters-set" % route)
                al.set_target(tgt)
        else:
            raise ValueError(route)
        if verify:
            sub = self._oracle(cls, d, al, src, tgt, s, t, member, noise, st)
            fails.extend(Failure(f.where, "%s@%s" % (f.clause, route), f.detail) for f in sub)
            diff = obs_diff(observe(al), observe(fresh))
            if diff is not None:
                bad("route-agreement", "differs from cls(source, target) built directly: %s" % diff)
            else:
                self.note("route:agrees-with-constructor")
        try:
            st["S"] = np.array(al.aligned_source().points, dtype=float)
        except Exception:
            if fails:
                return fails
            raise
        st["level"] += 1
        st["chain_ok"] = False
        st["live"] = {"al": al, "src": src, "tgt": tgt, "s": s, "t": t, "member": member, "noise": noise, "forms": ("route", route), "tri": tri}
        st["tkey"] = (obs_key(t), "route", route)
        return fails

    # ------------------------------------------------------------------ order / permutation letters
    def _grid(self, st, lv):
        """probe points with dyadic coordinates (multiples of 1/2: sums are exact in any order, like integer pixel
        coordinates) inside the domain of the live alignment (strictly inside a source triangle for a PWA)."""
        s, d = lv["s"], st["d"]
        lo, hi = np.ceil(s.min(axis=0) * 2) / 2, np.floor(s.max(axis=0) * 2) / 2
        axes = [np.arange(lo[i], hi[i] + 0.25, 0.5) for i in range(d)]
        pts = np.array(np.meshgrid(*axes, indexing="ij")).reshape(d, -1).T
        if st["cls"] in PWA:
            tri = np.asarray(lv["al"].trilist)
            keep = []
            for p_ in pts:
                inside = False
                for a, b, c in tri:
                    m = np.array([s[b] - s[a], s[c] - s[a]]).T
                    uv = np.linalg.solve(m, p_ - s[a])
                    if min(uv[0], uv[1], 1 - uv[0] - uv[1]) > 1e-3:
                        inside = True
                        break
                keep.append(inside)
            pts = pts[np.array(keep, dtype=bool)]
        return np.ascontiguousarray(pts[:: max(1, len(pts) // 12)][:12])

    def _apply_order(self, st, op, verify):
        from menpo.shape import PointCloud

        if not verify:
            return []
        _, pn, kind = op
        lv = st["live"]
        al = lv["al"]
        where = "%s/%dd" % (st["cls"], st["d"])
        if kind == "source":
            x = lv["s"].copy()
            y = np.asarray(al.aligned_source().points).copy()
        else:
            x = self._grid(st, lv)
            if len(x) < 3:
                self.note("order:grid-too-small")
                return []
            y = np.asarray(al.apply(x.copy())).copy()
        perm = permutation(len(x), pn)
        xp = np.ascontiguousarray(x[perm])
        yp = np.asarray(al.apply(xp.copy())).copy()  # the very next call on the same object
        yc = np.asarray(al.apply(PointCloud(xp.copy())).points).copy()
        y2 = np.asarray(al.apply(x.copy())).copy()
        self.note("order:%s:%s" % (kind, pn))
        fails = []
        if yp.shape != y.shape or not np.array_equal(yp, y[perm]) or not np.array_equal(yc, y[perm]):
            k = int(np.abs(yp - y[perm]).max(axis=1).argmax()) if yp.shape == y.shape else -1
            fails.append(Failure(where, "order-independent", "%s points, %s: apply(X[perm]) != apply(X)[perm]; row %d: point %r gives %r, but gave %r when queried in the original order" % (kind, pn, k, xp[k], yp[k] if k >= 0 else None, y[perm][k] if k >= 0 else None)))
        if not np.array_equal(y2, y):
            fails.append(Failure(where, "order-independent", "%s points, %s: apply(X) after apply(X[perm]) differs from the first apply(X)" % (kind, pn)))
        return fails

    def _apply_perm(self, st, op, verify):
        _, pn, member, noise = op
        cls, d = st["cls"], st["d"]
        s = st["S"].copy()
        t = self._target(s, member, noise)
        perm = permutation(len(s), pn)
        sp, tp = np.ascontiguousarray(s[perm]), np.ascontiguousarray(t[perm])
        self._k, self._form, self._exact = 1.0, ("f64", "f64"), True
        tri = st["tri"]
        trip = None
        if tri is not None:
            inv = np.empty(len(perm), dtype=int)
            inv[perm] = np.arange(len(perm))
            trip = inv[np.asarray(tri)]
        al, src, tgt = self._construct(cls, sp, tp, trip)
        self.note("perm:%s" % pn)
        fails = []
        if verify:
            where = "%s/%dd" % (cls, d)
            scl = max(1.0, float(np.abs(s).max()), float(np.abs(t).max()))

            def bad(clause, detail):
                fails.append(Failure(where, "%s@perm" % clause, "member=%r noise=%r n=%d order=%s: %s" % (member, noise, len(s), pn, detail)))

            sub = self._oracle(cls, d, al, src, tgt, sp, tp, member, noise, st)
            fails.extend(Failure(f.where, "%s@perm" % f.clause, f.detail) for f in sub)
            fresh, _, _ = self._construct(cls, s, t, tri)
            af = np.asarray(fresh.aligned_source().points)
            ap = np.asarray(al.aligned_source().points)
            if cls in HOMOG:
                e = np.abs(np.asarray(al.h_matrix) - np.asarray(fresh.h_matrix)).max()
                self._worst("perm:h_matrix", e / scl)
                if e > TOL_RECOVER * scl:
                    bad("order-of-pairs", "h_matrix differs by %.3g from the one fitted to the same pairs in the original order" % e)
            elif cls in TPS:
                probes = np.vstack([self._source(2, "g6", salt="c07-probe"), s.mean(axis=0)[None]])
                e = np.abs(np.asarray(al.apply(probes.copy())) - np.asarray(fresh.apply(probes.copy()))).max()
                self._worst("perm:tps", e / scl)
                if e > TOL_TPS * scl * 10:
                    bad("order-of-pairs", "the spline differs by %.3g on the probe points from the one fitted to the same pairs in the original order" % e)
            else:
                ftri = np.asarray(fresh.trilist)
                pts = np.array([w[0] * s[a] + w[1] * s[b] + w[2] * s[c] for a, b, c in ftri for w in BARY[:4]])
                lip = self._lipschitz(s, t, ftri)
                e = np.abs(np.asarray(al.apply(pts.copy())) - np.asarray(fresh.apply(pts.copy()))).max()
                self._worst("perm:pwa", e / (scl * max(1.0, lip)))
                if e > TOL_PWA_IN * scl * max(1.0, lip):
                    bad("order-of-pairs", "the warp differs by %.3g inside the domain from the one built from the same pairs in the original order" % e)
            e = np.abs(ap - af[perm]).max()
            if e > TOL_RECOVER * scl * 10:
                bad("order-of-pairs", "aligned source differs by %.3g from the permuted aligned source of the original order" % e)
            else:
                self.note("perm:agrees-with-original-order")
        try:
            st["S"] = np.array(al.aligned_source().points, dtype=float)
        except Exception:
            if fails:
                return fails
            raise
        st["level"] += 1
        st["chain_ok"] = False
        st["live"] = {"al": al, "src": src, "tgt": tgt, "s": sp, "t": tp, "member": member, "noise": noise, "forms": ("perm", pn), "tri": trip}
        st["tkey"] = (obs_key(tp), "perm", pn)
        return fails

    # ------------------------------------------------------------------ refused calls on the live alignment
    def _apply_recheck(self, st, verify):
        """the normal oracles once more on the same live alignment (after whatever refused calls came before)."""
        lv = st["live"]
        self._k, self._form, self._exact = 1.0, lv["forms"], True
        self.note("recheck:after-refused-calls")
        if not verify:
            return []
        fails = self._oracle(st["cls"], st["d"], lv["al"], lv["src"], lv["tgt"], lv["s"], lv["t"], lv["member"], lv["noise"], st)
        return [Failure(f.where, f.clause + "(after-refused-call)", f.detail) for f in fails]

    def _refusal(self, st, kind):
        """(thunk, expected exception name, expected outside-mask or None, list of (argument object, value copy))."""
        from menpo.shape import PointCloud

        cls, d = st["cls"], st["d"]
        if kind == "gpa:one-source":
            from menpo.transform import GeneralizedProcrustesAnalysis

            pc = PointCloud(st["S"].copy())
            return (lambda: GeneralizedProcrustesAnalysis([pc])), "ValueError", None, [(pc, st["S"].copy())]
        lv = st["live"]
        al, s, t = lv["al"], lv["s"], lv["t"]
        n = len(s)
        if kind.startswith("set_target") or kind.startswith("construct"):
            what = kind.split(":")[1]
            if what == "n+1":
                bad = np.vstack([t, t.mean(axis=0)[None] + 1.0])
            elif what in ("n-1", "n-mismatch"):
                bad = t[:-1].copy()
            elif what == "dims":
                bad = np.hstack([t, np.arange(1.0, n + 1)[:, None]]) if d == 2 else t[:, :2].copy()
            elif what == "3d":
                bad = np.hstack([t, np.arange(1.0, n + 1)[:, None]])
            else:  # singular: every source point on one line through the origin
                bad = t.copy()
            pc = PointCloud(bad.copy())
            args = [(pc, bad.copy())]
            if kind.startswith("set_target"):
                return (lambda: al.set_target(pc)), "ValueError", None, args
            s2 = s
            if what == "3d":
                s2 = np.hstack([s, np.arange(2.0, n + 2)[:, None] ** 2 % 5])
            if what == "singular":
                s2 = np.outer(np.arange(1.0, n + 1), np.arange(1.0, d + 1))
                return (lambda: self._construct(cls, s2, bad, lv["tri"])), "LinAlgError", None, args
            tri = lv["tri"]
            return (lambda: self._construct(cls, s2, bad, tri)), "ValueError", None, args
        if kind == "apply:dims":
            pts = np.hstack([s, np.arange(1.0, n + 1)[:, None]]) if d == 2 else s[:, :2].copy()
            return (lambda: al.apply(pts)), "ValueError", None, [(pts, pts.copy())]
        if kind in ("apply:outside", "apply:outside-batched"):
            tri = np.asarray(al.trilist)
            c0, c1 = s[tri[0]].mean(axis=0), s[tri[-1]].mean(axis=0)
            far = s.max(axis=0) + 100.0
            pts = np.array([c0, far, c1, 0.5 * (c0 + s[tri[0][0]])])
            mask = np.array([False, True, False, False])
            if kind == "apply:outside":
                return (lambda: al.apply(pts)), "TriangleContainmentError", mask, [(pts, pts.copy())]
            return (lambda: al.apply(pts, batch_size=2)), "TriangleContainmentError", mask, [(pts, pts.copy())]
        raise ValueError(kind)

    def _apply_refuse(self, st, op, verify):
        from mc.observe import obs_diff, observe

        kind = op[1]
        call, exp, mask, args = self._refusal(st, kind)

        def run():
            try:
                r = call()
            except Exception as ex:  # noqa - the outcome of a refused call IS the exception; it is compared below
                m = getattr(ex, "points_outside_source_domain", None)
                return (type(ex).__name__, None if m is None else tuple(bool(x) for x in np.asarray(m)))
            return ("returned", type(r).__name__)

        if not verify:
            run()
            return []
        where = "%s/%dd" % (st["cls"], st["d"])
        fails = []

        def bad(clause, detail):
            fails.append(Failure(where, clause, "refused call %s: %s" % (kind, detail)))

        lv = st["live"]
        before = observe(lv["al"]) if lv is not None else None  # (for a PWA this is itself a valid apply)
        r1 = run()
        r2 = run()  # the immediate retry, before anything else touches the object
        after = observe(lv["al"]) if lv is not None else None
        r3 = run()  # and once more after valid calls (the observation applies the transform to probe points)
        want = (exp, None if mask is None else tuple(bool(x) for x in mask))
        self.note("refused:%s:%s" % (kind, r1[0]))
        if r1 != want:
            bad("refusal", "expected %r, outcome %r" % (want, r1))
        if r2 != r1 or r3 != r1:
            bad("refusal-repeatable", "first call %r, immediate retry %r, retry after valid calls %r" % (r1, r2, r3))
        if lv is not None:
            diff = obs_diff(before, after)
            if diff is not None:
                bad("refusal-changed-state", "the alignment differs after the refused call: %s" % diff)
            if not np.array_equal(lv["src"].points, lv["s"]) or not np.array_equal(lv["tgt"].points, lv["t"]):
                bad("refusal-changed-state", "source / target passed at construction were modified")
        for obj, val in args:
            cur = obj.points if hasattr(obj, "points") else obj
            if not np.array_equal(np.asarray(cur), val):
                bad("refusal-changed-state", "an argument of the refused call was modified")
        return fails

    def _t(self, tol):
        """tolerance of the current op: as stated for float64 payload; float32 letters: 1e-3 .. 1e-4 relative."""
        return tol if self._k == 1.0 else max(tol * self._k, 1e-4)

    def _worst(self, tag, err):
        """bucketed record of the largest error seen per clause (evidence for the tolerance margins)."""
        if err <= 0:
            b = "0"
        else:
            b = "1e%+03d" % int(math.ceil(math.log10(err)))
        self.note("worst%s:%s:%s" % ("-f32" if self._k > 1 else "", tag, b))

    def _oracle(self, cls, d, al, src, tgt, s, t, member, noise, st):
        where = "%s/%dd" % (cls, d)
        fails = []
        scl = max(self._unit, float(np.abs(s).max()), float(np.abs(t).max()))
        n = len(s)

        def bad(clause, detail):
            fails.append(Failure(where, clause, "member=%r noise=%r n=%d: %s" % (member, noise, n, detail)))

        # ---- every alignment: source / target are what was passed, aligned source, error
        tp = np.asarray(al.target.points)
        sp = np.asarray(al.source.points)
        if tp.shape != t.shape or not np.array_equal(tp, t):
            bad("target-kept", "target differs from the point set passed in by %.3g" % (np.abs(tp - t).max() if tp.shape == t.shape else -1))
        if sp.shape != s.shape or not np.array_equal(sp, s):
            bad("source-kept", "source differs from the point set passed in")
        try:
            a1 = np.asarray(al.apply(s.copy()))
            a2 = np.asarray(al.aligned_source().points)
            a3 = np.asarray(al.apply(src).points)
        except Exception as ex:  # noqa - only the documented domain error of the PWA is converted into a verdict
            if type(ex).__name__ != "TriangleContainmentError":
                raise
            bad("interpolate", "the source landmarks themselves are rejected as outside the source triangles: %r" % (getattr(ex, "points_outside_source_domain", None),))
            return fails
        baseline = self._form == ("f64", "f64")
        if (not (np.array_equal(a1, a2) and np.array_equal(a1, a3))) if baseline else (a1.shape != a2.shape or a1.shape != a3.shape or max(np.abs(a1 - a2).max(), np.abs(a1 - a3).max()) > self._t(TOL_ID) * scl * 10):
            bad("aligned-source", "aligned_source() / apply(source) / apply(source points) differ by %.3g" % max(np.abs(a1 - a2).max(), np.abs(a1 - a3).max()))
        if baseline:
            ab = np.asarray(al.apply(s.copy(), batch_size=2))
            if ab.shape != a1.shape or np.abs(ab - a1).max() > self._t(TOL_ID) * scl:
                bad("aligned-source", "apply(source, batch_size=2) differs from apply(source)")
            if cls in HOMOG:
                from menpo.transform.base.alignment import Alignment

                na = al.as_non_alignment()
                if isinstance(na, Alignment) or type(na).__name__ != NON_ALIGNMENT[cls]:
                    bad("as-non-alignment", "as_non_alignment() returned %s" % type(na).__name__)
                elif not np.array_equal(np.asarray(na.h_matrix), np.asarray(al.h_matrix)) or np.abs(np.asarray(na.apply(s.copy())) - a1).max() > self._t(TOL_ID) * scl:
                    bad("as-non-alignment", "as_non_alignment() is another map than the alignment")
        err = float(al.alignment_error())
        err_ref = fro(t - a1)
        if abs(err - err_ref) > self._t(TOL_ID) * scl * (1 + err_ref):
            bad("alignment-error", "alignment_error()=%.12g but |target - apply(source)|=%.12g" % (err, err_ref))
        self.note("error:%s" % ("zero" if err_ref < 1e-9 * scl else "nonzero"))
        if not np.array_equal(src.points, s) or not np.array_equal(tgt.points, t):
            bad("inputs-mutated", "the point clouds passed to the constructor were modified")

        in_family = None
        hm = member_h(member, d)
        if cls in HOMOG:
            h = np.asarray(al.h_matrix)
            bottom = np.zeros(d + 1)
            bottom[-1] = 1.0
            if h.shape != (d + 1, d + 1) or np.abs((h[d] - bottom) * np.append(np.full(d, self._unit), 1.0)).max() > (TOL_ID if self._k == 1.0 else 1e-3):  # (the projective entries are 1/length)
                bad("homogeneous-form", "h_matrix bottom row %r" % (h[d] if h.ndim == 2 else h,))
                return fails
            e = np.abs(apply_h(h, s) - a1).max()
            self._worst("apply-vs-h_matrix", e / scl)
            if e > self._t(TOL_ID) * scl * 10:
                bad("aligned-source", "apply(source) differs from h_matrix applied to the source by %.3g" % e)
            if self._unit != 1.0:
                # magnitude letters: the family clauses are evaluated in units of the letter (translation, points
                # and errors divided by it; the linear part is dimensionless), i.e. relative to the data magnitude
                u = self._unit
                h = h.copy()
                h[:d, d] /= u
                s, t, a1, err_ref, scl = s / u, t / u, a1 / u, err_ref / u, scl / u
            in_family = hm is not None and (member[0] in FAMILY[cls] or is_identity(member))
            if in_family and noise == 0.0 and self._exact:
                e = np.abs(h - hm).max()
                self._worst("recover:" + cls, e / scl)
                self.note("recover:%s" % cls)
                if e > self._t(TOL_RECOVER) * scl:
                    bad("recover", "target = member(source) exactly, but h_matrix differs from the member by %.3g\nexpected\n%r\ngot\n%r" % (e, hm, h))
            fails.extend(self._homog_clauses(cls, d, where, h, s, t, a1, err_ref, scl, member, noise))
        elif cls in TPS:
            e = np.abs(a1 - t).max()
            self._worst("tps-interpolation", e / scl)
            self.note("tps:interpolates")
            if e > self._t(TOL_TPS) * scl:
                bad("interpolate", "apply(source) misses the target landmarks by %.3g" % e)
            if hm is not None and noise == 0.0 and self._exact:
                probes = np.vstack([self._source(2, "g6", salt="c07-probe"), s.mean(axis=0)[None]])
                got = np.asarray(al.apply(probes.copy()))
                e = np.abs(got - apply_h(hm, probes)).max()
                self._worst("recover:" + cls, e / scl)
                self.note("recover:%s" % cls)
                if e > self._t(TOL_TPS) * scl * 10:
                    bad("recover", "target is an affine image of the source, but the spline differs from that affine map by %.3g on the probe points" % e)
        elif cls in PWA:
            fails.extend(self._pwa_clauses(cls, where, al, s, t, a1, scl, member, noise, hm))
        return fails

    # ------------------------------------------------------------------ homogeneous families
    def _homog_clauses(self, cls, d, where, h, s, t, a1, err, scl, member, noise):
        fails = []
        n = len(s)

        def bad(clause, detail):
            fails.append(Failure(where, clause, "member=%r noise=%r n=%d: %s" % (member, noise, n, detail)))

        lin, tr = h[:d, :d], h[:d, d]
        if cls == "Tr":
            ref = np.eye(d + 1)
            ref[:d, d] = t.mean(axis=0) - s.mean(axis=0)
            e = np.abs(h - ref).max()
            self._worst("closed-form:Tr", e / scl)
            if e > self._t(TOL_CLOSED) * scl:
                bad("closed-form", "translation %r, centroid difference %r" % (tr, ref[:d, d]))
            fails.extend(self._param_grid(where, h, [(i, d) for i in range(d)], s, t, err, scl, member, noise))
        elif cls == "US":
            s0, t0 = s - s.mean(axis=0), t - t.mean(axis=0)
            ref = np.eye(d + 1)
            ref[:d, :d] *= fro(t0) / fro(s0)
            e = np.abs(h - ref).max()
            self._worst("closed-form:US", e)
            if e > self._t(TOL_CLOSED) * max(1.0, ref[0, 0]):
                bad("closed-form", "scale matrix\n%r\nexpected factor %.12g (ratio of the centred norms)" % (h, ref[0, 0]))
            size = fro(a1 - a1.mean(axis=0))
            self.note("size:US")
            if abs(size - fro(t0)) > self._t(TOL_CLOSED) * scl:
                bad("size", "|aligned source| = %.12g but |target| = %.12g" % (size, fro(t0)))
        elif cls in ("Rot", "RotM"):
            mirror = cls == "RotM"
            det = float(np.linalg.det(lin))
            orth = np.abs(lin.dot(lin.T) - np.eye(d)).max()
            if orth > 1e-10 * self._k or tr.any():
                bad("orthogonal", "linear part is not orthogonal (%.3g) or a translation is present %r" % (orth, tr))
            if not mirror and det < 0:
                bad("proper-rotation", "mirroring was not allowed but det = %.6g" % det)
            rref, eref, gap, improper = ref_rotation(s, t, mirror)
            fails.extend(self._rotation_vs_ref(where, lin, rref, err, eref, gap, s, t, mirror, scl, member, noise))
            self.note("rot:%s:%s-target:det%+d" % ("mirror-allowed" if mirror else "mirror-forbidden", "reflected" if member[0] in ("refl", "simrefl") else "other", 1 if det > 0 else -1))
        elif cls in SIMILARITY_OPTS:
            rotation, mirror = SIMILARITY_OPTS[cls]
            fails.extend(self._similarity_clauses(where, h, s, t, a1, err, rotation, mirror, scl, member, noise, tag=cls))
        elif cls == "Aff":
            ref = ref_affine(s, t)
            e = np.abs(h - ref).max()
            self._worst("closed-form:Aff", e / scl)
            if e > self._t(TOL_RECOVER) * scl:
                bad("closed-form", "h_matrix differs from the least-squares solution by %.3g\nexpected\n%r\ngot\n%r" % (e, ref, h))
            eref = fro(apply_h(ref, s) - t)
            if err > eref + self._t(TOL_GRID) * scl:
                bad("least-squares", "error %.12g, the least-squares affine map reaches %.12g" % (err, eref))
            fails.extend(self._param_grid(where, h, [(i, j) for i in range(d) for j in range(d + 1)], s, t, err, scl, member, noise))
        return fails

    def _param_grid(self, where, h, params, s, t, err, scl, member, noise):
        """no competitor that differs in one parameter by +-delta does better (convex objective => global)."""
        worst = None
        for (i, j) in params:
            for delta in (1e-3, 1e-1):
                for sg in (1.0, -1.0):
                    h2 = h.copy()
                    h2[i, j] += sg * delta
                    e2 = fro(apply_h(h2, s) - t)
                    if e2 < err - self._t(TOL_GRID) * scl and (worst is None or e2 < worst[0]):
                        worst = (e2, i, j, sg * delta)
        self.note("optimal:param-grid")
        if worst is not None:
            return [Failure(where, "grid-optimal", "member=%r noise=%r n=%d: error %.12g, but changing h[%d,%d] by %+g gives %.12g" % (member, noise, len(s), err, worst[1], worst[2], worst[3], worst[0]))]
        return []

    def _rotation_vs_ref(self, where, lin, rref, err, eref, gap, s, t, mirror, scl, member, noise, scale=1.0):
        """lin = scale * R must be the least-squares rotation: error equal to the closed-form optimum, not beaten by
        any grid rotation, and (when the optimum is well conditioned) the same matrix."""
        fails = []
        n = len(s)

        def bad(clause, detail):
            fails.append(Failure(where, clause, "member=%r noise=%r n=%d: %s" % (member, noise, n, detail)))

        if err > eref + self._t(TOL_GRID) * scl:
            bad("least-squares", "error %.12g, the closed-form optimal rotation reaches %.12g" % (err, eref))
        gmin = grid_min_error(scale * s, t, mirror)
        self.note("optimal:rotation-grid:%dd" % s.shape[1])
        if err > gmin + self._t(TOL_GRID) * scl:
            bad("grid-optimal", "error %.12g, a rotation of the competitor grid reaches %.12g" % (err, gmin))
        if gap >= MIN_GAP:
            e = np.abs(lin - scale * rref).max() / max(scale, 1e-300)
            self._worst("closed-form:rotation", e * gap)
            self.note("rot:matrix-compared")
            if e > self._t(TOL_CLOSED) / gap:
                bad("closed-form", "rotation differs from the closed-form least-squares rotation by %.3g (gap %.3g)\nexpected\n%r\ngot\n%r" % (e, gap, scale * rref, lin))
        else:
            self.note("rot:ill-conditioned(matrix-not-compared)")
        return fails

    def _similarity_clauses(self, where, h, s, t, a1, err, rotation, mirror, scl, member, noise, tag):
        fails = []
        n, d = s.shape

        def bad(clause, detail):
            fails.append(Failure(where, clause, "member=%r noise=%r n=%d: %s" % (member, noise, n, detail)))

        lin = h[:d, :d]
        cs, ct = s.mean(axis=0), t.mean(axis=0)
        s0, t0 = s - cs, t - ct
        ca = a1.mean(axis=0)
        self.note("centroid+size:%s" % tag)
        if np.abs(ca - ct).max() > self._t(TOL_CLOSED) * scl:
            bad("centroid", "centroid of the aligned source %r, of the target %r" % (ca, ct))
        size = fro(a1 - ca)
        if abs(size - fro(t0)) > self._t(TOL_CLOSED) * scl:
            bad("size", "|aligned source| = %.12g but |target| = %.12g" % (size, fro(t0)))
        href, scale, gap, improper = ref_similarity(s, t, rotation, mirror)
        # the linear part is scale * orthogonal
        q = lin / scale
        orth = np.abs(q.dot(q.T) - np.eye(d)).max()
        det = float(np.linalg.det(q))
        if orth > 1e-9 * self._k:
            bad("orthogonal", "linear part / (|target|/|source|) is not orthogonal (%.3g)" % orth)
        if not mirror and det < 0:
            bad("proper-rotation", "mirroring was not allowed but det = %.6g" % det)
        if not rotation:
            e = np.abs(h - href).max()
            self._worst("closed-form:similarity-no-rotation", e / scl)
            self.note("sim:no-rotation")
            if e > self._t(TOL_CLOSED) * scl:
                bad("closed-form", "rotation=False: expected scale*identity and centroid matching\n%r\ngot\n%r" % (href, h))
            return fails
        eref = fro(apply_h(href, s) - t)
        rref = href[:d, :d] / scale
        # competitors: scale * (grid rotation) about the centroids
        fails.extend(self._rotation_vs_ref(where, lin, rref, err, eref, gap, s0, t0, mirror, scl, member, noise, scale=scale))
        if gap >= MIN_GAP:
            e = np.abs(h - href).max()
            self._worst("closed-form:similarity", e * gap / scl)
            if e > self._t(TOL_CLOSED) * scl * max(1.0, scale) / gap:
                bad("closed-form", "h_matrix differs from centre/scale/least-squares-rotation reference by %.3g\nexpected\n%r\ngot\n%r" % (e, href, h))
        self.note("rot:%s:%s-target:det%+d" % ("mirror-allowed" if mirror else "mirror-forbidden", "reflected" if member[0] in ("refl", "simrefl") else "other", 1 if det > 0 else -1))
        return fails

    # ------------------------------------------------------------------ piecewise affine
    def _pwa_clauses(self, cls, where, al, s, t, a1, scl, member, noise, hm):
        fails = []
        n = len(s)

        def bad(clause, detail):
            fails.append(Failure(where, clause, "member=%r noise=%r n=%d: %s" % (member, noise, n, detail)))

        e = np.abs(a1 - t).max()
        self._worst("pwa-interpolation", e / scl)
        self.note("pwa:interpolates")
        if e > self._t(TOL_PWA) * scl:
            bad("interpolate", "apply(source) misses the target landmarks by %.3g" % e)
        tri = np.asarray(al.trilist)
        if tri.ndim != 2 or tri.shape[1] != 3 or tri.min() < 0 or tri.max() >= n:
            bad("triangulation", "trilist %r" % (tri,))
            return fails
        # (a) affine inside each source triangle: barycentric combinations go to the same combinations
        pts, exp = [], []
        for a, b, c in tri:
            for w in BARY:
                pts.append(w[0] * s[a] + w[1] * s[b] + w[2] * s[c])
                exp.append(w[0] * t[a] + w[1] * t[b] + w[2] * t[c])
        pts, exp = np.array(pts), np.array(exp)
        try:
            got = np.asarray(al.apply(pts.copy()))
        except Exception as ex:  # noqa
            if type(ex).__name__ != "TriangleContainmentError":
                raise
            out = np.asarray(ex.points_outside_source_domain)
            k = int(np.nonzero(out)[0][0])
            bad("triangle-affine", "interior point of triangle %r (weights %r) rejected as outside the source triangles" % (tuple(tri[k // len(BARY)]), BARY[k % len(BARY)]))
            return fails
        lip = self._lipschitz(s, t, tri)
        e = np.abs(got - exp).max()
        self._worst("pwa-triangle-affine", e / (scl * max(1.0, lip)))
        self.note("pwa:triangle-affine")
        if e > self._t(TOL_PWA_IN) * scl * max(1.0, lip):
            k = int(np.abs(got - exp).max(axis=1).argmax())
            bad("triangle-affine", "triangle %r weights %r: expected %r got %r" % (tuple(tri[k // len(BARY)]), BARY[k % len(BARY)], exp[k], got[k]))
        # the same through PointCloud / one point at a time (no batch or cache effect on the value)
        one = np.vstack([np.asarray(al.apply(p[None].copy())) for p in pts[:: max(1, len(pts) // 5)]])
        if not np.array_equal(one, got[:: max(1, len(pts) // 5)]):
            bad("triangle-affine", "a point mapped alone differs from the same point mapped in a batch")
        # (b) continuity across every shared edge: midpoint +- eps along the normal
        edges = {}
        for k, row in enumerate(tri):
            for i in range(3):
                key = tuple(sorted((int(row[i]), int(row[(i + 1) % 3]))))
                edges.setdefault(key, []).append(k)
        shared = [k for k, v in edges.items() if len(v) >= 2]
        for (i, j) in shared:
            mid = 0.5 * (s[i] + s[j])
            nrm = np.array([-(s[j] - s[i])[1], (s[j] - s[i])[0]])
            nrm = nrm / np.linalg.norm(nrm)
            eps = EPS_EDGE if self._k == 1.0 else 1e-3  # float32 sources resolve ~1e-6 of the coordinates
            pp = np.array([mid + eps * nrm, mid - eps * nrm, mid + 0.3 * eps * nrm])
            gotp = np.asarray(al.apply(pp.copy()))
            refp = ref_pwa(s, t, tri, pp)
            jump = np.abs(gotp[0] - gotp[1]).max()
            self.note("pwa:shared-edge")
            if jump > 2 * eps * lip * 2 + self._t(1e-12) * scl:
                bad("edge-continuous", "edge (%d,%d): images of midpoint +- %g n differ by %.3g (Lipschitz bound %.3g)" % (i, j, eps, jump, lip))
            for g, r in zip(gotp, refp):
                if r is None or np.abs(g - r).max() > self._t(TOL_PWA_IN) * scl * max(1.0, lip):
                    bad("triangle-affine", "near edge (%d,%d): expected %r got %r" % (i, j, r, g))
                    break
            # the edge midpoint itself belongs to both triangles: either gives the midpoint of the target edge
            try:
                gm = np.asarray(al.apply(mid[None].copy()))[0]
                self.note("pwa:edge-midpoint:mapped")
                if np.abs(gm - 0.5 * (t[i] + t[j])).max() > self._t(TOL_PWA_IN) * scl * max(1.0, lip):
                    bad("edge-continuous", "edge (%d,%d): midpoint maps to %r, target edge midpoint %r" % (i, j, gm, 0.5 * (t[i] + t[j])))
            except Exception as ex:  # noqa - a rounding-level containment miss on the edge itself is only counted
                if type(ex).__name__ != "TriangleContainmentError":
                    raise
                self.note("pwa:edge-midpoint:TriangleContainmentError")
        if not shared:
            self.note("pwa:no-shared-edge")
        # (c) member of the family: an affine image is reproduced everywhere in the domain
        if hm is not None and noise == 0.0 and self._exact:
            e = np.abs(got - apply_h(hm, pts)).max()
            self._worst("recover:" + cls, e / scl)
            self.note("recover:%s" % cls)
            if e > self._t(TOL_RECOVER) * scl:
                bad("recover", "target is an affine image of the source, but the warp differs from that map by %.3g inside the domain" % e)
        # (d) points of the convex hull are mapped by the triangle that contains them (reference search); a point
        # that lies on a triangle edge to rounding may be refused (counted, like the edge midpoints above)
        hullp = np.array([s.mean(axis=0), 0.5 * s.mean(axis=0) + 0.5 * s[0], 0.7 * s.mean(axis=0) + 0.3 * s[-1]])
        refh = ref_pwa(s, t, tri, hullp)
        for p_, r_ in zip(hullp, refh):
            if r_ is None:
                continue
            try:
                g_ = np.asarray(al.apply(p_[None].copy()))[0]
            except Exception as ex:  # noqa
                if type(ex).__name__ != "TriangleContainmentError":
                    raise
                if edge_margin(s, tri, p_) < 1e-9:
                    self.note("pwa:hull-point-on-edge:TriangleContainmentError")
                else:
                    bad("triangle-affine", "point %r strictly inside a source triangle is rejected as outside the domain" % (p_,))
                continue
            self.note("pwa:hull-points")
            if np.abs(g_ - r_).max() > self._t(TOL_PWA_IN) * scl * max(1.0, lip):
                bad("triangle-affine", "point %r of the convex hull: expected %r got %r" % (p_, r_, g_))
        return fails

    @staticmethod
    def _lipschitz(s, t, tri):
        best = 0.0
        for a, b, c in tri:
            ms = np.array([s[b] - s[a], s[c] - s[a]]).T
            mt_ = np.array([t[b] - t[a], t[c] - t[a]]).T
            j = mt_.dot(np.linalg.inv(ms))
            best = max(best, float(np.linalg.norm(j, 2)))
        return best

    # ------------------------------------------------------------------ generalized procrustes
    def _apply_gpa(self, st, op, verify):
        from menpo.shape import PointCloud
        from menpo.transform import GeneralizedProcrustesAnalysis

        cls, d = st["cls"], st["d"]
        if op[0] == "gpaf":
            _, k, noise, fs, ft = op
            self.note("form:%s>%s" % (fs, ft))
        else:
            _, k, noise = op
            fs = ft = "f64"
        self._k = F32_K if "f32" in (fs, ft) else 1.0
        self._form = (fs, ft)
        name, triple = gpa_triples(d)[k]
        base = st["S"].copy()
        ints = fs in INT_FORMS or ft in INT_FORMS
        kk = INT_SCALE if ints else 1.0
        if ints:
            base = np.rint(kk * base)
        shapes = []
        for i, m in enumerate(triple):
            if member_h(m, d) is None:
                x = kk * self._source(d, "g%d" % len(base), salt=("c07-arb", m[1])) + noise * kk * self._noise_dir(len(base), d, i + 1)
            else:
                x = self._target(base, m, noise * kk, salt=i + 1)
            shapes.append(cast_values(np.rint(x) if fs in INT_FORMS else x, fs))
        self._exact = fs not in INT_FORMS
        pcs = []
        for x in shapes:
            px, cx = present(x, fs)
            pcs.append(PointCloud(px, copy=cx))
        mirror = cls == "GPAM"
        given = None
        if cls == "GPAT":
            base = cast_values(base, ft)
            pb, cb = present(base, ft)
            given = PointCloud(pb, copy=cb)
            gpa = GeneralizedProcrustesAnalysis(pcs, target=given)
        elif mirror:
            gpa = GeneralizedProcrustesAnalysis(pcs, allow_mirror=np.bool_(True) if fs == "npopt" else True)
        else:
            gpa = GeneralizedProcrustesAnalysis(pcs)
        st["level"] += 1
        st["S"] = np.array(gpa.transforms[-1].aligned_source().points, dtype=float)
        st["chain_ok"] = False
        if not verify:
            return []
        where = "%s/%dd" % (cls, d)
        fails = []
        n = len(base)

        def bad(clause, detail):
            fails.append(Failure(where, clause, "shapes=%s noise=%r n=%d: %s" % (name, noise, n, detail)))

        self.note("gpa:%s" % ("converged" if gpa.converged else "not-converged"))
        self.note("gpa:%s" % ("one-iteration" if gpa.n_iterations <= 2 else "several-iterations"))
        if len(gpa.transforms) != 3:
            bad("gpa-transforms", "%d transforms for 3 sources" % len(gpa.transforms))
            return fails
        tg = np.asarray(gpa.transforms[0].target.points).copy()
        if given is not None:
            if not np.array_equal(np.asarray(gpa.target.points), base) or not np.array_equal(given.points, base):
                bad("target-kept", "the target passed to the constructor is not the reported target")
        aligned = []
        errs = []
        for i, (tr, x) in enumerate(zip(gpa.transforms, shapes)):
            tp = np.asarray(tr.target.points)
            if not np.array_equal(tp, tg):
                bad("gpa-common-target", "transform %d is aligned to another target than transform 0" % i)
            if not np.array_equal(np.asarray(tr.source.points), x) or not np.array_equal(pcs[i].points, x):
                bad("source-kept", "source %d differs from the point set passed in" % i)
            a1 = np.asarray(tr.apply(x.copy()))
            a2 = np.asarray(tr.aligned_source().points)
            if not np.array_equal(a1, a2):
                bad("aligned-source", "transform %d: aligned_source() differs from apply(source)" % i)
            scl = max(1.0, float(np.abs(x).max()), float(np.abs(tp).max()))
            e = float(tr.alignment_error())
            eref = fro(tp - a1)
            if abs(e - eref) > self._t(TOL_ID) * scl * (1 + eref):
                bad("alignment-error", "transform %d: alignment_error()=%.12g but |target - aligned|=%.12g" % (i, e, eref))
            h = np.asarray(tr.h_matrix)
            if np.abs(apply_h(h, x) - a1).max() > self._t(TOL_ID) * scl * 10:
                bad("aligned-source", "transform %d: apply(source) differs from h_matrix applied to the source" % i)
            sub = self._similarity_clauses(where, h, x, tp, a1, eref, True, mirror, scl, triple[i], noise, tag="GPA")
            fails.extend(sub)
            aligned.append(a1)
            errs.append(eref)
        mae = float(gpa.mean_alignment_error())
        if abs(mae - sum(errs) / 3.0) > 1e-10 * self._k * (1 + mae):
            bad("alignment-error", "mean_alignment_error()=%.12g, mean of the three errors %.12g" % (mae, sum(errs) / 3.0))
        similar = all(m[0] in ("tr", "sc", "rot", "sim", "simnr") or (mirror and m[0] in ("refl", "simrefl")) for m in triple)
        if similar and noise == 0.0 and self._exact and given is None:
            spread = max(np.abs(aligned[i] - aligned[0]).max() for i in (1, 2))
            off = max(np.abs(a - tg).max() for a in aligned)
            self._worst("recover:GPA", max(spread, off))
            self.note("recover:%s" % cls)
            if spread > self._t(TOL_RECOVER) * 10 or off > 1e-5 * self._k:
                bad("recover", "the sources are similarity copies of one shape but the aligned sources differ by %.3g (from the target by %.3g)" % (spread, off))
        elif similar and noise == 0.0 and self._exact:
            # a given target that is itself a similarity copy: every source lands exactly on the converged target
            spread = max(np.abs(aligned[i] - aligned[0]).max() for i in (1, 2))
            self.note("recover:%s" % cls)
            if spread > self._t(TOL_RECOVER) * 10:
                bad("recover", "the sources are similarity copies of one shape but the aligned sources differ by %.3g" % spread)
        else:
            self.note("gpa:not-copies")
        return fails

    # ------------------------------------------------------------------ static oracle on the roots
    def check_root(self, st, root):
        """self-test of the reference models on exactly known answers (a wrong reference is a harness error)."""
        d = st["d"]
        s = st["S"]
        for m in member_letters(d, "small"):
            if m[0] not in ("rot", "refl"):
                continue
            hm = member_h(m, d)
            r, e, gap, improper = ref_rotation(s, apply_h(hm, s), mirror=True)
            if np.abs(r - hm[:d, :d]).max() > 1e-9 or improper != (m[0] == "refl"):
                raise HarnessError("reference rotation wrong for %r" % (m,))
            if grid_min_error(s, apply_h(hm, s), True) > fro(s) * (0.15 if d == 3 else 0.0023) * 2:
                raise HarnessError("rotation grid too coarse for %r" % (m,))
        return []

    # ------------------------------------------------------------------ reporting
    def vacuity(self, notes, stats):
        need = ["recover:%s" % c for c in HOMOG + TPS + PWA + GPA]
        need += [
            "optimal:param-grid",
            "optimal:rotation-grid:2d",
            "optimal:rotation-grid:3d",
            "rot:matrix-compared",
            "rot:mirror-forbidden:reflected-target:det+1",
            "rot:mirror-allowed:reflected-target:det-1",
            "rot:mirror-allowed:other-target:det+1",
            "size:US",
            "sim:no-rotation",
            "tps:interpolates",
            "pwa:interpolates",
            "pwa:triangle-affine",
            "pwa:shared-edge",
            "pwa:no-shared-edge",
            "pwa:hull-points",
            "error:zero",
            "error:nonzero",
            "gpa:converged",
            "gpa:several-iterations",
            "gpa:not-copies",
        ]
        need += ["centroid+size:%s" % c for c in ("Sim", "SimM", "SimNR", "SimNRM", "GPA")]
        need += ["form:%s>%s" % p for p in FORM_PAIRS]
        need += ["route:%s" % r for r in ROUTE_NAMES] + ["route:agrees-with-constructor"]
        need += ["order:%s:%s" % (k, pn) for k in ("source", "grid") for pn in PERMS]
        need += ["perm:reversed", "perm:shuffle", "perm:agrees-with-original-order"]
        need += ["scale:%g" % u for u in SCALES] + ["scale:%g:mirrored-target" % u for u in SCALES]
        need += ["route:%s:parameters-set" % r for r in ROUTES_VECTOR + ("set_rotation_matrix",)]
        need += ["refused:%s:ValueError" % k for k in ("set_target:n+1", "set_target:n-1", "set_target:dims", "apply:dims", "construct:n-mismatch", "construct:dims", "construct:3d", "gpa:one-source")]
        need += ["refused:apply:outside:TriangleContainmentError", "refused:apply:outside-batched:TriangleContainmentError", "refused:construct:singular:LinAlgError", "recheck:after-refused-calls"]
        need.append("form:integer-target-is-exact-image-of-noninteger-source")
        if self.tier == "thorough":
            need.append("chain:expanded")
        return ["outcome %s never produced" % n for n in need if not notes.get(n)]

    def rule(self):
        return (
            "every (class/option letter, source letter) root x every (family member, noise level) target: the real "
            "alignment is constructed and compared with closed-form references and exhaustive competitor grids; "
            "then refused calls (self loops) and a re-check on the same live alignment; "
            "thorough: the aligned source returned by menpo becomes the source of a second alignment (reduced member alphabet)"
        )

    def alphabet_sizes(self):
        return {
            "roots": len(self.roots()),
            "class_letters": len(HOMOG + TPS + PWA + GPA),
            "members_2d_level0": len(member_letters(2, "full" if self.tier == "quick" else "wide")),
            "members_3d_level0": len(member_letters(3, "full" if self.tier == "quick" else "wide")),
            "members_deeper_levels": len(member_letters(2, "small")),
            "noise_levels": list(NOISE[self.tier]),
            "noise_levels_deeper": list(NOISE_CHAIN),
            "gpa_triples": len(gpa_triples(2)),
            "routes": list(ROUTE_NAMES),
            "argument_form_pairs(source,target)": ["%s>%s" % p for p in FORM_PAIRS],
            "argument_form_members": list(FORM_FAMILIES),
            "argument_form_noise": list(NOISE_FORM),
            "argument_form_exclusions": {"%s:%s>%s" % k: v for k, v in self.FORM_EXCLUDED.items()},
            "rotation_grid_2d": 1440,
            "rotation_grid_3d": 2000,
            "param_grid_deltas": [1e-3, 1e-1],
        }

    def assumptions(self):
        return [
            "non-degenerate sources: pairwise distance >= 0.8 on a 6x6(x6) domain, 2-D triangle areas >= %.2f, 3-D smallest centred singular value >= 0.8" % MIN_AREA,
            "the optimal rotation is compared as a matrix only when its relative conditioning gap is >= %g (always through its error and the competitor grid)" % MIN_GAP,
            "tolerances: recover %g, closed form %g/gap, grid %g, TPS %g, PWA vertices %g, PWA interior %g (all relative to the coordinate scale)" % (TOL_RECOVER, TOL_CLOSED, TOL_GRID, TOL_TPS, TOL_PWA, TOL_PWA_IN),
            "centroid clause applied to similarity alignments only; uniform scale: size clause (DESIGN.md [interp])",
            "deeper levels are expanded only behind an affine-family member with noise level 0 or 0.1 and while the chained source passes the guard (distance >= %g, area >= %g, singular value >= %g)" % (GUARD_DIST, GUARD_AREA, GUARD_SV),
            "GPA: the clauses of the similarity alignment are applied to every returned transform against the target it reports; convergence itself is recorded, not demanded",
            "refused-call letters act on the live alignment built by a float64 'align' op with noise 0 or 0.1 (level 1, self loops); expected refusals: ValueError (set_target / apply / constructor with wrong size or dimensionality, TPS / PWA on 3-D data, GPA with one source), TriangleContainmentError with the exact outside mask (PWA), numpy LinAlgError (affine fit of collinear points); PWA from a 3-D PointCloud is not a letter (scipy's Qhull decides the outcome before menpo's check)",
            "order letters: permutations reversed / rotated by one / fixed shuffle; probe grid = multiples of 1/2 inside the source's bounding box (strictly inside a source triangle for PWA, at most 12 points), whose column sums are exact in any order; permuted correspondences at construction for the single alignments (GPA: not permuted - its iteration stops at a 1e-6 threshold, so only the per-transform clauses apply)",
            "magnitude letters: the homogeneous alignment classes on the 4-point sources (2-D and 3-D), reduced members (mirrored targets included) x noise 0 / 0.1 with coordinates, member translation and noise multiplied by %s; all clauses are evaluated relative to that unit (no absolute epsilon); TPS (absolute min_singular_val), GPA (absolute 1e-6 stopping rule) and PWA are not given magnitude letters" % (SCALES,),
            "routes (level 0, reduced member alphabet x noise 0 / 0.1): %s; after from_vector / from_vector_inplace / set_rotation_matrix the target must be the aligned source and the error 0, then set_target(T) gets the full oracle; 2-D rotations and 3-D similarities are not vectorizable in menpo (NotImplementedError) and reflections have no rotation / similarity parameter vector, so those routes are not letters there; every alignment also answers apply(batch_size=2) and as_non_alignment() consistently" % ", ".join(ROUTE_NAMES),
            "argument forms (level 0, members %s, noise %s): float32 / int64 / int32 / int16 / uint8 payload (integer forms: the generic points x %g rounded; an integer target with a non-integer source is the exact image, source = member^-1(target)), python lists / tuples, read-only, non-contiguous and Fortran-ordered arrays (copy=False), options as numpy bools; the reference works in float64 on exactly the values passed; float32 letters use tolerances of 1e-3..1e-4; combinations the unchanged tree mishandles (listed under argument_form_exclusions) are not letters" % (", ".join(FORM_FAMILIES), NOISE_FORM, INT_SCALE),
            "noise = level x one fixed direction per (n, d) drawn from the seed; 'arbitrary' targets are unrelated generic point sets",
        ]


CHECK = C07
