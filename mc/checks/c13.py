"""C13 - crops and patches are pixel-exact and honour their boundary contract.

Crop part   : roots = image letters (class x dims x dtype x channels, all pixel values distinct); ops = every
              box from a per-axis letter set (each side separately inside / fractional / outside) x constrain
              on/off (+ crop_to_true_mask); the result of a crop is a new state, cropped again at depth 2.
              Reference: plain slicing src[:, floor(min):ceil(max)], landmarks shifted, mask sliced alike.
Patch part  : roots = 2-D images with 1..5 channels; ops = (patch shape x offset set x path) evaluated on
              EVERY integer centre from -2 to S+1 on both axes in one call; per-pixel reference with the
              fill value outside; fractional-centre letters per path; extract -> set round trips.
"""
import itertools

import numpy as np

from mc.core import Check, Failure
from mc.letters import rs
from mc.observe import obs_diff, obs_key, observe

PATCH_SHAPES = [(1, 1), (2, 2), (3, 3), (4, 2), (3, 5), (2, 3)]
OFFSET_SETS = {"none": None, "zero": [[0, 0]], "three": [[0, 0], [1, -1], [-2, 3]]}


def distinct_pixels(c, shp, dtype, seed, salt):
    n = int(c * np.prod(shp))
    perm = rs(seed, "c13px", salt).permutation(n)
    if dtype == "uint8":
        # all distinct while they fit into 8 bits, otherwise distinct modulo a prime (two equal values are far apart)
        vals = (perm % 251).astype(np.uint8)
    elif dtype == "bool":
        raise ValueError
    else:
        vals = perm.astype(dtype) + 0.25
    return vals.reshape((c,) + tuple(shp))


# ------------------------------------------------------------------------------------------------
def crop_image_letters(tier):
    out = [
        ("Image", (5, 6), 1, "uint8"),
        ("Image", (5, 6), 3, "float64"),
        ("Image", (5, 6), 5, "uint8"),
        ("Image", (5, 6), 4, "float32"),
        ("MaskedImage", (5, 6), 2, "float64"),
        ("BooleanImage", (5, 6), 1, "bool"),
        ("Image", (3, 4, 5), 1, "uint8"),
        ("MaskedImage", (3, 4, 5), 2, "float64"),
        ("BooleanImage", (3, 4, 5), 1, "bool"),
    ]
    return out


def axis_letters(S, size):
    if size == "full":
        mins = [-2, -0.5, 0, 0.4, 1, 2.7, S + 0.5]
        maxs = [-0.5, 2, 3.2, S - 1, S, S + 0.5, S + 3]
    elif size == "mid":
        mins = [-0.5, 0, 0.4, 1, S + 0.5]
        maxs = [-0.5, 2, 3.2, S, S + 0.5]
    else:
        mins = [-0.5, 0, 1.4]
        maxs = [2.2, S, S + 3]
    return [(a, b) for a in mins for b in maxs if b > a]


class C13(Check):
    id = "C13"
    title = "crops and patches are pixel-exact and honour their boundary contract"

    def depth(self):
        return 1 if self.tier == "quick" else 2

    # ------------------------------------------------------------------ roots
    def roots(self):
        out = []
        for spec in crop_image_letters(self.tier):
            nd = len(spec[1])
            # the box alphabet of one image is split in shards along the first axis letters
            n_sh = 4 if nd == 2 else 8
            for s in range(n_sh):
                out.append(("crop",) + spec + (s, n_sh))
        # one image with a very LONG axis (indices of the order 1e5: an overshoot of one pixel is tiny relative to them)
        out.append(("cropbig", "Image", (3, 150000), 1, "uint8", 0, 1))
        out.append(("cropbig", "MaskedImage", (120000, 3), 1, "uint8", 0, 1))
        for c in (1, 2, 3, 4, 5):
            for dt in ("uint8", "float64"):
                out.append(("patch", "Image", (7, 8), c, dt))
        out.append(("patch", "MaskedImage", (7, 8), 2, "float64"))
        out.append(("patch", "BooleanImage", (7, 8), 1, "bool"))
        return out

    def build(self, root):
        from menpo.image import BooleanImage, Image, MaskedImage
        from menpo.shape import PointCloud

        part, kind, shp, c, dt = root[0], root[1], tuple(root[2]), root[3], root[4]
        r = rs(self.seed, "c13", kind, shp, c, dt)
        mask = None
        if kind == "BooleanImage":
            mask = r.rand(*shp) > 0.4
            mask.flat[0] = True
            mask.flat[-1] = False
            im = BooleanImage(mask.copy())
            px = mask[None].copy()
        else:
            px = distinct_pixels(c, shp, dt, self.seed, (kind, shp, c, dt))
            if kind == "Image":
                im = Image(px.copy())
            else:
                mask = np.zeros(shp, dtype=bool)
                # sparse mask away from the low border on axis 0 and touching the high border on the last axis
                inner = tuple(slice(1, s) for s in shp)
                mask[inner] = r.rand(*[s - 1 for s in shp]) > 0.35
                mask[tuple(1 for _ in shp)] = True
                mask[tuple(s - 1 for s in shp)] = True
                im = MaskedImage(px.copy(), mask=mask.copy())
        lm = 0.3 + r.rand(4, len(shp)) * (np.array(shp) - 1.6)
        im.landmarks["pc"] = PointCloud(lm.copy())
        st = {
            "part": part,
            "img": im,
            "ref_px": px,
            "ref_mask": mask if kind == "MaskedImage" else None,
            "ref_lm": lm,
            "kind": kind,
            "level": 0,
            "shard": (root[5], root[6]) if part in ("crop", "cropbig") else None,
        }
        return st

    def canon(self, st):
        return (st["part"], st["kind"], st["ref_px"].shape, st["ref_px"].tobytes(), None if st["ref_mask"] is None else st["ref_mask"].tobytes(), obs_key(st["ref_lm"]))

    # ------------------------------------------------------------------ alphabet
    def ops(self, st, level):
        if st["part"] == "crop":
            return self._crop_ops(st, level)
        if st["part"] == "cropbig":
            if level > 0:
                return []
            shp = st["ref_px"].shape[1:]
            ax = int(np.argmax(shp))
            S = shp[ax]
            out = []
            for lo, hi in ((0.0, float(S)), (10.0, S + 1.0), (10.0, S + 0.4), (-1.0, 100.0), (1.4, S - 2.5), (S - 5.0, S + 2.0)):
                for con in (False, True):
                    mn = [0.0, 0.0]
                    mx = [float(x) for x in shp]
                    mn[ax], mx[ax] = lo, hi
                    out.append(("crop", tuple(mn), tuple(mx), con))
            return out
        return self._patch_ops(st) if level == 0 else []

    def _crop_ops(self, st, level):
        shp = st["ref_px"].shape[1:]
        if min(shp) < 3:
            return []
        nd = len(shp)
        if level == 0:
            size = "full" if nd == 2 else ("mid" if self.tier == "thorough" else "small")
        else:
            size = "small"
        per_axis = [axis_letters(S, size) for S in shp]
        boxes = list(itertools.product(*per_axis))
        if level == 0 and st["shard"]:
            s, n = st["shard"]
            boxes = [b for i, b in enumerate(boxes) if i % n == s]
        out = []
        for b in boxes:
            mn = tuple(float(x[0]) for x in b)
            mx = tuple(float(x[1]) for x in b)
            for con in (False, True):
                out.append(("crop", mn, mx, con))
        if st["kind"] == "MaskedImage" and (not st["shard"] or st["shard"][0] == 0 or level > 0):
            for bnd in (0, 1, 3):
                for con in (False, True):
                    out.append(("crop_to_true_mask", bnd, con))
        # the other routes into the crop family: bounds taken from the landmarks / a pointcloud, with a pixel margin or
        # a margin proportional to the smallest / largest extent; each must honour the same boundary contract
        if not st["shard"] or st["shard"][0] == 0 or level > 0:
            for con in (False, True):
                for route in ("crop_to_landmarks", "crop_to_pointcloud"):
                    for bnd in (0, 2, 40):
                        out.append(("crop_route", route, bnd, None, con))
                for route in ("crop_to_landmarks_proportion", "crop_to_pointcloud_proportion"):
                    for prop in (0.0, 0.5, 20.0):
                        for minimum in (True, False):
                            out.append(("crop_route", route, prop, minimum, con))
        return out

    def _patch_ops(self, st):
        out = []
        for ps in PATCH_SHAPES:
            for oname in ("none", "zero", "three"):
                for cval in (0, 7):
                    out.append(("extract", ps, oname, "slice", cval))
                out.append(("extract", ps, oname, "sample0", 0))
                out.append(("extract-list", ps, oname))
                for frac in (0.2, 0.7):
                    out.append(("extract-frac", ps, oname, frac, "slice"))
                    for order in (0, 1):
                        for mode in ("constant", "nearest"):
                            out.append(("extract-frac", ps, oname, frac, "sample", order, mode))
                n_off = 1 if oname == "none" else len(OFFSET_SETS[oname])
                for j in range(n_off):
                    out.append(("roundtrip", ps, oname, j))
                if oname == "three":
                    # the SAME offsets / centres array objects reused for two calls and edited in place between them
                    for order in (0, 1):
                        out.append(("extract-reused-arrays", ps, order))
                # one call per centre (the batched calls above hide anything that depends on the SET of centres)
                for order in (0, 1):
                    for mode in ("constant", "nearest"):
                        out.append(("extract-single", ps, oname, order, mode))
        return out

    def is_query(self, op):
        return op[0] in ("extract", "extract-list", "extract-frac", "roundtrip", "extract-single", "extract-reused-arrays")

    # ------------------------------------------------------------------ transitions
    def apply(self, st, op, verify=True):
        if op[0] in ("crop", "crop_to_true_mask", "crop_route"):
            return self._apply_crop(st, op, verify)
        before = observe(st["img"]) if verify else None
        fails = getattr(self, "_apply_" + op[0].replace("-", "_"))(st, op, verify)
        if verify:
            d = obs_diff(before, observe(st["img"]))
            if d:
                fails.append(Failure(op[0], "input-mutated", d))
        return fails

    # ---- crop
    def _apply_crop(self, st, op, verify):
        from menpo.image import ImageBoundaryError

        img = st["img"]
        px, mask, lm = st["ref_px"], st["ref_mask"], st["ref_lm"]
        S = np.array(px.shape[1:])
        if op[0] == "crop":
            mn, mx, con = np.array(op[1]), np.array(op[2]), op[3]
            where = "crop"
        elif op[0] == "crop_route":
            route, par, minimum, con = op[1], op[2], op[3], op[4]
            rng = lm.max(axis=0) - lm.min(axis=0)
            bnd = par if minimum is None else par * (rng.min() if minimum else rng.max())
            mn, mx = lm.min(axis=0) - bnd, lm.max(axis=0) + bnd
            where = route
        else:
            bnd, con = op[1], op[2]
            idx = np.argwhere(mask)
            mn, mx = idx.min(axis=0) - bnd, idx.max(axis=0) + bnd
            where = "crop_to_true_mask"
        lo = np.floor(mn).astype(int)
        hi = np.ceil(mx).astype(int)
        inside = bool(np.all(lo >= 0) and np.all(hi <= S))
        clo, chi = np.maximum(lo, 0), np.minimum(hi, S)
        empty = bool(np.any(chi <= clo))
        before = observe(img) if verify else None
        exc = res = tr = None
        try:
            if op[0] == "crop":
                res, tr = img.crop(mn.copy(), mx.copy(), constrain_to_boundary=con, return_transform=True)
            elif op[0] == "crop_route":
                from menpo.shape import PointCloud

                kw = {"constrain_to_boundary": con, "return_transform": True}
                if route == "crop_to_landmarks":
                    res, tr = img.crop_to_landmarks(group="pc", boundary=par, **kw)
                elif route == "crop_to_pointcloud":
                    res, tr = img.crop_to_pointcloud(PointCloud(lm.copy()), boundary=par, **kw)
                elif route == "crop_to_landmarks_proportion":
                    res, tr = img.crop_to_landmarks_proportion(par, group="pc", minimum=minimum, **kw)
                else:
                    res, tr = img.crop_to_pointcloud_proportion(PointCloud(lm.copy()), par, minimum=minimum, **kw)
            else:
                res, tr = img.crop_to_true_mask(boundary=bnd, constrain_to_boundary=con, return_transform=True)
        except ImageBoundaryError as e:
            exc = e
        except Exception as e:  # noqa
            if inside or (con and not empty):
                raise
            exc = e
        fails = []
        if verify:
            d = obs_diff(before, observe(img))
            if d:
                fails.append(Failure(where, "input-mutated", d))
        if not inside and not con:
            self.note("%s:refused-expected" % where)
            if st["part"] == "cropbig" and np.any(hi == S + 1):
                self.note("cropbig:one-past-the-far-edge")
            if verify and not isinstance(exc, ImageBoundaryError):
                got = "returned shape %s" % (res.pixels.shape,) if res is not None else repr(exc)
                sides = "low side out on axes %s, high side out on axes %s" % (np.nonzero(lo < 0)[0].tolist(), np.nonzero(hi > S)[0].tolist())
                fails.append(Failure(where, "not-refused", "box %s..%s on shape %s (%s), constrain off: expected ImageBoundaryError, %s" % (mn, mx, tuple(S), sides, got)))
            return fails
        if empty:
            # box wholly outside with constraining: must not yield pixels (error or empty both accepted)
            self.note("%s:wholly-outside" % where)
            if verify and res is not None and res.pixels.size != 0:
                fails.append(Failure(where, "pixels-from-outside", "box %s..%s wholly outside %s returned shape %s" % (mn, mx, tuple(S), res.pixels.shape)))
            return fails
        self.note("%s:%s" % (where, "inside" if inside else "clipped"))
        if exc is not None:
            if verify:
                fails.append(Failure(where, "refused-legal-crop", "box %s..%s on %s constrain=%s raised %r" % (mn, mx, tuple(S), con, exc)))
            return fails
        sl = (slice(None),) + tuple(slice(a, b) for a, b in zip(clo, chi))
        exp_px = px[sl]
        exp_lm = lm - clo
        exp_mask = None if mask is None else mask[sl[1:]]
        if verify:
            if type(res) is not type(img):
                fails.append(Failure(where, "class", "%s -> %s" % (type(img).__name__, type(res).__name__)))
            if res.pixels.shape != exp_px.shape:
                fails.append(Failure(where, "shape", "box %s..%s constrain=%s: expected %s got %s" % (mn, mx, con, exp_px.shape, res.pixels.shape)))
            elif res.pixels.dtype != exp_px.dtype:
                fails.append(Failure(where, "dtype", "expected %s got %s" % (exp_px.dtype, res.pixels.dtype)))
            elif not np.array_equal(res.pixels, exp_px):
                fails.append(Failure(where, "pixels", "box %s..%s constrain=%s on %s: %d pixels differ from src[lo:hi]" % (mn, mx, con, tuple(S), int((res.pixels != exp_px).sum()))))
            if not fails:
                got_lm = res.landmarks["pc"].points
                if got_lm.shape != exp_lm.shape or np.abs(got_lm - exp_lm).max() > 1e-12:
                    fails.append(Failure(where, "landmarks", "box %s..%s: landmarks not shifted by %s (max err %.3g)" % (mn, mx, clo, np.abs(got_lm - exp_lm).max())))
                if exp_mask is not None and not np.array_equal(res.mask.pixels[0], exp_mask):
                    fails.append(Failure(where, "mask", "box %s..%s: mask is not the sliced mask" % (mn, mx)))
                probe = np.vstack([np.zeros(len(S)), exp_lm])
                back = tr.apply(probe)
                if np.abs(back - (probe + clo)).max() > 1e-12:
                    fails.append(Failure(where, "transform", "returned transform does not map result to source coordinates"))
        if fails:
            return fails
        st["img"], st["ref_px"], st["ref_lm"], st["ref_mask"] = res, exp_px, exp_lm, exp_mask
        st["level"] += 1
        st["shard"] = None
        return fails

    # ---- patches
    def _centres(self, st):
        S = st["ref_px"].shape[1:]
        return np.array([[i, j] for i in range(-2, S[0] + 2) for j in range(-2, S[1] + 2)], dtype=float)

    @staticmethod
    def _ref_slice(px, cents, ps, offs, cval):
        """per-pixel reference of the slicing path (rounding of the patch's low corner)."""
        O = np.zeros((1, 2)) if offs is None else np.asarray(offs, dtype=float)
        C, H, W = px.shape
        out = np.full((len(cents), len(O), C, ps[0], ps[1]), cval, dtype=px.dtype)
        for ci, c in enumerate(cents):
            for oi, o in enumerate(O):
                lo0 = int(np.round(c[0] + o[0] + (ps[0] % 2) / 2 - ps[0] / 2))
                lo1 = int(np.round(c[1] + o[1] + (ps[1] % 2) / 2 - ps[1] / 2))
                for i in range(ps[0]):
                    y = lo0 + i
                    if not 0 <= y < H:
                        continue
                    for j in range(ps[1]):
                        x = lo1 + j
                        if 0 <= x < W:
                            out[ci, oi, :, i, j] = px[:, y, x]
        return out

    def _extract(self, st, ps, oname, cents, path, order=0, mode="constant", cval=0):
        from menpo.image.patches import extract_patches_by_sampling
        from menpo.shape import PointCloud

        offs = OFFSET_SETS[oname]
        offs_a = None if offs is None else np.array(offs)
        if path == "slice":
            return st["img"].extract_patches(PointCloud(cents), patch_shape=ps, sample_offsets=offs_a, cval=cval)
        if path == "sample0":
            return extract_patches_by_sampling(st["img"].pixels, cents, ps, offsets=offs_a, order=0, mode="constant", cval=cval)
        return st["img"].extract_patches(PointCloud(cents), patch_shape=ps, sample_offsets=offs_a, order=order, mode=mode, cval=cval)

    def _apply_extract(self, st, op, verify):
        _, ps, oname, path, cval = op
        px = st["ref_px"]
        cents = self._centres(st)
        offs = OFFSET_SETS[oname]
        n_off = 1 if offs is None else len(offs)
        if px.dtype == bool:
            cval = bool(cval)
        got = self._extract(st, ps, oname, cents, path, cval=cval)
        self.note("extract:%s-c%d" % (path, px.shape[0]))
        if not verify:
            return []
        where = "extract-" + path
        exp_shape = (len(cents), n_off, px.shape[0], ps[0], ps[1])
        if got.shape != exp_shape:
            return [Failure(where, "shape", "channels=%d patch=%s offsets=%s: expected %s got %s" % (px.shape[0], ps, oname, exp_shape, got.shape))]
        ref = self._ref_slice(px, cents, ps, offs, cval)
        if not np.array_equal(np.asarray(got), ref):
            bad = np.argwhere(np.asarray(got) != ref)[0]
            return [Failure(where, "pixels", "channels=%d patch=%s offsets=%s cval=%s: first differing entry (centre#,offset#,ch,i,j)=%s centre=%s; %d entries differ" % (px.shape[0], ps, oname, cval, bad.tolist(), cents[bad[0]].tolist(), int((np.asarray(got) != ref).sum())))]
        if got.dtype != px.dtype:
            return [Failure(where, "dtype", "expected %s got %s" % (px.dtype, got.dtype))]
        self.note("extract:outside-filled" if (ref == cval).any() else "extract:no-outside")
        return []

    def _apply_extract_list(self, st, op, verify):
        from menpo.image import Image
        from menpo.shape import PointCloud

        _, ps, oname = op
        px = st["ref_px"]
        cents = self._centres(st)
        offs = OFFSET_SETS[oname]
        offs_a = None if offs is None else np.array(offs)
        n_off = 1 if offs is None else len(offs)
        got = st["img"].extract_patches(PointCloud(cents), patch_shape=ps, sample_offsets=offs_a, as_single_array=False)
        self.note("extract-list:c%d" % px.shape[0])
        if not verify:
            return []
        ref = self._ref_slice(px, cents, ps, offs, 0)
        if not isinstance(got, list) or len(got) != len(cents) * n_off:
            return [Failure("extract-list", "shape", "expected a list of %d images" % (len(cents) * n_off))]
        k = 0
        for ci in range(len(cents)):
            for oi in range(n_off):
                g = got[k]
                k += 1
                if not isinstance(g, Image) or g.pixels.shape != ref[ci, oi].shape or not np.array_equal(g.pixels, ref[ci, oi]):
                    return [Failure("extract-list", "pixels", "list element %d (centre %s offset #%d) differs from the reference patch" % (k - 1, cents[ci].tolist(), oi))]
        return []

    def _apply_extract_frac(self, st, op, verify):
        ps, oname, frac, path = op[1], op[2], op[3], op[4]
        px = st["ref_px"]
        cents = self._centres(st) + frac
        offs = OFFSET_SETS[oname]
        if path == "slice":
            got = self._extract(st, ps, oname, cents, "slice", cval=0)
            self.note("extract-frac:slice")
            if not verify:
                return []
            ref = self._ref_slice(px, cents, ps, offs, 0)
            if got.shape != ref.shape or not np.array_equal(got, ref):
                return [Failure("extract-frac-slice", "pixels", "patch=%s offsets=%s centres+%.1f: slicing path differs from the rounding reference" % (ps, oname, frac))]
            return []
        order, mode = op[5], op[6]
        if px.dtype == bool:
            return []
        got = self._extract(st, ps, oname, cents, "sample", order=order, mode=mode, cval=0)
        self.note("extract-frac:sample-o%d-%s" % (order, mode))
        if not verify:
            return []
        O = np.zeros((1, 2)) if offs is None else np.asarray(offs, dtype=float)
        C, H, W = px.shape
        exp_shape = (len(cents), len(O), C, ps[0], ps[1])
        if got.shape != exp_shape:
            return [Failure("extract-frac-sample", "shape", "channels=%d patch=%s: expected %s got %s" % (C, ps, exp_shape, got.shape))]
        pxf = px.astype(float)
        # sampling grid of the documented centred patch: -ps/2 + k + half pixel for odd sizes
        g0 = -ps[0] / 2.0 + np.arange(ps[0]) + (ps[0] % 2) / 2.0
        g1 = -ps[1] / 2.0 + np.arange(ps[1]) + (ps[1] % 2) / 2.0
        n_checked = 0
        for ci, c in enumerate(cents):
            for oi, o in enumerate(O):
                for i in range(ps[0]):
                    y = c[0] + o[0] + g0[i]
                    for j in range(ps[1]):
                        x = c[1] + o[1] + g1[j]
                        interior = 0 <= y <= H - 1 and 0 <= x <= W - 1
                        if mode == "nearest":
                            yy, xx = min(max(y, 0), H - 1), min(max(x, 0), W - 1)
                        elif interior:
                            yy, xx = y, x
                        elif y < -1 or y > H or x < -1 or x > W:
                            if np.any(got[ci, oi, :, i, j] != 0):
                                return [Failure("extract-frac-sample", "fill-value", "sample point (%.2f,%.2f) far outside the image is not the fill value" % (y, x))]
                            n_checked += 1
                            continue
                        else:
                            continue
                        if order == 0:
                            fy, fx = yy - np.floor(yy), xx - np.floor(xx)
                            if abs(fy - 0.5) < 0.05 or abs(fx - 0.5) < 0.05:
                                continue
                            exp = pxf[:, int(np.floor(yy + 0.5)), int(np.floor(xx + 0.5))]
                        else:
                            y0, x0 = int(np.floor(yy)), int(np.floor(xx))
                            y1, x1 = min(y0 + 1, H - 1), min(x0 + 1, W - 1)
                            fy, fx = yy - y0, xx - x0
                            exp = (1 - fy) * (1 - fx) * pxf[:, y0, x0] + (1 - fy) * fx * pxf[:, y0, x1] + fy * (1 - fx) * pxf[:, y1, x0] + fy * fx * pxf[:, y1, x1]
                        g = got[ci, oi, :, i, j].astype(float)
                        tol = 1e-9 if px.dtype.kind == "f" else 1.0
                        if np.abs(g - exp).max() > tol:
                            return [Failure("extract-frac-sample", "pixels", "order %d mode %s patch=%s offsets=%s channels=%d: sample point (%.2f,%.2f) expected %s got %s" % (order, mode, ps, oname, C, y, x, exp, g))]
                        n_checked += 1
        self.note("extract-frac:points-checked", n_checked)
        return []

    def _apply_extract_reused_arrays(self, st, op, verify):
        """two extractions through the resampling path (mode 'nearest') and the slicing path with the same offsets and
        centres ARRAY OBJECTS, whose contents are replaced in place between the calls: the second result must be the one
        of the new contents (anything memoised on the identity or shape of an argument would return the first)"""
        from menpo.shape import PointCloud

        _, ps, order = op
        px = st["ref_px"]
        if px.dtype == bool and order == 1:
            return []
        C, H, W = px.shape
        img = st["img"]
        offs = np.array(OFFSET_SETS["three"], dtype=float)
        cents = np.array([[2.0, 3.0], [4.0, 4.0], [1.0, 6.0]])
        pc = PointCloud(cents, copy=False)
        second_offs = np.array([[1, 0], [0, 2], [-1, -1]], dtype=float)
        second_cents = np.array([[3.0, 2.0], [5.0, 5.0], [2.0, 1.0]])
        fails = []
        self.note("extract-reused:o%d" % order)
        lo_r, lo_c = -(ps[0] // 2), -(ps[1] // 2)

        def ref(cs, os_):
            out = np.zeros((len(cs), len(os_), C, ps[0], ps[1]), dtype=float)
            for ci, c in enumerate(cs):
                for oi, o in enumerate(os_):
                    ys = np.clip(int(c[0] + o[0]) + lo_r + np.arange(ps[0]), 0, H - 1)
                    xs = np.clip(int(c[1] + o[1]) + lo_c + np.arange(ps[1]), 0, W - 1)
                    out[ci, oi] = px[:, ys][:, :, xs]
            return out

        for step in (0, 1):
            got = np.asarray(img.extract_patches(pc, patch_shape=ps, sample_offsets=offs, order=order, mode="nearest"), dtype=float)
            want = ref(pc.points, offs)
            if verify:
                tol = 1.0 if px.dtype == np.uint8 and order == 1 else 1e-9 * max(1.0, float(np.abs(want).max()))
                if got.shape != want.shape or np.abs(got - want).max() > tol:
                    fails.append(Failure("extract-reused-arrays", "pixels", "order %d patch=%s channels=%d: %s call with the same argument arrays (contents %s) differs from the clamped source pixels" % (order, ps, C, "second" if step else "first", "replaced in place" if step else "original")))
                    break
            offs[...] = second_offs
            pc.points[...] = second_cents
        return fails

    def _apply_extract_single(self, st, op, verify):
        """every integer centre in its own call, order 0/1 x mode constant/nearest: at integer centres and offsets all
        sample points are integer pixels, so every path must return exactly the (clamped / filled) source pixels"""
        from menpo.shape import PointCloud

        _, ps, oname, order, mode = op
        px = st["ref_px"]
        if px.dtype == bool and order == 1:
            return []
        C, H, W = px.shape
        offs = OFFSET_SETS[oname]
        offs_a = None if offs is None else np.array(offs)
        O = np.zeros((1, 2)) if offs is None else np.asarray(offs, dtype=float)
        img = st["img"]
        self.note("extract-single:o%d-%s" % (order, mode))
        lo_r = -(ps[0] // 2)
        lo_c = -(ps[1] // 2)
        for c in self._centres(st):
            got = img.extract_patches(PointCloud(c[None, :].copy()), patch_shape=ps, sample_offsets=offs_a, order=order, mode=mode)
            if not verify:
                continue
            if got.shape != (1, len(O), C, ps[0], ps[1]):
                return [Failure("extract-single", "shape", "centre %s patch=%s: got %s" % (c.tolist(), ps, got.shape))]
            for oi, o in enumerate(O):
                ys = (int(c[0] + o[0]) + lo_r + np.arange(ps[0]))
                xs = (int(c[1] + o[1]) + lo_c + np.arange(ps[1]))
                if mode == "nearest":
                    ref = px[:, np.clip(ys, 0, H - 1)][:, :, np.clip(xs, 0, W - 1)]
                else:
                    ref = np.zeros((C, ps[0], ps[1]), dtype=px.dtype)
                    iy = (ys >= 0) & (ys < H)
                    ix = (xs >= 0) & (xs < W)
                    sub = px[:, ys[iy]][:, :, xs[ix]]
                    ref[np.ix_(np.arange(C), np.nonzero(iy)[0], np.nonzero(ix)[0])] = sub
                g = got[0, oi]
                ok = np.array_equal(g, ref) if (order == 0 or px.dtype.kind != "f") else np.abs(g.astype(float) - ref.astype(float)).max() <= 1e-9 * max(1.0, float(np.abs(ref).max()))
                if px.dtype == np.uint8 and order == 1:
                    ok = np.abs(g.astype(int) - ref.astype(int)).max() <= 1
                if not ok:
                    return [Failure("extract-single", "pixels", "order %d mode %s patch=%s offsets=%s channels=%d: single centre %s offset %s differs from the %s source pixels" % (order, mode, ps, oname, C, c.tolist(), o.tolist(), "clamped" if mode == "nearest" else "zero-filled"))]
        return []

    def _apply_roundtrip(self, st, op, verify):
        from menpo.shape import PointCloud

        _, ps, oname, j = op
        px = st["ref_px"]
        C, H, W = px.shape
        offs = OFFSET_SETS[oname]
        O = np.zeros((1, 2), dtype=int) if offs is None else np.asarray(offs, dtype=int)
        lr, lc = ps[0] // 2, ps[1] // 2
        hr, hc = lr + ps[0] % 2, lc + ps[1] % 2
        # every integer centre whose patch at offset j lies fully inside the image
        cents = []
        for a in range(0, H):
            for b in range(0, W):
                p = np.array([a, b]) + O[j]
                if p[0] - lr >= 0 and p[0] + hr <= H and p[1] - lc >= 0 and p[1] + hc <= W:
                    cents.append([a, b])
        if not cents:
            self.note("roundtrip:no-interior-centre")
            return []
        cents = np.array(cents, dtype=float)
        img = st["img"]
        offs_a = None if offs is None else np.array(offs)
        patches = img.extract_patches(PointCloud(cents), patch_shape=ps, sample_offsets=offs_a)
        args = {} if offs is None and j == 0 else {"offset": tuple(int(v) for v in O[j]), "offset_index": j}
        back = img.set_patches(patches, PointCloud(cents), **args)
        self.note("roundtrip:c%d" % C)
        fails = []
        if verify and not np.array_equal(back.pixels, px):
            fails.append(Failure("roundtrip", "restore", "patch=%s offsets=%s index=%d channels=%d: writing extracted interior patches back changed %d pixels" % (ps, oname, j, C, int((back.pixels != px).sum()))))
        # blank canvas: exactly the covered region is reproduced (a few spread centres so the region is a proper subset)
        sub = cents[:: max(1, len(cents) // 3)]
        blank = img.copy()
        blank.pixels[...] = 0
        patches = img.extract_patches(PointCloud(sub), patch_shape=ps, sample_offsets=offs_a)
        wrote = blank.set_patches(patches, PointCloud(sub), **args)
        exp = np.zeros_like(px)
        for c in sub.astype(int):
            p = c + O[j]
            exp[:, p[0] - lr : p[0] + hr, p[1] - lc : p[1] + hc] = px[:, p[0] - lr : p[0] + hr, p[1] - lc : p[1] + hc]
        if verify and not np.array_equal(wrote.pixels, exp):
            fails.append(Failure("roundtrip", "covered-region", "patch=%s offsets=%s index=%d channels=%d: blank canvas differs from the covered region in %d pixels" % (ps, oname, j, C, int((wrote.pixels != exp).sum()))))
        if verify and np.any(blank.pixels != 0):
            fails.append(Failure("roundtrip", "input-mutated", "set_patches wrote into its receiver"))
        # list format accepted too
        plist = img.extract_patches(PointCloud(sub), patch_shape=ps, sample_offsets=offs_a, as_single_array=False)
        wrote2 = blank.set_patches(plist, PointCloud(sub), **args)
        if verify and not np.array_equal(wrote2.pixels, exp):
            fails.append(Failure("roundtrip", "list-format", "set_patches(list of images) differs from set_patches(array)"))
        return fails

    # ------------------------------------------------------------------ reporting
    def vacuity(self, notes, stats):
        need = ["cropbig:one-past-the-far-edge", "crop:refused-expected", "crop:wholly-outside", "crop:inside", "crop:clipped", "crop_to_true_mask:inside", "extract:outside-filled", "extract:sample0-c1", "extract:sample0-c5", "extract:slice-c4", "roundtrip:c5", "extract-frac:points-checked", "extract-single:o0-nearest", "extract-single:o1-constant", "extract-reused:o0", "extract-reused:o1"]
        for route in ("crop_to_landmarks", "crop_to_pointcloud", "crop_to_landmarks_proportion", "crop_to_pointcloud_proportion"):
            need += ["%s:refused-expected" % route, "%s:clipped" % route, "%s:inside" % route]
        if True:
            need += ["crop_to_true_mask:refused-expected", "crop_to_true_mask:clipped"]
        return ["outcome %s never produced" % n for n in need if not notes.get(n)]

    def rule(self):
        return (
            "crop: every box of the per-axis letter product (min,max letters inside / fractional / outside on each side "
            "separately) x constrain on/off on 9 image letters, result compared bitwise with plain slicing; patches: every "
            "integer centre -2..S+1 on both axes x 6 patch shapes x 3 offset sets x paths, compared with a per-pixel reference"
        )

    def alphabet_sizes(self):
        return {
            "crop_images": len(crop_image_letters(self.tier)),
            "boxes_2d_5x6": len(axis_letters(5, "full")) * len(axis_letters(6, "full")),
            "patch_images": 12,
            "patch_shapes": len(PATCH_SHAPES),
            "offset_sets": 3,
            "centres_per_call": 11 * 12,
        }

    def assumptions(self):
        return [
            "3-D crops use the reduced per-axis letter set (quick: 3x3, thorough: 5x5 letters) because the full product is 43k boxes per image",
            "the resampling path at fractional centres is compared on interior sample points (and with clamping for mode 'nearest'); "
            "sample points within one pixel outside the border are skipped (scipy-specific edge handling), points further out must equal the fill value",
            "order-0 resampling is skipped within 0.05 of a rounding tie",
        ]


CHECK = C13
