"""C16 - export then import returns the same data; files are never clobbered unasked.

Two groups of roots, all explored on the real menpo.io code inside a private temporary directory:

round trips (input quantified; the op is "export with this path spelling, import again"; the result of
an op is the *imported* object, which is exported again at the next level):
  lj   LJSON: bare shapes / LandmarkManagers / dicts  x 2-D,3-D x NaN patterns x label families x edge sets
  pts  PTS  : 2-D shapes, 5e-4
  pkl  pickle .pkl / .pkl.gz: every shared shape / image / transform letter, PCA + GMRF models, containers
  imf  image files written by Pillow (independent of menpo) holding all 256 eight-bit values
  imm  images built in memory: uint8, exact k/255 floats, the 1/1024 float grid, masked, boolean
  proc one fresh interpreter per ordered pair (format imported first, format exported afterwards):
       import_image -> export_image -> import_image, plus "no empty file left behind"

overwrite histories (history quantified):
  ow   state = content of the files of the directory; ops = export_{landmark ljson, landmark pts, image,
       pickle pkl, pickle pkl.gz, video (refusal only)}(object letter, name, path spelling, overwrite)
       model: existing and not overwrite => OverwriteError, every file byte-for-byte intact;
              otherwise success, target content = what the same export writes on a pristine path,
              every other file intact, and the file imports back to the exported object.

The reference model is plain python: (points array, set of frozenset edges, ordered (label, indices) list)
per landmark group built from the root spec, uint8 arrays for images, dict name -> content tag for the
file system.
"""
import atexit
import collections
import functools
import gzip
import hashlib
import os
import shutil
import tempfile
import zlib
from collections import OrderedDict
from pathlib import Path, PurePath

import numpy as np
import scipy.sparse as sp

from mc import letters as L
from mc.core import Check, Failure
from mc.observe import obs_diff, obs_key, observe

# ------------------------------------------------------------------------------------------------
# private temporary directories: one base per run (created by the parent, removed at its exit), one
# directory per build() below it, old ones removed as the exploration proceeds
# ------------------------------------------------------------------------------------------------
_BASE = {"dir": None, "pid": None}
_MINE = []  # directories made by this very process, oldest first
_REG = {"pid": None}
KEEP_DIRS = 6


def _cleanup_mine():
    while _MINE:
        shutil.rmtree(_MINE.pop(0), ignore_errors=True)


def _cleanup_all():
    _cleanup_mine()
    if _BASE["dir"] and _BASE["pid"] == os.getpid():
        shutil.rmtree(_BASE["dir"], ignore_errors=True)
        _BASE["dir"] = None


def _base():
    if _BASE["dir"] is None or not os.path.isdir(_BASE["dir"]):
        _BASE["dir"] = tempfile.mkdtemp(prefix="verif-c16-", dir="/tmp")
        _BASE["pid"] = os.getpid()
    if _REG["pid"] != os.getpid():
        _REG["pid"] = os.getpid()
        del _MINE[:]  # directories inherited over fork belong to the parent
        atexit.register(_cleanup_all)
        try:  # forked pool workers leave through os._exit: atexit does not run there, Finalize does
            from multiprocessing import util as _mpu

            _mpu.Finalize(None, _cleanup_mine, exitpriority=10)
        except Exception:  # pragma: no cover
            pass
    return _BASE["dir"]


def _shared(kind):
    """a directory of this process next to the state directories (working directory of the absolute
    spellings / scratch area of the pristine exports); rmdir costs milliseconds on this file system,
    so only the state directory itself is made and removed per build()."""
    d = os.path.join(_base(), "%s-%d" % (kind, os.getpid()))
    if not os.path.isdir(d):
        os.mkdir(d)
    return d


def _new_dir():
    base = _base()
    d = tempfile.mkdtemp(prefix="s", dir=base)
    _MINE.append(d)
    while len(_MINE) > KEEP_DIRS:
        shutil.rmtree(_MINE.pop(0), ignore_errors=True)
    return d


# ------------------------------------------------------------------------------------------------
# path spellings: (working directory, the value handed to menpo)
# ------------------------------------------------------------------------------------------------
PLAIN_SP = ["str-rel", "path-abs", "path-rel", "str-abs", "str-dot", "path-up"]
EXOTIC_SP = ["str-env", "path-tilde"]  # need expandvars / expanduser: explored for the refusal clause only
IMPORT_SP = {
    "str-rel": "path-abs",
    "path-abs": "str-rel",
    "path-rel": "str-abs",
    "str-abs": "path-rel",
    "str-dot": "path-up",
    "path-up": "str-dot",
    "str-env": "str-abs",
    "path-tilde": "path-rel",
}


def _spell(d, sp, name):
    other = _shared("cwd")  # a sibling of the state directory
    if sp == "str-rel":
        return d, name
    if sp == "path-rel":
        return d, Path(name)
    if sp == "str-abs":  # absolute spellings are used from another working directory
        return other, os.path.join(d, name)
    if sp == "path-abs":
        return other, Path(d) / name
    if sp == "str-dot":
        return d, "./" + name
    if sp == "path-up":  # relative, through the parent, from the sibling directory
        return other, Path("..") / os.path.basename(d) / name
    if sp == "str-env":
        return other, "$C16DIR/" + name
    if sp == "path-tilde":
        return other, Path("~") / name
    raise ValueError(sp)


def _call(d, sp, name, fn):
    """fn(spelled path) with the working directory / environment of the spelling; (value, exception)."""
    cwd0 = os.getcwd()
    env0 = {k: os.environ.get(k) for k in ("HOME", "C16DIR")}
    cwd, fp = _spell(d, sp, name)
    try:
        os.environ["HOME"] = d
        os.environ["C16DIR"] = d
        os.chdir(cwd)
        try:
            return fn(fp), None
        except Exception as e:  # reported by the caller as a Failure (never swallowed)
            return None, e
    finally:
        os.chdir(cwd0)
        for k, v in env0.items():
            if v is None:
                os.environ.pop(k, None)
            else:
                os.environ[k] = v


def _snapshot(d):
    """{name: bytes} of every file below the state directory d and below the working directory used for
    the absolute spellings (prefixed 'cwd/'): a stray file in either is a changed bystander."""
    out = {}
    for top, prefix in ((d, ""), (_shared("cwd"), "cwd/")):
        for root, dirs, files in os.walk(top):
            rel = os.path.relpath(root, top)
            for f in files:
                with open(os.path.join(root, f), "rb") as fh:
                    out[prefix + os.path.normpath(os.path.join(rel, f))] = fh.read()
    return out


def _content_key(name, data):
    """bytes up to what the format itself makes time dependent (gzip header carries mtime)."""
    if name.lower().endswith(".gz"):
        try:
            return b"gz:" + gzip.decompress(data)
        except Exception:
            return b"raw:" + data
    return b"raw:" + data


def _sha(b):
    return hashlib.sha1(b).hexdigest()[:16]


NAMEKINDS = OrderedDict([("plain", "f"), ("dots", "f.v1.2.ünï"), ("upper", "F.V2")])


def _fname(namekind, ext):
    stem = NAMEKINDS[namekind]
    return stem + (ext.upper() if namekind == "upper" else ext)


# ------------------------------------------------------------------------------------------------
# landmark letters and their reference
# ------------------------------------------------------------------------------------------------
N = 5
EDGE_FAMS = {
    "empty": [],
    "some": [(0, 1), (1, 2), (3, 4)],
    "rev": [(1, 0), (4, 2), (3, 0)],
    "anti": [(0, 1), (1, 0), (2, 3)],  # directed graphs only: both directions of one undirected edge
    "tree": [(0, 1), (0, 2), (1, 3), (1, 4)],
    # directed letters whose edges run from the higher to the lower vertex (below the diagonal of the adjacency matrix)
    "desc": [(2, 1), (3, 2), (4, 3), (0, 4)],
    "alldesc": [(4, 0), (3, 1), (2, 1)],
    "tree-root4": [(4, 3), (4, 2), (3, 1), (3, 0)],  # a tree whose root is the last vertex: every edge descends
}
TRILIST = [(0, 1, 2), (1, 2, 3), (2, 3, 4)]
LABEL_FAMS = {
    "unicode": [("ζeta", (0, 1, 2)), ("β-é 中", (3, 4))],
    "overlap": [("b", (0, 1, 2, 3)), ("a", (2, 3, 4)), ("all", (0, 1, 2, 3, 4))],
    "nonalpha": [("zeta", (0, 1)), ("mid", (2,)), ("alpha", (3, 4)), ("Beta", (1, 4))],
}
# (class, edge family, label family)
SHAPE_LETTERS = (
    [("PointCloud", "-", "-")]
    + [("PointUndirectedGraph", e, "-") for e in ("empty", "some", "rev")]
    + [("PointDirectedGraph", e, "-") for e in ("empty", "some", "anti")]
    + [("PointTree", "tree", "-"), ("TriMesh", "tri", "-")]
    + [("LabelledPointUndirectedGraph", e, lf) for lf in ("unicode", "overlap", "nonalpha") for e in ("empty", "some")]
)
N_BASE_LETTERS = len(SHAPE_LETTERS)
# LJSON-only letters (appended so that the indices of the shared letters stay what they were)
SHAPE_LETTERS = SHAPE_LETTERS + [("PointDirectedGraph", "desc", "-"), ("PointDirectedGraph", "alldesc", "-"), ("PointTree", "tree-root4", "-")]
GROUP_NAMES = ["g.one", "ünï-ß", "Z", "a b.c", "10", "9", "PTS", "grp.ljson", "LJSON"]
NAN_PATTERNS = ["none", "coord", "point", "first", "all"]
SPECIAL = [-0.0, 1e-300, 7e17, 1.0 / 3.0, 0.1, 1e-05, 123456789.12345679, 5e-324, -2.5, 2.0, 1e22, 0.30000000000000004, -1e-7, 255.0, 3.0000000000000004]


def _payload(payload, d, seed, salt, n=None):
    """N rows of seeded coordinates; the first n of them for the size-boundary letters (n = 0, 1, 2, 3)."""
    p = _payload_full(payload, d, seed, salt)
    return p if n is None else np.ascontiguousarray(p[: int(n)])


def _payload_full(payload, d, seed, salt):
    if payload == "generic":
        p = 0.5 + 5.0 * L.rs(seed, "c16", salt, d).rand(N, d)
    elif payload == "special":
        off = zlib.crc32(repr(salt).encode("utf8"))
        p = np.array([[SPECIAL[(off + i * d + j) % len(SPECIAL)] for j in range(d)] for i in range(N)], dtype=float)
    elif payload == "pixel":  # integer valued floats (json writes them as 12.0)
        p = np.floor(300 * L.rs(seed, "c16px", salt, d).rand(N, d)) - 20.0
    elif payload == "pts":  # values around the 3-decimal grid, negative and large
        r = L.rs(seed, "c16pts", salt, d)
        p = np.round(400 * r.rand(N, d) - 50, 3) + np.array([0.0, 0.0004, -0.0004, 0.00049, 0.0005])[:, None]
        p[0, 0] = 12345.6789
        p[1, d - 1] = -0.9996
    elif payload == "mag":  # magnitudes 1e5, 1e6, 1e7 and 1e-4 (three decimals must survive whatever the size)
        r = L.rs(seed, "c16mag", salt, d)
        scales = np.array([1e5, 1e6, 1e7, 1e-4, -1e5])[:, None]
        p = scales * (1.0 + 8.0 * r.rand(N, d)) + np.array([0.0004, 0.1234, 0.4996, 0.0, 0.7891])[:, None]
    else:
        raise ValueError(payload)
    return p


def _apply_nan(p, nan):
    p = p.copy()
    if p.shape[0] == 0:
        return p
    last = p.shape[0] - 1
    if nan == "coord":
        p[min(1, last), 0] = np.nan
    elif nan == "point":
        p[min(3, last), :] = np.nan
    elif nan == "first":
        p[0, -1] = np.nan
    elif nan == "all":
        p[:, :] = np.nan
    return p


def make_shape(letter, pts):
    """menpo object for a shape letter + its reference {points, edges, labels} (built from the letter only)."""
    import menpo.shape as ms

    cls, ef, lf = letter
    n = pts.shape[0]
    if ef == "tri":
        tl = [t for t in TRILIST if max(t) < n]
        edge_list = [(t[i], t[(i + 1) % 3]) for t in tl for i in range(3)]
    else:
        edge_list = [e for e in EDGE_FAMS.get(ef, []) if max(e) < n]
    earr = np.array(edge_list, dtype=int).reshape(-1, 2)
    labels = [(k, tuple(i for i in v if i < n)) for k, v in LABEL_FAMS.get(lf, [])]
    labels = [(k, v) for k, v in labels if v]  # (size-boundary letters: a label needs a member)
    if cls == "PointCloud":
        obj = ms.PointCloud(pts)
    elif cls == "PointUndirectedGraph":
        obj = ms.PointUndirectedGraph.init_from_edges(pts, earr)
    elif cls == "PointDirectedGraph":
        obj = ms.PointDirectedGraph.init_from_edges(pts, earr)
    elif cls == "PointTree":
        obj = ms.PointTree.init_from_edges(pts, earr, 4 if ef == "tree-root4" else 0)
    elif cls == "TriMesh":
        obj = ms.TriMesh(pts, np.array(tl, dtype=int).reshape(-1, 3))
    elif cls == "LabelledPointUndirectedGraph":
        adj = earr
        if earr.shape == (2, 2):  # a 2x2 array would be read as an adjacency matrix: hand over a real one
            adj = np.zeros((n, n), dtype=int)
            for i, j in edge_list:
                adj[i, j] = adj[j, i] = 1
        obj = ms.LabelledPointUndirectedGraph.init_from_indices_mapping(pts, adj, OrderedDict((k, list(v)) for k, v in labels))
    else:
        raise ValueError(cls)
    ref = {"points": np.array(pts, dtype=float), "edges": set(frozenset(e) for e in edge_list), "labels": labels}
    return obj, ref


SMALL_N = (1, 2, 3)  # one point, one possible edge, one possible triangle


def small_ok(letter, n, fmt):
    """size-boundary letters that the constructors / formats accept at all."""
    cls = letter[0]
    if n == 0:  # graphs need a vertex; the LJSON importer indexes the first point (see assumptions)
        return fmt in ("pts", "pkl") and cls in ("PointCloud", "TriMesh")
    if cls == "PointTree":
        return n >= 2  # a tree cannot have isolated vertices
    return True


def _bits_equal(a, b):
    """same float64 values: NaN at the same places, equal elsewhere, same sign of zero."""
    a = np.asarray(a)
    b = np.asarray(b)
    if a.shape != b.shape or a.dtype != b.dtype:
        return False
    if a.dtype.kind != "f":
        return bool(np.array_equal(a, b))
    if not np.array_equal(np.isnan(a), np.isnan(b)):
        return False
    ok = ~np.isnan(a)
    return bool(np.array_equal(a[ok], b[ok]) and np.array_equal(np.signbit(a[ok]), np.signbit(b[ok])))


def ref_of_group(g):
    """reference-shaped reading of a live landmark group through its public API."""
    pts = np.array(g.points, copy=True)
    edges = []
    if hasattr(g, "edges"):
        edges = [tuple(int(x) for x in e) for e in np.asarray(g.edges).reshape(-1, 2)]
    labels = []
    if hasattr(g, "labels"):
        for lab in g.labels:
            m = getattr(g, "_labels_to_masks", {}).get(lab)
            idx = tuple(int(i) for i in np.nonzero(np.asarray(m))[0]) if m is not None else None
            labels.append((lab, idx))
    return pts, edges, labels


def cmp_group(where, name, got, ref):
    fails = []
    pts, edges, labels = ref_of_group(got)
    if pts.dtype != np.float64 or not _bits_equal(pts, ref["points"]):
        fails.append(Failure(where, "coordinates", "group %r: expected points\n%r\ngot (%s)\n%r" % (name, ref["points"], pts.dtype, pts)))
    eset = set(frozenset(e) for e in edges)
    if eset != ref["edges"] or len(eset) != len(edges) or any(len(e) != 2 for e in eset):
        fails.append(Failure(where, "edges", "group %r: expected undirected edges %s got %s" % (name, sorted(map(sorted, ref["edges"])), edges)))
    if [l for l, _ in labels] != [l for l, _ in ref["labels"]]:
        fails.append(Failure(where, "labels", "group %r: expected labels (in order) %r got %r" % (name, [l for l, _ in ref["labels"]], [l for l, _ in labels])))
    elif labels != [(l, tuple(i)) for l, i in ref["labels"]]:
        fails.append(Failure(where, "labels", "group %r: label membership differs: expected %r got %r" % (name, ref["labels"], labels)))
    return fails


# ------------------------------------------------------------------------------------------------
# generic "equal state" comparison for pickles (everything reachable through __dict__, 'path' apart)
# ------------------------------------------------------------------------------------------------
_ATOMS = (str, bytes, int, float, bool, type(None), complex)


def state_diff(a, b, path="", seen=None, depth=0):
    if seen is None:
        seen = set()
    if depth > 14:
        return None
    if isinstance(a, PurePath) and isinstance(b, PurePath):
        return None  # recorded file paths are outside the statement
    if type(a) is not type(b):
        return "%s: type %s vs %s" % (path, type(a).__name__, type(b).__name__)
    if isinstance(a, np.ndarray):
        if a.dtype != b.dtype or a.shape != b.shape:
            return "%s: array %s%s vs %s%s" % (path, a.dtype, a.shape, b.dtype, b.shape)
        if a.dtype == object:
            for i, (x, y) in enumerate(zip(a.ravel().tolist(), b.ravel().tolist())):
                r = state_diff(x, y, "%s[%d]" % (path, i), seen, depth + 1)
                if r:
                    return r
            return None
        if not _bits_equal(a, b):
            return "%s: array values differ" % path
        return None
    if isinstance(a, np.generic):
        return None if (a == b or (a != a and b != b)) else "%s: %r vs %r" % (path, a, b)
    if sp.issparse(a):
        if a.format != b.format or a.shape != b.shape or a.dtype != b.dtype:
            return "%s: sparse %s %s %s vs %s %s %s" % (path, a.format, a.shape, a.dtype, b.format, b.shape, b.dtype)
        if not _bits_equal(np.asarray(a.todense()), np.asarray(b.todense())):
            return "%s: sparse values differ" % path
        return None
    if isinstance(a, _ATOMS):
        if a == b or (isinstance(a, float) and a != a and b != b):
            return None
        return "%s: %r vs %r" % (path, a, b)
    if isinstance(a, dict):
        if list(a.keys()) != list(b.keys()):
            return "%s: keys %r vs %r" % (path, list(a.keys()), list(b.keys()))
        for k in a:
            r = state_diff(a[k], b[k], "%s[%r]" % (path, k), seen, depth + 1)
            if r:
                return r
        return None
    if isinstance(a, (list, tuple)):
        if len(a) != len(b):
            return "%s: len %d vs %d" % (path, len(a), len(b))
        for i, (x, y) in enumerate(zip(a, b)):
            r = state_diff(x, y, "%s[%d]" % (path, i), seen, depth + 1)
            if r:
                return r
        return None
    if isinstance(a, (set, frozenset)):
        return None if a == b else "%s: sets differ" % path
    if isinstance(a, functools.partial):
        for nm in ("func", "args", "keywords"):
            r = state_diff(getattr(a, nm), getattr(b, nm), path + "." + nm, seen, depth + 1)
            if r:
                return r
        return None
    if isinstance(a, type) or callable(a) and not hasattr(a, "__dict__"):
        return None if a is b or getattr(a, "__qualname__", 1) == getattr(b, "__qualname__", 2) else "%s: callables differ" % path
    if callable(a) and hasattr(a, "__code__"):
        return None if a is b or a.__qualname__ == b.__qualname__ else "%s: functions differ" % path
    if hasattr(a, "__dict__"):
        key = (id(a), id(b))
        if key in seen:
            return None
        seen.add(key)
        va = {k: v for k, v in vars(a).items() if k != "path"}
        vb = {k: v for k, v in vars(b).items() if k != "path"}
        if set(va) != set(vb):
            return "%s: attributes %r vs %r" % (path, sorted(va), sorted(vb))
        for k in sorted(va):
            r = state_diff(va[k], vb[k], path + "." + k, seen, depth + 1)
            if r:
                return r
        return None
    try:
        return None if a == b else "%s: %r vs %r" % (path, a, b)
    except Exception:
        return None


# ------------------------------------------------------------------------------------------------
# image letters
# ------------------------------------------------------------------------------------------------
IMG_H, IMG_W = 8, 32  # not square: a transposed axis convention changes the shape
LOSSLESS_OUT = ["png", "bmp", "tif", "pgm", "ppm", "tiff", "dib", "pcx", "pbm"]  # (Pillow's .im writer needs ascii file names)
FILE_LETTERS_QUICK = [
    ("png", "L"), ("png", "RGB"), ("png", "RGBA"), ("png", "P"), ("png", "1"),
    ("bmp", "L"), ("bmp", "RGB"), ("tif", "L"), ("tif", "RGB"), ("tiff", "RGB"), ("pgm", "L"), ("ppm", "RGB"),
]
FILE_LETTERS_MORE = [("bmp", "P"), ("bmp", "1"), ("pbm", "1"), ("dib", "L"), ("dib", "RGB"), ("pcx", "L"), ("pcx", "RGB"), ("tiff", "L")]


SIZES_QUICK = [(1, 1), (1, 1, "min"), (1, 1, "max"), (1, 32), (8, 1), (1, 9), (3, 5)]
SIZES_MORE = [(1, 7), (1, 8), (2, 3), (1, 2), (2, 1), (1, 4), (1, 5)]  # byte / 4-byte row boundaries of 1-bit and bmp rows


def u8_arrays(seed, size=None):
    """the all-256-values letters, or their top-left (h, w) corner for a size letter (optionally all 0 / all 255)."""
    a = _u8_full(seed)
    if size is None:
        return a
    h, w = int(size[0]), int(size[1])
    fill = size[2] if len(size) > 2 else None
    out = {}
    for k, v in a.items():
        if k == "palette":
            out[k] = v
            continue
        v = np.ascontiguousarray(v[:h, :w]).copy()
        if fill is not None:
            v[...] = (False if fill == "min" else True) if v.dtype == bool else (0 if fill == "min" else 255)
        out[k] = v
    return out


def _u8_full(seed):
    r = L.rs(seed, "c16", "u8")
    l8 = r.permutation(256).astype(np.uint8).reshape(IMG_H, IMG_W)
    rgb = np.stack([r.permutation(256).astype(np.uint8).reshape(IMG_H, IMG_W) for _ in range(3)], axis=-1)
    alpha = (r.permutation(256).reshape(IMG_H, IMG_W) % 4 != 0).astype(np.uint8) * r.randint(1, 256, size=(IMG_H, IMG_W)).astype(np.uint8)
    alpha.flat[0] = 0
    alpha.flat[1] = 255
    palette = r.randint(0, 256, size=(256, 3)).astype(np.uint8)
    bits = r.rand(IMG_H, IMG_W) > 0.5
    bits.flat[0] = True
    bits.flat[1] = False
    return {"L": l8, "RGB": rgb, "alpha": alpha, "palette": palette, "bits": bits}


def write_source(path, mode, arrs):
    """source file written by Pillow alone; returns the expected 8-bit data (H,W) or (H,W,3) and extras."""
    import PIL.Image as PI

    extra = {}
    if mode == "L":
        im, exp = PI.fromarray(arrs["L"]), arrs["L"]
    elif mode == "RGB":
        im, exp = PI.fromarray(arrs["RGB"]), arrs["RGB"]
    elif mode == "RGBA":
        im = PI.fromarray(np.concatenate([arrs["RGB"], arrs["alpha"][..., None]], axis=-1))
        exp = arrs["RGB"]
        extra["mask"] = arrs["alpha"] > 0
        extra["rgba"] = np.concatenate([arrs["RGB"], arrs["alpha"][..., None]], axis=-1)
    elif mode == "P":
        im = PI.fromarray(arrs["L"])
        im = im.convert("P")
        im.putpalette(arrs["palette"].reshape(-1).tolist())
        im.putdata(arrs["L"].reshape(-1).tolist())
        exp = arrs["palette"][arrs["L"]]
    elif mode == "1":
        im = PI.fromarray(arrs["bits"].astype(np.uint8) * 255).convert("1")
        exp = arrs["bits"].astype(np.uint8) * 255
        extra["bits"] = arrs["bits"]
    else:
        raise ValueError(mode)
    im.save(path)
    with PI.open(path) as chk:  # the harness' own file must hold what it thinks it holds
        back = np.asarray(chk.convert("RGB") if mode in ("P", "RGBA") else chk.convert("L") if mode == "1" else chk)
    if not np.array_equal(back, exp):
        from mc.core import HarnessError

        raise HarnessError("Pillow did not store the source letter %s faithfully in %s" % (mode, path))
    return np.ascontiguousarray(exp), extra


def chan_first(e):
    return e[None, ...] if e.ndim == 2 else np.ascontiguousarray(np.moveaxis(e, -1, 0))


EDGE_VALUES = [0.0, 1.0, 0.5 / 255, 254.5 / 255, 127.5 / 255, 128.5 / 255, 1.0 / 255, 254.0 / 255, float(np.nextafter(1.0, 0.0)), 5e-324,
               float(np.nextafter(0.5 / 255, 0.0)), float(np.nextafter(0.5 / 255, 1.0)), 1.5 / 255, 2.5 / 255, 0.5]


def mem_image(letter, seed):
    """(image, expected 8-bit data or None, float reference (c,h,w) or None)."""
    from menpo.image import BooleanImage, Image, MaskedImage

    cls, ch, kind = letter[:3]
    size = letter[3] if len(letter) > 3 else None
    arrs = u8_arrays(seed, size)
    e8 = arrs["L"] if ch == 1 else arrs["RGB"]
    if kind == "u8":
        px, exp, fref = chan_first(e8).copy(), e8, None
    elif kind == "levels64":
        px, exp, fref = chan_first(e8).astype(np.float64) / 255.0, e8, None
    elif kind == "levels64m":  # the other spelling of the same level: v * (1/255)
        px, exp, fref = chan_first(e8) * (1.0 / 255.0), e8, None
    elif kind == "levels32":
        px, exp, fref = (chan_first(e8).astype(np.float64) / 255.0).astype(np.float32), e8, None
    elif kind in ("grid64", "grid32"):
        g = (np.arange(1025) / 1024.0).reshape(25, 41)
        px = np.stack([np.roll(g.reshape(-1), 341 * c).reshape(25, 41) for c in range(ch)])
        px = px.astype(np.float64 if kind == "grid64" else np.float32)
        exp, fref = None, px.astype(np.float64)
    elif kind in ("edge64", "edge32"):  # values at the ends of the range and exactly between two levels
        h, w = e8.shape[:2]
        px = np.array([EDGE_VALUES[(i + 5 * c) % len(EDGE_VALUES)] for c in range(ch) for i in range(h * w)], dtype=np.float64).reshape(ch, h, w)
        px = px.astype(np.float64 if kind == "edge64" else np.float32)
        px = np.clip(px, 0.0, 1.0)
        exp, fref = None, px.astype(np.float64)
    elif kind == "bool":
        b = arrs["bits"]
        return BooleanImage(b.copy()), b.astype(np.uint8) * 255, None
    else:
        raise ValueError(kind)
    if cls == "Image":
        return Image(px), exp, fref
    if cls == "MaskedImage":
        m = L.rs(seed, "c16", "mask").rand(*px.shape[1:]) > 0.5
        m.flat[0] = True
        if m.size > 1:
            m.flat[1] = False
        return MaskedImage(px, mask=m), exp, fref
    raise ValueError(cls)


# process-level histories (Pillow's plugin registry is global to the interpreter and cannot be reset):
# one FRESH interpreter per ordered pair (format imported first, format exported afterwards)
PROC_IN_QUICK = ["png", "bmp", "tif", "pgm", "ppm", "pcx"]
PROC_IN_MORE = ["dib", "tiff"]
PROC_OUT_QUICK = ["png", "bmp", "tif", "tiff", "pgm", "ppm", "pcx", "gif", "dib"]
PROC_OUT_MORE = ["pbm"]
PREINIT_FORMATS = ("png", "bmp", "dib", "pgm", "ppm", "pbm", "gif")  # readable after Pillow's preinit() alone
PROC_SCRIPT = r"""
import json, os, sys, warnings
warnings.simplefilter("ignore")
out = {}
try:
    import numpy as np
    import menpo.io as mio
    src, dst, reimport = sys.argv[1], sys.argv[2], sys.argv[3] == "1"
    def digest(im):
        lv = np.rint(np.asarray(im.pixels, dtype=float) * 255.0)
        return {"class": type(im).__name__, "shape": list(im.pixels.shape), "dtype": str(im.pixels.dtype),
                "levels": lv.astype(int).ravel().tolist(), "maxdev": float(np.abs(im.pixels - lv / 255.0).max())}
    im = mio.import_image(src)
    out["import"] = digest(im)
    try:
        mio.export_image(im, dst)
        out["export"] = "ok"
    except Exception as e:
        out["export"] = "%s: %s" % (type(e).__name__, e)
    out["dst_size"] = os.path.getsize(dst) if os.path.exists(dst) else -1
    if out["export"] == "ok" and reimport:
        try:
            b = mio.import_image(dst)
            out["reimport"] = digest(b)
            out["reimport_same"] = bool(b.pixels.shape == im.pixels.shape and b.pixels.dtype == im.pixels.dtype and (b.pixels == im.pixels).all())
        except Exception as e:
            out["reimport_error"] = "%s: %s" % (type(e).__name__, e)
except Exception as e:
    out["fatal"] = "%s: %s" % (type(e).__name__, e)
print("C16JSON " + json.dumps(out))
"""


def proc_mode(a, b, i):
    if a == "pgm":
        return "L"
    if a == "ppm":
        return "RGB"
    if b == "gif":
        return "L"  # gif quantises RGB to a palette: only greyscale is lossless
    return ("L", "RGB")[i % 2]


MEM_SIZED = [("Image", 1, "u8"), ("Image", 3, "levels64"), ("Image", 1, "edge64"), ("MaskedImage", 3, "levels64m"), ("BooleanImage", 1, "bool"), ("Image", 3, "u8"), ("Image", 1, "levels32")]
FILE_SIZED = [("png", "L"), ("png", "RGB"), ("bmp", "RGB"), ("tif", "L"), ("pgm", "L"), ("ppm", "RGB"), ("png", "1"), ("png", "RGBA"), ("bmp", "L"), ("png", "P"), ("tif", "RGB"), ("bmp", "1")]
MEM_LETTERS = [
    ("Image", 1, "u8"), ("Image", 3, "u8"), ("Image", 1, "levels64"), ("Image", 3, "levels64"), ("Image", 3, "levels64m"), ("Image", 1, "levels32"), ("Image", 3, "levels32"),
    ("Image", 1, "grid64"), ("Image", 3, "grid64"), ("Image", 1, "grid32"), ("Image", 3, "grid32"),
    ("Image", 1, "edge64"), ("Image", 3, "edge32"),
    ("MaskedImage", 1, "levels64"), ("MaskedImage", 3, "levels64"), ("MaskedImage", 3, "u8"), ("MaskedImage", 3, "grid64"), ("BooleanImage", 1, "bool"),
]


# ------------------------------------------------------------------------------------------------
# pickle letters
# ------------------------------------------------------------------------------------------------
def model_letter(name, seed):
    from menpo.model import GMRFModel, GMRFVectorModel, PCAModel, PCAVectorModel
    from menpo.shape import PointCloud, UndirectedGraph

    shapes = [PointCloud(L.generic_points(4, 2, seed, ("c16m", i))) for i in range(6)]
    g = UndirectedGraph.init_from_edges(np.array([[0, 1], [1, 2], [2, 3]]), 4)
    if name == "PCAModel":
        return PCAModel(shapes)
    if name == "PCAModel-trimmed":
        m = PCAModel(shapes)
        m.trim_components(3)
        m.n_active_components = 2
        return m
    if name == "PCAVectorModel":
        return PCAVectorModel(L.spectrum_data(6, 5, seed))
    if name == "PCAVectorModel-uncentred":
        return PCAVectorModel(L.spectrum_data(6, 5, seed), centre=False)
    if name == "GMRFModel":
        return GMRFModel(shapes, g, n_components=None)
    if name == "GMRFModel-dense":
        return GMRFModel(shapes, g, n_components=None, sparse=False, dtype=np.float64)
    if name == "GMRFVectorModel":
        return GMRFVectorModel(np.array([s.as_vector() for s in shapes]), g)
    if name == "GMRFVectorModel-subtraction":
        return GMRFVectorModel(np.array([s.as_vector() for s in shapes]), g, mode="subtraction", n_components=2, incremental=True)
    raise ValueError(name)


MODEL_LETTERS = ["PCAModel", "PCAModel-trimmed", "PCAVectorModel", "PCAVectorModel-uncentred", "GMRFModel", "GMRFModel-dense", "GMRFVectorModel", "GMRFVectorModel-subtraction"]
CONTAINER_LETTERS = ["list2", "dict2", "ordered3", "manager", "nested", "tuple2"]


def container_letter(name, seed):
    from menpo.landmark import LandmarkManager

    a = L.shape(("TriMesh", 2, 1), seed)
    b = L.shape(("LabelledPointUndirectedGraph", 3, 0), seed)
    c = L.image(("MaskedImage", (3, 4), 3, "float64", "sparse", 1), seed)
    t = L.transform(("AlignmentSimilarity", 2), seed)
    if name == "list2":
        return [a, b]
    if name == "tuple2":
        return (a, t)
    if name == "dict2":
        return {"a": a, "img": c}
    if name == "ordered3":
        return OrderedDict([("z", t), ("ü", b), ("a", a)])
    if name == "manager":
        lm = LandmarkManager()
        for i, letter in enumerate(SHAPE_LETTERS[::4]):
            lm[GROUP_NAMES[i]] = make_shape(letter, _payload("generic", 2, seed, ("mgr", i)))[0]
        return lm
    if name == "nested":
        return {"models": [model_letter("PCAModel", seed)], "pair": (a, [b, {"t": t}])}
    raise ValueError(name)


def pkl_object(root, seed):
    kind = root[1]
    if kind == "shape":
        return L.shape(root[2], seed)
    if kind == "image":
        return L.image(root[2], seed)
    if kind == "transform":
        return L.transform(root[2], seed)
    if kind == "model":
        return model_letter(root[2], seed)
    if kind == "container":
        return container_letter(root[2], seed)
    if kind == "small":  # size-boundary shapes: (shape letter index, n points, n dims)
        li, n, d = root[2]
        return make_shape(SHAPE_LETTERS[li], _payload("generic", d, seed, ("pklsmall", li), n))[0]
    raise ValueError(root)


# ------------------------------------------------------------------------------------------------
# overwrite families
# ------------------------------------------------------------------------------------------------
FOREIGN = b"not written by menpo \x00\xff\xfe - must survive a refused export\n" * 3
# family -> list of (file name, exporter letter)
OW_FAMILIES = OrderedDict(
    [
        ("ljson", [("t.ljson", "ljson"), ("t.v1.2.ljson", "ljson")]),
        ("pts", [("t.pts", "pts"), ("t.v1.2.pts", "pts")]),
        ("image", [("t.png", "image"), ("t.v1.2.tif", "image")]),
        ("pkl", [("t.pkl", "pkl"), ("t.v1.2.pkl", "pkl")]),
        ("pklgz", [("t.pkl.gz", "pklgz"), ("t.v1.2.pkl.gz", "pklgz")]),
        ("gifvid", [("t.gif", "gif"), ("t.v1.2.mp4", None)]),
        ("mixed", [("ml.ljson", "ljson"), ("mp.pts", "pts"), ("mi.bmp", "image"), ("mk.pkl", "pkl"), ("mz.pkl.gz", "pklgz"), ("mg.gif", "gif")]),
    ]
)
VIDEO_EXT = (".gif", ".mp4")
OW_INITS = ["empty", "foreign-first", "foreign-all", "zero-byte-all"]  # an existing file of size 0 is an existing file


def ow_object(exporter, which, seed):
    """two object letters per exporter: A is the larger file, B the smaller (overwriting A by B must truncate)."""
    from menpo.image import Image
    from menpo.shape import PointCloud

    if exporter == "ljson" and which in ("M", "D"):  # multi-group objects: an image's LandmarkManager, a plain dict
        o1, r1 = make_shape(("LabelledPointUndirectedGraph", "some", "overlap"), _payload("generic", 2, seed, "owM1"))
        o2, r2 = make_shape(("PointCloud", "-", "-"), _apply_nan(_payload("special", 2, seed, "owM2", 3), "first"))
        if which == "M":
            holder = Image(np.zeros((1, 4, 4)))
            holder.landmarks["g.one"] = o1
            holder.landmarks["ünï"] = o2
            return holder.landmarks, {"g.one": r1, "ünï": r2}
        return {"g.one": o1, "ünï": o2}, {"g.one": r1, "ünï": r2}
    if exporter == "ljson":
        if which == "A":
            obj, ref = make_shape(("LabelledPointUndirectedGraph", "some", "nonalpha"), _apply_nan(_payload("generic", 2, seed, "owA"), "coord"))
        else:
            obj, ref = make_shape(("PointCloud", "-", "-"), _payload("generic", 3, seed, "owB")[:2])
        return obj, {"LJSON": ref}
    if exporter == "pts":
        p = _payload("pts", 2, seed, "ow" + which)
        p = p if which == "A" else p[:2]
        return PointCloud(p), p
    if exporter in ("image", "gif"):
        arrs = u8_arrays(seed)
        if which == "A":
            e = arrs["L"] if exporter == "gif" else arrs["RGB"]
        else:
            e = arrs["L"][:2, :3]
        return Image(chan_first(e).copy()), np.ascontiguousarray(e)
    if exporter in ("pkl", "pklgz"):
        obj = L.shape(("TriMesh", 3, 2), seed) if which == "A" else PointCloud(_payload("generic", 2, seed, "owpk")[:2])
        return obj, None
    raise ValueError(exporter)


# documented options of the exporters, crossed with overwrite / path form / existing-or-not:
# extension= (landmark, image): absent, or the extension of the path given explicitly in three spellings;
# protocol= (pickle): absent, the default given explicitly, two others; fps= (video): absent, the default, another
EXT_FORMS = [None, "dot", "nodot", "upper"]
PROTO_FORMS = [None, "p2", "p4", "p0"]
FPS_FORMS = [None, "fps30", "fps1"]


def ext_form(form, name_or_ext):
    """the extension of a file name as the `extension` argument: '.ljson' / 'ljson' / '.LJSON' (None: not passed)."""
    low = name_or_ext.lower()
    ext = ".pkl.gz" if low.endswith(".pkl.gz") else "." + low.rsplit(".", 1)[-1]
    return {"dot": ext, "nodot": ext[1:], "upper": ext.upper()}[form]


def opt_forms(exporter):
    if exporter in ("ljson", "pts", "image", "gif"):
        return EXT_FORMS
    if exporter in ("pkl", "pklgz"):
        return PROTO_FORMS
    return FPS_FORMS


def _export_call(exporter, obj, overwrite, opt=None, name=None):
    import menpo.io as mio

    kw = {}
    if exporter in ("ljson", "pts", "image", "gif"):
        if opt is not None:
            kw["extension"] = ext_form(opt, name)
        fn = mio.export_landmark_file if exporter in ("ljson", "pts") else mio.export_image
    elif exporter in ("pkl", "pklgz"):
        if opt is not None:
            kw["protocol"] = int(opt[1:])
        fn = mio.export_pickle
    elif exporter == "video":
        if opt is not None:
            kw["fps"] = int(opt[3:])
        fn = mio.export_video
    else:
        raise ValueError(exporter)
    return lambda fp: fn(obj, fp, overwrite=overwrite, **kw)


# ------------------------------------------------------------------------------------------------
class C16(Check):
    id = "C16"
    title = "export/import round trips; files are never clobbered unasked"

    def __init__(self, tier, seed):
        Check.__init__(self, tier, seed)
        _base()  # the parent process owns (and removes) the run's temporary tree
        if tier == "thorough":
            # the core re-expands every 7th merged duplicate with the whole alphabet (confluence check); with the
            # option cross product an overwrite state has ~250 letters and that alone cost 12x the exploration.
            # One in 101 keeps it at about the cost of the exploration itself (VERIF_CONFLUENCE overrides).
            os.environ.setdefault("VERIF_CONFLUENCE", "101")

    def depth(self):
        return 2 if self.tier == "quick" else 3

    # ------------------------------------------------------------------ roots
    def roots(self):
        quick = self.tier == "quick"
        out = []
        nans = NAN_PATTERNS[:3] if quick else NAN_PATTERNS
        n_letters = N_BASE_LETTERS
        # LJSON: bare shapes
        for li in range(n_letters):
            for d in (2, 3):
                for nan in nans:
                    for payload in ("generic", "special") if quick else ("generic", "special", "pixel"):
                        out.append(("lj", "bare", ((8, li),), d, nan, payload))
        # LJSON: managers and dicts with 1..3 groups (group = (name index, shape letter index))
        k = 0
        for li in range(n_letters):
            for d in (2, 3):
                for nan in nans:
                    k += 1
                    out.append(("lj", ("manager", "dict")[k % 2], ((k % 8, li),), d, nan, "generic"))
        pairs = [(i, (5 * i + 3) % n_letters) for i in range(n_letters)] + [((5 * i + 3) % n_letters, i) for i in range(n_letters)] if quick else [(i, j) for i in range(n_letters) for j in range(n_letters)]
        for i, j in pairs:
            for d in (2, 3):
                for nan in (("none", "point") if quick else nans[:3]):
                    k += 1
                    out.append(("lj", ("manager", "dict")[k % 2], ((k % 8, i), ((k + 3) % 8, j)), d, nan, ("generic", "special")[k % 2]))
        triples = [(i, (3 * i + 1) % n_letters, (7 * i + 5) % n_letters) for i in range(n_letters)] if quick else [(i, j, (i + 2 * j + 1) % n_letters) for i in range(n_letters) for j in range(n_letters)]
        for i, j, m in triples:
            for d in (2, 3):
                k += 1
                out.append(("lj", ("manager", "dict")[k % 2], ((k % 8, i), ((k + 1) % 8, j), ((k + 5) % 8, m)), d, NAN_PATTERNS[k % 3], "generic"))
        # LJSON: directed graphs / trees whose edges descend (i -> j with i > j)
        for li in range(N_BASE_LETTERS, len(SHAPE_LETTERS)):
            for d in (2, 3):
                for nan in ("none", "coord"):
                    k += 1
                    out.append(("lj", "bare", ((8, li),), d, nan, "generic"))
                    out.append(("lj", ("manager", "dict")[k % 2], ((k % 8, li), ((k + 3) % 8, 0)), d, nan, "generic"))
        # LJSON size boundaries: 1 point, 2 points (one possible edge), 3 points (one possible triangle);
        # a manager / dict with one group of one point is among them
        for n in SMALL_N:
            for li in range(n_letters):
                if not small_ok(SHAPE_LETTERS[li], n, "ljson") or (quick and n == 3 and SHAPE_LETTERS[li][0] != "TriMesh"):
                    continue
                for d in (2, 3):
                    for nan in (("none", "first")[(li + d + n) % 2],) if quick else ("none", "first", "all", "coord"):
                        k += 1
                        out.append(("lj", "bare", ((8, li),), d, nan, ("generic", "special")[k % 2], n))
                        out.append(("lj", ("manager", "dict")[k % 2], ((k % 8, li),), d, nan, ("special", "generic")[k % 2], n))
        # PTS
        for li in range(n_letters):
            for nan in nans:
                for payload in ("pts", "generic", "pixel"):
                    out.append(("pts", li, nan, payload))
        # coordinates of magnitude 1e5 .. 1e7 and 1e-4 (PTS: three decimals whatever the size; LJSON: exact)
        for li in (0, 2, 8, 11):
            for nan in ("none", "coord"):
                out.append(("pts", li, nan, "mag"))
                for d in (2, 3):
                    out.append(("lj", "bare", ((8, li),), d, nan, "mag"))
        for n in (0,) + SMALL_N:
            for li in range(n_letters):
                if not small_ok(SHAPE_LETTERS[li], n, "pts") or (quick and n == 3 and SHAPE_LETTERS[li][0] != "TriMesh"):
                    continue
                for payload in ("pts", "generic"):
                    for nan in (("none", "first")[(li + n) % 2],) if quick else ("none", "first", "all"):
                        out.append(("pts", li, nan, payload, n))
        # pickles
        for s in L.shape_specs(dims=(2, 3), groups=(0, 2)):
            out.append(("pkl", "shape", s))
        for s in L.image_specs():
            out.append(("pkl", "image", s))
        for d in (2, 3):
            for s in L.transform_specs(d):
                out.append(("pkl", "transform", s))
        for m in MODEL_LETTERS:
            out.append(("pkl", "model", m))
        for c in CONTAINER_LETTERS:
            out.append(("pkl", "container", c))
        for n in (0,) + SMALL_N[:2]:
            for li in range(n_letters):
                if small_ok(SHAPE_LETTERS[li], n, "pkl"):
                    out.append(("pkl", "small", (li, n, 2 + (li + n) % 2)))
        for spec in (("Image", (1, 1), 1, "float64", "-", 0), ("Image", (1, 4), 3, "uint8", "-", 0), ("Image", (3, 1), 2, "float32", "-", 0), ("MaskedImage", (1, 1), 1, "float64", "all", 0),
                     ("MaskedImage", (1, 3), 2, "float32", "single", 0), ("BooleanImage", (1, 1), 1, "bool", "-", 0), ("BooleanImage", (4, 1), 1, "bool", "-", 0), ("Image", (1, 1, 1), 1, "float64", "-", 0)):
            out.append(("pkl", "image", spec))
        # images
        for fmt, mode in FILE_LETTERS_QUICK + ([] if quick else FILE_LETTERS_MORE):
            for norm in (True, False):
                out.append(("imf", fmt, mode, norm))
        for letter in MEM_LETTERS:
            out.append(("imm",) + letter)
        # image size boundaries: 1x1 (also all-0 / all-255), one row, one column, rows ending inside a byte / word
        for si, size in enumerate(SIZES_QUICK + ([] if quick else SIZES_MORE)):
            for fi, (fmt, mode) in enumerate(FILE_SIZED):
                if quick and (fi + si) % 2:
                    continue
                for norm in ((bool((fi + si) // 2 % 2),) if quick else (True, False)):
                    out.append(("imf", fmt, mode, norm, size))
            for mi, letter in enumerate(MEM_SIZED):
                if quick and (mi + si) % 2:
                    continue
                out.append(("imm",) + letter + (size,))
        i = 0
        for a in PROC_IN_QUICK + ([] if quick else PROC_IN_MORE):
            for b in PROC_OUT_QUICK + ([] if quick else PROC_OUT_MORE):
                i += 1
                if a == "ppm" and b == "gif":
                    continue
                out.append(("proc", a, proc_mode(a, b, i), b))
        # overwrite histories
        for fam in OW_FAMILIES:
            for init in OW_INITS:
                out.append(("ow", fam, init))
        return out

    # ------------------------------------------------------------------ build
    def build(self, root):
        d = _new_dir()
        st = {"kind": root[0], "root": root, "dir": d, "gen": 0, "cur": None, "ref": None, "aux": {}}
        kind = root[0]
        if kind == "lj":
            self._build_lj(st, root)
        elif kind == "pts":
            letter = SHAPE_LETTERS[root[1]]
            pts = _apply_nan(_payload(root[3], 2, self.seed, ("pts", root[1]), root[4] if len(root) > 4 else None), root[2])
            obj, ref = make_shape(letter, pts)
            st["cur"], st["ref"] = obj, ref["points"]
        elif kind == "pkl":
            st["cur"] = pkl_object(root, self.seed)
        elif kind == "imf":
            self._build_imf(st, root)
        elif kind == "imm":
            im, exp, fref = mem_image(root[1:], self.seed)
            st["cur"], st["ref"], st["aux"]["fref"] = im, exp, fref
        elif kind == "proc":
            _, a, mode, b = root
            name = "src.%s.%s" % (mode, a)
            exp, _extra = write_source(os.path.join(d, name), mode, u8_arrays(self.seed))
            st["ref"], st["aux"]["srcname"] = exp, name
        elif kind == "ow":
            fam, init = root[1], root[2]
            files = OW_FAMILIES[fam]
            st["fs"] = OrderedDict((name, "absent") for name, _ in files)
            names = [n for n, _ in files]
            pre = [] if init == "empty" else names[:1] if init == "foreign-first" else names
            if fam == "gifvid" and init == "foreign-first":
                pre = names[1:]  # the video-only name must pre-exist to be refusable
            for n in pre:
                with open(os.path.join(d, n), "wb") as fh:
                    fh.write(b"" if init == "zero-byte-all" else FOREIGN)
                st["fs"][n] = "zero-byte" if init == "zero-byte-all" else "foreign"
            st["pristine"] = {}
            st["objs"] = {}
        else:
            raise ValueError(root)
        return st

    def _build_lj(self, st, root):
        from menpo.landmark import LandmarkManager

        _, container, groups, d, nan, payload = root[:6]
        n_pts = root[6] if len(root) > 6 else None
        objs, refs = OrderedDict(), {}
        for gi, (ni, li) in enumerate(groups):
            name = GROUP_NAMES[ni]
            pts = _apply_nan(_payload(payload, d, self.seed, ("lj", gi, li), n_pts), nan if gi != 1 else ("none" if nan == "all" else nan))
            obj, ref = make_shape(SHAPE_LETTERS[li], pts)
            objs[name], refs[name] = obj, ref
        if len(objs) != len(groups):
            from mc.core import HarnessError

            raise HarnessError("group names of a root must be distinct: %r" % (root,))
        if container == "bare":
            st["cur"] = list(objs.values())[0]
            refs = {"LJSON": list(refs.values())[0]}
        elif container == "manager":
            lm = LandmarkManager()
            for k, v in objs.items():
                lm[k] = v
            st["cur"] = lm
        else:
            st["cur"] = dict(objs)
        st["ref"] = refs

    def _build_imf(self, st, root):
        import menpo.io as mio

        _, fmt, mode, norm = root[:4]
        arrs = u8_arrays(self.seed, root[4] if len(root) > 4 else None)
        name = "src.%s.%s" % (mode, fmt)
        exp, extra = write_source(os.path.join(st["dir"], name), mode, arrs)
        st["ref"] = exp
        st["aux"].update(extra)
        st["aux"]["srcname"] = name
        st["aux"]["src_bytes"] = open(os.path.join(st["dir"], name), "rb").read()
        val, exc = _call(st["dir"], "str-abs", name, lambda fp: mio.import_image(fp, normalize=norm))
        if exc is not None:
            raise exc
        st["cur"] = val

    # ------------------------------------------------------------------ static oracle on file roots
    def check_root(self, st, root):
        if root[0] != "imf":
            return []
        from menpo.image import BooleanImage, MaskedImage

        _, fmt, mode, norm = root[:4]
        im, exp = st["cur"], st["ref"]
        fails = []
        where = "import_image"
        if mode == "RGBA" and not norm:
            want = chan_first(st["aux"]["rgba"])
            if im.pixels.dtype != np.uint8 or not np.array_equal(im.pixels, want):
                fails.append(Failure(where, "eight-bit-import", "RGBA file without normalisation: four uint8 channels expected"))
            self.note("imf-import:rgba-raw")
            return fails
        fails.extend(self._cmp_8bit(where, "eight-bit-import", im, exp, norm and mode != "1"))
        if mode == "1":
            if not isinstance(im, BooleanImage) or not np.array_equal(im.pixels[0], st["aux"]["bits"]):
                fails.append(Failure(where, "eight-bit-import", "bilevel file: BooleanImage holding the bits expected, got %s" % type(im).__name__))
        if mode == "RGBA" and norm:
            if not isinstance(im, MaskedImage) or not np.array_equal(im.mask.pixels[0], st["aux"]["mask"]):
                fails.append(Failure(where, "eight-bit-import", "RGBA file: mask must be alpha > 0"))
        self.note("imf-import:%s" % ("float" if norm else "uint8"))
        return fails

    def _cmp_8bit(self, where, clause, im, exp, norm):
        """image pixels hold the 8-bit data `exp` ((H,W) or (H,W,3)): uint8 exactly, or v/255 as float64."""
        want = chan_first(exp)
        px = np.asarray(im.pixels)
        if px.shape != want.shape:
            return [Failure(where, clause, "pixel shape %s, expected %s" % (px.shape, want.shape))]
        if px.dtype == bool:
            ok = np.array_equal(px.astype(np.uint8) * 255, want)
            return [] if ok else [Failure(where, clause, "boolean pixels differ from the bits")]
        if norm:
            if px.dtype != np.float64:
                return [Failure(where, clause, "normalised import has dtype %s" % px.dtype)]
            lvl = np.rint(px * 255.0)
            bad = (lvl != want) | (np.abs(px - want / 255.0) > 1e-15)
            if bad.any():
                i = tuple(int(x) for x in np.argwhere(bad)[0])
                return [Failure(where, clause, "%d of %d values differ; first at %s: expected level %d (%.17g) got %.17g" % (bad.sum(), bad.size, i, want[i], want[i] / 255.0, px[i]))]
            return []
        if px.dtype != np.uint8:
            return [Failure(where, clause, "raw import has dtype %s" % px.dtype)]
        bad = px != want
        if bad.any():
            i = tuple(int(x) for x in np.argwhere(bad)[0])
            return [Failure(where, clause, "%d of %d values differ; first at %s: expected %d got %d" % (bad.sum(), bad.size, i, want[i], px[i]))]
        return []

    # ------------------------------------------------------------------ alphabet
    def _rt_ops(self, exts, level, fifth=(None,)):
        """round-trip letters: ("rt", extension, path spelling, file-name kind, protocol / normalise flag).
        thorough level 0: the full product; otherwise every spelling once per extension (two extensions)
        or with a rotating extension (many), every extension at least once."""
        nks = list(NAMEKINDS)
        out = []
        i = 0
        if self.tier == "thorough" and level == 0:
            for ext in exts:
                for sp_ in PLAIN_SP:
                    for nk in nks:
                        out.append(("rt", ext, sp_, nk, fifth[(i + i // len(nks)) % len(fifth)]))
                        i += 1
            return out
        n_nk = 2 if self.tier == "quick" else 3
        for si, sp_ in enumerate(PLAIN_SP):
            for ext in exts if len(exts) <= 2 else [exts[(si + level) % len(exts)]]:
                out.append(("rt", ext, sp_, nks[i % n_nk], fifth[(i // 2) % len(fifth)]))
                i += 1
        seen = set(o[1] for o in out)
        for j, ext in enumerate(exts):
            if ext not in seen:
                out.append(("rt", ext, PLAIN_SP[j % len(PLAIN_SP)], nks[j % n_nk], fifth[j % len(fifth)]))
        return out

    # refusal kinds the io code distinguishes and raises BEFORE it opens the target (see assumptions() for the
    # refusals that come after the open and are therefore left out)
    REF_KINDS = ["exists", "unknown-ext", "ext-mismatch", "handle-no-ext", "multigroup-pts", "video-buffer", "import-missing", "import-unknown-ext", "import-missing-group"]

    def ops(self, st, level):
        """refused-call letters first (self loops: the valid letters that follow run on the same live objects)."""
        valid = self._valid_ops(st, level)
        if st["kind"] == "proc" or (not valid and st["kind"] != "ow"):
            return valid
        return self._ref_ops(st, level) + valid

    def _ref_ops(self, st, level):
        kind = st["kind"]
        h = zlib.crc32(repr(st["root"]).encode("utf8")) + 3 * level
        if kind == "ow":
            out = []
            for k, (name, exporter) in enumerate(OW_FAMILIES[st["root"][1]]):
                if exporter is None:
                    continue
                sp_ = PLAIN_SP[(h + k) % len(PLAIN_SP)]
                out.append(("ref", "unknown-ext", exporter, "B", name, sp_))
                if exporter in ("ljson", "pts", "image", "gif"):
                    out.append(("ref", "ext-mismatch", exporter, "A", name, PLAIN_SP[(h + k + 1) % len(PLAIN_SP)]))
                if st["fs"][name] == "absent":
                    out.append(("ref", "import-missing", exporter, "A", name, PLAIN_SP[(h + k + 2) % len(PLAIN_SP)]))
            return out
        fam, ext = {"lj": ("landmark", ".ljson"), "pts": ("landmark", ".pts"), "pkl": ("pickle", (".pkl", ".pkl.gz")[(h + level) % 2]), "imf": ("image", (".png", ".tif")[(h + level) % 2]), "imm": ("image", (".bmp", ".png")[(h + level) % 2])}[kind]
        kinds = ["unknown-ext", "import-missing", "import-unknown-ext"]
        if fam in ("landmark", "image"):
            kinds += ["ext-mismatch", "handle-no-ext"]
        if fam == "image":
            kinds.append("video-buffer")
        if kind == "lj":
            kinds.append("import-missing-group")
            if not hasattr(st["cur"], "n_points"):
                kinds.append("multigroup-pts")
        if self.tier == "quick":  # the refusal on an existing path always, two of the other kinds per state in rotation
            kinds = [kinds[(h + j) % len(kinds)] for j in range(2)]
            kinds = kinds[:1] if kinds[0] == kinds[1] else kinds
        nks = list(NAMEKINDS)[:2]
        out = [("ref", "exists", fam, ext, PLAIN_SP[h % len(PLAIN_SP)], nks[h % 2])]
        for j, rk in enumerate(kinds):
            out.append(("ref", rk, fam, ext, PLAIN_SP[(h + j + 1) % len(PLAIN_SP)], nks[(h + j + 1) % 2]))
        return out

    def _valid_ops(self, st, level):
        kind = st["kind"]
        if kind != "ow" and level >= 2:
            return []
        if kind == "proc":
            return [("fresh-process", "." + st["root"][3])] if level == 0 else []
        h = zlib.crc32(repr(st["root"]).encode("utf8"))

        def with_opts(ops, sixth, seventh):
            """slots 6 / 7: an export option form and an import option form, rotated so that (over the ops of a
            state and over the roots) every value meets every spelling, name kind and value of the other option."""
            return [o[:5] + (sixth[(i + h + level) % len(sixth)], seventh[(i // len(sixth) + i + h) % len(seventh)]) for i, o in enumerate(ops)]

        if kind in ("lj", "pts"):
            ext = ".ljson" if kind == "lj" else ".pts"
            if self.tier == "thorough" and level == 0:  # all pairs of (spelling, extension form, name kind, import form)
                nks = list(NAMEKINDS)
                ops = [("rt", ext, sp_, nks[(si + fi) % 3], None, form, ("all", "group")[(si + fi) % 2]) for fi, form in enumerate(EXT_FORMS) for si, sp_ in enumerate(PLAIN_SP)]
            else:
                ops = with_opts(self._rt_ops([ext], level), EXT_FORMS, ("all", "group"))
            if kind == "lj" and not hasattr(st["cur"], "n_points"):
                # export_landmark_file compares Path(fp).suffix with ".ljson" case-sensitively for mappings:
                # an upper-case extension is refused (ValueError) for dicts / managers - see assumptions()
                ops = [o for o in ops if o[3] != "upper"]
            return ops
        if kind == "pkl":
            ops = self._rt_ops([".pkl", ".pkl.gz"], level, (None, 4, 2) if self.tier == "quick" else (None, 4, 0, 2))
            return [o + (None, (None, "latin1")[(i // 3 + h) % 2]) for i, o in enumerate(ops)]
        if kind in ("imf", "imm"):
            root = st["root"]
            if kind == "imf" and root[2] == "RGBA" and not root[3]:
                return []  # four channels: not exportable, only the import clause applies
            outs = LOSSLESS_OUT[:6] if self.tier == "quick" else LOSSLESS_OUT
            if st["cur"].pixels.shape[-1] < 4:
                outs = [o for o in outs if o != "pcx"]  # Pillow alone does not round-trip RGB pcx rows shorter than 4 pixels
            ops = self._rt_ops(["." + o for o in outs], level)
            # the protocol slot carries the normalisation flag of the re-import
            res = []
            base = bool(root[3]) if kind == "imf" else True
            for i, o in enumerate(ops):
                norm = (not base, base, None)[i % 3]  # None: normalize not passed (its default is True)
                res.append(o[:4] + (norm, EXT_FORMS[(i + i // 4 + h + level) % 4], ("default", "none")[(i // 3 + h) % 2]))
            return res
        return self._ow_ops(st)

    def _ow_ops(self, st):
        """("exp", exporter, object, name, spelling, overwrite, option form).  thorough: the full product of
        object x name x spelling x overwrite x option; quick: that product without the option, plus every option
        form with every overwrite value and spelling (names / objects rotating): all pairs of option values."""
        fam = st["root"][1]
        files = OW_FAMILIES[fam]
        mixed = fam == "mixed"
        quick = self.tier == "quick"
        sps = ["str-rel", "path-abs"] if mixed else PLAIN_SP
        by_exp = OrderedDict()
        for name, exporter in files:
            if exporter is not None:
                by_exp.setdefault(exporter, []).append(name)
        out = []
        for ow in (False, True):
            for exporter, names in by_exp.items():
                forms = opt_forms(exporter)
                for name in names:
                    for si, sp_ in enumerate(sps):
                        for which in ("A", "B") + (("M", "D") if exporter == "ljson" and not mixed and si < 2 else ()):
                            for form in forms[:1] if quick or mixed else forms:
                                out.append(("exp", exporter, which, name, sp_, ow, form))
        if quick or mixed:
            for exporter, names in by_exp.items():
                for form in opt_forms(exporter)[1:]:
                    i = 0
                    for ow in (False, True):
                        for sp_ in sps:
                            out.append(("exp", exporter, "AB"[(i // 2) % 2], names[i % len(names)], sp_, ow, form))
                            i += 1
        # the flag in other legal forms (numpy booleans, 0 / 1): only its truth value may matter
        for exporter, names in by_exp.items():
            forms = opt_forms(exporter)
            for ni, name in enumerate(names):
                for k, owf in enumerate(("npF", "i0", "npT", "i1")):
                    for form in ([forms[(k + ni) % len(forms)]] if quick or mixed else forms):
                        out.append(("exp", exporter, "B", name, "str-rel", owf, form))
        for name, exporter in files:
            exists = st["fs"][name] != "absent"
            if not exists:
                continue
            # refusal-only letters: spellings that need expansion, and the video exporter (no ffmpeg here)
            if exporter is not None:
                forms = opt_forms(exporter)
                for k, sp_ in enumerate(EXOTIC_SP):
                    for form in ([forms[0], forms[1 + k % (len(forms) - 1)]] if quick or mixed else forms):
                        out.append(("exp", exporter, "B", name, sp_, False, form))
            if name.endswith(VIDEO_EXT):
                for k, sp_ in enumerate(["str-rel", "path-abs"] if mixed else PLAIN_SP + EXOTIC_SP):
                    for form in ([FPS_FORMS[k % 3]] if quick and not mixed else FPS_FORMS):
                        out.append(("exp", "video", "A", name, sp_, False, form))
        return out

    # ------------------------------------------------------------------ canon
    def canon(self, st):
        if st["kind"] == "ow":
            snap = _snapshot(st["dir"])
            real = tuple(sorted((n, _sha(_content_key(n, b))) for n, b in snap.items()))
            return ("ow", st["root"], tuple(st["fs"].items()), real)
        cur = st["cur"]
        has_path = hasattr(cur, "path") if not isinstance(cur, (dict, list, tuple)) else any(hasattr(x, "path") for x in (cur.values() if isinstance(cur, dict) else cur))
        key = obs_key(observe(cur, probe=False), decimals=12)
        return (st["root"], min(st["gen"], 1), bool(has_path), _sha(repr(key).encode("utf8", "backslashreplace")))

    # ------------------------------------------------------------------ step
    def apply(self, st, op, verify=True):
        fails = self._apply(st, op, verify)
        for f in fails:  # temporary directory names are random: keep them out of the (replay-compared) details
            f.detail = f.detail.replace(st["dir"], "<dir>").replace(os.path.basename(st["dir"]), "<dir>").replace(_base(), "<base>")
        return fails

    def _apply(self, st, op, verify=True):
        kind = st["kind"]
        if op[0] == "ref":
            return self._apply_ref(st, op, verify)
        if kind == "ow":
            return self._apply_ow(st, op, verify)
        if kind == "proc":
            return self._apply_proc(st, op) if verify else []  # leaves no state behind
        before = _snapshot(st["dir"])
        if kind == "lj":
            fails = self._apply_lj(st, op, verify)
        elif kind == "pts":
            fails = self._apply_pts(st, op, verify)
        elif kind == "pkl":
            fails = self._apply_pkl(st, op, verify)
        else:
            fails = self._apply_img(st, op, verify)
        # the op removes the one file it made; nothing else may have appeared or changed
        name = _fname(op[3], op[1])
        p = os.path.join(st["dir"], name)
        if os.path.exists(p):
            os.remove(p)
        if verify:
            after = _snapshot(st["dir"])
            if after != before:
                diff = sorted(set(after) ^ set(before)) or [n for n in after if after[n] != before[n]]
                fails.append(Failure(op[1].lstrip("."), "bystander-file-changed", "files %r appeared / changed besides the export target %r" % (diff, name)))
        st["gen"] += 1
        return fails if verify else []

    # --- LJSON
    def _apply_lj(self, st, op, verify):
        import menpo.io as mio

        _, ext, sp_, nk, _p = op[:5]
        form, impopt = (op[5], op[6]) if len(op) > 6 else (None, "all")
        name = _fname(nk, ext)
        where = "ljson"
        obj = st["cur"]
        ekw = {} if form is None else {"extension": ext_form(form, name)}
        _, exc = _call(st["dir"], sp_, name, lambda fp: mio.export_landmark_file(obj, fp, **ekw))
        if exc is not None:
            return [Failure(where, "export-raised", "export_landmark_file(%s, %s %r, %r) raised %s: %s" % (type(obj).__name__, sp_, name, ekw, type(exc).__name__, exc))]
        if impopt == "group":  # every group asked for by name: the same groups as the mapping returned without the option
            gnames = list(st["ref"].keys())
            back, exc = _call(st["dir"], IMPORT_SP[sp_], name, lambda fp: OrderedDict((g, mio.import_landmark_file(fp, group=g)) for g in gnames))
        else:
            back, exc = _call(st["dir"], IMPORT_SP[sp_], name, lambda fp: mio.import_landmark_file(fp))
        if verify:
            self.note("rtopt:ext:%s" % form)
            self.note("imp:group:%s" % impopt)
        if exc is not None:
            return [Failure(where, "import-raised", "import_landmark_file(%r) raised %s: %s" % (name, type(exc).__name__, exc))]
        fails = []
        if verify:
            fails = self._cmp_lj(where, back, st["ref"])
            refs = st["ref"]
            self.note("lj:ok" if not fails else "lj:failed")
            self.note("lj:groups%d" % len(refs))
            if st["root"][5] == "mag":
                self.note("lj:magnitudes")
            for gi_ in st["root"][2]:
                if gi_[1] >= N_BASE_LETTERS:
                    self.note("lj:descending-edges:%s" % SHAPE_LETTERS[gi_[1]][1])
            n_min = min(r["points"].shape[0] for r in refs.values())
            if n_min < N:
                self.note("lj:n%d" % n_min)
                if n_min == 1 and len(refs) == 1 and st["root"][1] != "bare":
                    self.note("lj:%s-one-group-one-point" % st["root"][1])
            for gname, r in refs.items():
                if np.isnan(r["points"]).any():
                    self.note("lj:nan-roundtrip")
                self.note("lj:edges-%s" % ("nonempty" if r["edges"] else "empty"))
                if len(r["labels"]) > 1:
                    self.note("lj:labels-order-checked")
                if any(ord(c) > 127 for c in gname):
                    self.note("lj:unicode-group")
            self.note("lj:gen%d" % min(st["gen"], 1))
            self.note("sp:%s" % sp_)
            self.note("name:%s" % nk)
        if isinstance(back, dict):
            st["cur"] = back
        return fails

    def _cmp_lj(self, where, back, refs):
        if not isinstance(back, dict):
            return [Failure(where, "group-names", "import returned %s, a mapping of groups expected" % type(back).__name__)]
        fails = []
        if set(back.keys()) != set(refs.keys()) or len(back) != len(refs):
            fails.append(Failure(where, "group-names", "expected groups %r got %r" % (sorted(refs), sorted(back.keys()))))
        for name, ref in refs.items():
            if name in back:
                fails.extend(cmp_group(where, name, back[name], ref))
        return fails

    # --- PTS
    def _apply_pts(self, st, op, verify):
        import menpo.io as mio

        _, ext, sp_, nk, _p = op[:5]
        form, impopt = (op[5], op[6]) if len(op) > 6 else (None, "all")
        name = _fname(nk, ext)
        where = "pts"
        obj = st["cur"]
        exported = np.array(obj.points, copy=True)
        ekw = {} if form is None else {"extension": ext_form(form, name)}
        _, exc = _call(st["dir"], sp_, name, lambda fp: mio.export_landmark_file(obj, fp, **ekw))
        if exc is not None:
            return [Failure(where, "export-raised", "export_landmark_file(%s, %r, %r) raised %s: %s" % (type(obj).__name__, name, ekw, type(exc).__name__, exc))]
        if impopt == "group":
            back, exc = _call(st["dir"], IMPORT_SP[sp_], name, lambda fp: {"PTS": mio.import_landmark_file(fp, group="PTS")})
        else:
            back, exc = _call(st["dir"], IMPORT_SP[sp_], name, lambda fp: mio.import_landmark_file(fp))
        if verify:
            self.note("rtopt:ext:%s" % form)
            self.note("imp:group:%s" % impopt)
        if exc is not None:
            return [Failure(where, "import-raised", "import_landmark_file(%r) raised %s: %s" % (name, type(exc).__name__, exc))]
        fails = []
        got = None
        if isinstance(back, dict) and len(back) == 1:
            got = list(back.values())[0]
        if verify:
            if got is None:
                fails.append(Failure(where, "group-names", "one group expected, got %r" % (back,)))
            else:
                for label, refpts in (("exported", exported), ("original", st["ref"])):
                    gp = np.asarray(got.points)
                    tol = 5e-4 * (1 + 1e-9) + 1e-12 if label == "exported" else 1e-3 * (1 + 1e-9)
                    if gp.shape != refpts.shape or not np.array_equal(np.isnan(gp), np.isnan(refpts)):
                        fails.append(Failure(where, "pts-precision", "shape / missing values differ from the %s points: %r vs %r" % (label, gp, refpts)))
                        break
                    with np.errstate(invalid="ignore"):
                        # the format's half unit in the third decimal plus a few ulps of x + 1 (written, parsed, shifted back)
                        excess = np.abs(gp - refpts) - (tol + 4 * np.spacing(np.abs(refpts) + 1.0))
                        bad = bool(refpts.size) and bool(np.nanmax(np.where(np.isnan(excess), -1.0, excess)) > 0)
                        err = np.nanmax(np.abs(gp - refpts)) if refpts.size and np.isfinite(refpts).any() else 0.0
                    if bad:
                        fails.append(Failure(where, "pts-precision", "max |imported - %s| = %.6g > %.3g\n%r\nvs\n%r" % (label, err, tol, gp, refpts)))
                        break
            self.note("pts:ok" if not fails else "pts:failed")
            if st["root"][3] == "mag":
                self.note("pts:magnitudes")
            if st["ref"].shape[0] < N:
                self.note("pts:n%d" % st["ref"].shape[0])
            if np.isnan(st["ref"]).any():
                self.note("pts:nan")
            self.note("pts:gen%d" % min(st["gen"], 1))
            self.note("sp:%s" % sp_)
        if got is not None:
            st["cur"] = got
        return fails

    # --- pickle
    def _apply_pkl(self, st, op, verify):
        import menpo.io as mio

        _, ext, sp_, nk, proto = op[:5]
        enc = op[6] if len(op) > 6 else None
        ikw = {} if enc is None else {"encoding": enc}
        name = _fname(nk, ext)
        where = "pickle"
        obj = st["cur"]
        kw = {} if proto is None else {"protocol": proto}
        obs_before = observe(obj) if verify else None
        _, exc = _call(st["dir"], sp_, name, lambda fp: mio.export_pickle(obj, fp, **kw))
        if exc is not None:
            return [Failure(where, "export-raised", "export_pickle(%s, %r) raised %s: %s" % (type(obj).__name__, name, type(exc).__name__, exc))]
        back, exc = _call(st["dir"], IMPORT_SP[sp_], name, lambda fp: mio.import_pickle(fp, **ikw))
        if verify:
            self.note("rtopt:protocol:%s" % proto)
            self.note("imp:encoding:%s" % enc)
        if exc is not None:
            return [Failure(where, "import-raised", "import_pickle(%r) raised %s: %s" % (name, type(exc).__name__, exc))]
        fails = []
        if verify:
            if type(back) is not type(obj):
                fails.append(Failure(where, "pickle-state", "%s came back as %s" % (type(obj).__name__, type(back).__name__)))
            else:
                dd = obs_diff(obs_before, observe(back))
                if dd:
                    fails.append(Failure(where, "pickle-state", "%s: observation differs after %s round trip: %s" % (type(obj).__name__, ext, dd)))
                sd = state_diff(obj, back)
                if sd:
                    fails.append(Failure(where, "pickle-state", "%s: attribute state differs after %s round trip: %s" % (type(obj).__name__, ext, sd)))
                if obs_diff(obs_before, observe(obj)):
                    fails.append(Failure(where, "exported-object-changed", "%s was modified by export_pickle" % type(obj).__name__))
            # the file is what its name says
            raw = open(os.path.join(st["dir"], name), "rb").read()
            is_gz = raw[:2] == b"\x1f\x8b"
            if is_gz != ext.endswith(".gz"):
                fails.append(Failure(where, "pickle-state", "%s file is %sgzip compressed" % (ext, "" if is_gz else "not ")))
            self.note("pkl:%s:%s" % ("ok" if not fails else "failed", ext))
            self.note("pkl:class:%s" % st["root"][1])
            if st["root"][1] == "small":
                self.note("pkl:small:n%d" % st["root"][2][1])
            if st["root"][1] == "image" and tuple(st["root"][2][1])[:2] == (1, 1):
                self.note("pkl:image-1x1")
            self.note("pkl:gen%d" % min(st["gen"], 1))
            self.note("sp:%s" % sp_)
        st["cur"] = back
        return fails

    # --- images
    def _apply_img(self, st, op, verify):
        import menpo.io as mio
        import PIL.Image as PI

        _, ext, sp_, nk, norm_opt = op[:5]
        form, resolver = (op[5], op[6]) if len(op) > 6 else (None, "default")
        norm = True if norm_opt is None else norm_opt  # the documented default of `normalize`
        ikw = {} if norm_opt is None else {"normalize": norm_opt}
        if resolver == "none":
            ikw["landmark_resolver"] = None
        ekw = {} if form is None else {"extension": ext_form(form, _fname(nk, ext))}
        name = _fname(nk, ext)
        where = "image"
        im = st["cur"]
        exp = st["ref"]
        fref = st["aux"].get("fref")
        px_before = np.array(im.pixels, copy=True)
        _, exc = _call(st["dir"], sp_, name, lambda fp: mio.export_image(im, fp, **ekw))
        if exc is not None:
            return [Failure(where, "export-raised", "export_image(%s %s%s, %r) raised %s: %s" % (type(im).__name__, im.pixels.dtype, im.pixels.shape, name, type(exc).__name__, exc))]
        back, exc = _call(st["dir"], IMPORT_SP[sp_], name, lambda fp: mio.import_image(fp, **ikw))
        if verify:
            self.note("rtopt:ext:%s" % form)
            self.note("imp:normalize:%s" % norm_opt)
            self.note("imp:resolver:%s" % resolver)
        if exc is not None:
            return [Failure(where, "import-raised", "import_image(%r) raised %s: %s" % (name, type(exc).__name__, exc))]
        fails = []
        if verify:
            with PI.open(os.path.join(st["dir"], name)) as pil:
                dec = np.asarray(pil.convert("RGB") if pil.mode == "P" else pil)
            if exp is not None:
                # eight-bit data: the file decodes to it, the re-import holds it, and equals the previous import
                if dec.shape != exp.shape or dec.dtype != np.uint8 or not np.array_equal(dec, exp):
                    nbad = int((dec != exp).sum()) if dec.shape == exp.shape else -1
                    fails.append(Failure(where, "eight-bit-unchanged", "%s file decodes to %s%s, %d values differ from the source data %s" % (ext, dec.dtype, dec.shape, nbad, exp.shape)))
                fails.extend(self._cmp_8bit(where, "eight-bit-unchanged", back, exp, norm))
                was_import = st["kind"] == "imf" or st["gen"] > 0  # the exported image is itself an import
                if was_import and back.pixels.dtype == px_before.dtype and px_before.dtype != bool:
                    if back.pixels.shape != px_before.shape or not np.array_equal(back.pixels, px_before):
                        fails.append(Failure(where, "eight-bit-unchanged", "re-import differs from the import that was exported (%d values)" % int((back.pixels != px_before).sum())))
                self.note("img8:%s" % ("ok" if not fails else "failed"))
                self.note("img8:out%s" % ext)
            else:
                q = 1.0 / 255.0
                d8 = chan_first(dec).astype(np.float64) / 255.0 if dec.ndim in (2, 3) else None
                if d8 is None or d8.shape != fref.shape or not (np.abs(d8 - fref) < q).all():
                    fails.append(Failure(where, "float-quantisation", "decoded file is a quantisation level or more away from the float data (max %.4g levels)" % (np.abs(d8 - fref).max() * 255 if d8 is not None and d8.shape == fref.shape else -1)))
                bp = np.asarray(back.pixels).astype(np.float64) / (255.0 if back.pixels.dtype == np.uint8 else 1.0)
                if bp.shape != fref.shape or not (np.abs(bp - fref) < q).all():
                    fails.append(Failure(where, "float-quantisation", "re-imported float image changed by a quantisation level or more (max %.4g levels)" % (np.abs(bp - fref).max() * 255 if bp.shape == fref.shape else -1)))
                self.note("imgf:%s" % ("ok" if not fails else "failed"))
            if not np.array_equal(np.asarray(im.pixels), px_before):
                fails.append(Failure(where, "exported-object-changed", "export_image modified the pixels of its argument"))
            self.note("img:reimport-%s" % ("float" if norm else "uint8"))
            hh, ww = px_before.shape[-2:]
            if hh == 1 or ww == 1:
                self.note("img:size:%s" % ("1x1" if hh == ww else "1xN" if hh == 1 else "Nx1"))
                if hh == ww and exp is not None and exp.min() == exp.max() and int(exp.min()) in (0, 255):
                    self.note("img:1x1-value-%d" % int(exp.min()))
            self.note("sp:%s" % sp_)
            self.note("img:gen%d" % min(st["gen"], 1))
        if exp is None:
            # what came back from the file is eight-bit data: from here on it must survive unchanged
            bp = np.asarray(back.pixels).astype(np.float64) / (255.0 if back.pixels.dtype == np.uint8 else 1.0)
            lv = np.rint(bp * 255.0)
            if bp.ndim == 3 and bp.shape[0] in (1, 3) and (np.abs(bp - lv / 255.0) <= 1e-15).all():
                lv = lv.astype(np.uint8)
                st["ref"] = np.ascontiguousarray(lv[0] if lv.shape[0] == 1 else np.moveaxis(lv, 0, -1))
                st["aux"]["fref"] = None
            else:
                st["aux"]["fref"] = bp
        st["cur"] = back
        return fails

    # --- refused calls
    def _apply_ref(self, st, op, verify):
        """one refused call, twice.  (a) it raises the expected kind of exception, (b) files and objects are as
        before, (c) the retry is refused in the same way; (d) is the business of the letters that follow."""
        import io

        import menpo.io as mio
        from menpo.io.exceptions import OverwriteError

        d = st["dir"]
        _, rkind, fam, a4, a5 = op[:5]
        made = []  # files put there by the harness for this letter only
        if st["kind"] == "ow":
            exporter, which, name, sp_ = fam, a4, a5, op[5]
            obj, _ref = self._ow_obj(st, exporter, which)
            fam = {"ljson": "landmark", "pts": "landmark", "image": "image", "gif": "image", "pkl": "pickle", "pklgz": "pickle"}[exporter]
            ext = "." + name.split(".", 1)[1].split(".")[-1] if not name.endswith(".pkl.gz") else ".pkl.gz"
            where = "refused:%s" % exporter
        else:
            ext, sp_, nk = a4, a5, op[5]
            name = _fname(nk, ext)
            obj = st["cur"]
            where = "refused:%s" % {"lj": "ljson", "pts": "pts", "pkl": "pickle"}.get(st["kind"], "image")

        def put(fname, data=FOREIGN):
            with open(os.path.join(d, fname), "wb") as fh:
                fh.write(data)
            made.append(fname)

        exp_fn = {"landmark": mio.export_landmark_file, "image": mio.export_image, "pickle": mio.export_pickle}[fam]
        imp_fn = {"landmark": mio.import_landmark_file, "image": mio.import_image, "pickle": mio.import_pickle}[fam]
        want, never = ValueError, OverwriteError
        buf = None
        target = name
        if rkind == "exists":
            put(name)
            fn = lambda fp: exp_fn(obj, fp)  # noqa: E731
            want, never = OverwriteError, ()
        elif rkind == "unknown-ext":
            target = name + ".c16x"
            fn = lambda fp: exp_fn(obj, fp, overwrite=True)  # noqa: E731
        elif rkind == "ext-mismatch":
            other = {".ljson": "pts", ".pts": ".LJSON", ".bmp": "png"}.get(ext.lower(), ".bmp")
            if st["kind"] != "ow":
                put(name)  # overwrite=True, yet the call is refused for another reason: the file must survive
            fn = lambda fp: exp_fn(obj, fp, extension=other, overwrite=True)  # noqa: E731
        elif rkind == "multigroup-pts":
            target = NAMEKINDS[nk] + ".pts"
            put(target)
            fn = lambda fp: exp_fn(obj, fp, overwrite=True)  # noqa: E731
        elif rkind == "handle-no-ext":
            buf = io.BytesIO()
            fn = lambda fp: exp_fn(obj, buf)  # noqa: E731
        elif rkind == "video-buffer":
            buf = io.BytesIO()
            fn = lambda fp: mio.export_video([obj, obj], buf)  # noqa: E731
        elif rkind == "import-missing":
            fn = lambda fp: imp_fn(fp)  # noqa: E731
        elif rkind == "import-unknown-ext":
            target = name + ".c16x"
            put(target)
            fn = lambda fp: imp_fn(fp)  # noqa: E731
        elif rkind == "import-missing-group":
            mio.export_landmark_file(obj, os.path.join(d, name))
            made.append(name)
            fn = lambda fp: mio.import_landmark_file(fp, group="no such group \u00fc")  # noqa: E731
            want, never = KeyError, ()
        else:
            raise ValueError(op)
        obs_b = observe(obj, probe=False) if verify else None
        before = _snapshot(d)
        _, e1 = _call(d, sp_, target, fn)
        mid = _snapshot(d)
        _, e2 = _call(d, sp_, target, fn)
        after = _snapshot(d)
        fails = []
        if verify:
            what = "%s %s(%s, %s %r)" % (rkind, fam, type(obj).__name__, sp_, target)
            if e1 is None or not isinstance(e1, want) or (never and isinstance(e1, never)):
                fails.append(Failure(where, "overwrite-error" if rkind == "exists" else "refused-call-raises", "%s: expected %s%s, got %s" % (what, want.__name__, " (not OverwriteError)" if never else "", "no exception" if e1 is None else "%s: %s" % (type(e1).__name__, e1))))
            if mid != before or (buf is not None and buf.getvalue() != b""):
                changed = [n for n in sorted(set(mid) | set(before)) if mid.get(n) != before.get(n)]
                fails.append(Failure(where, "file-intact" if rkind == "exists" else "refused-call-state", "%s: the refused call changed files %r%s" % (what, changed, "" if buf is None or not buf.getvalue() else " and wrote %d bytes into the buffer" % len(buf.getvalue()))))
            dd = obs_diff(obs_b, observe(obj, probe=False))
            if dd:
                fails.append(Failure(where, "refused-call-state", "%s: the refused call changed its argument: %s" % (what, dd)))
            if e1 is not None and (type(e2) is not type(e1) or str(e2) != str(e1) or after != mid):
                fails.append(Failure(where, "refused-call-retry", "%s: first %s: %s / retry %s" % (what, type(e1).__name__, e1, "no exception" if e2 is None else "%s: %s" % (type(e2).__name__, e2))))
            self.note("ref:%s:%s" % (rkind, "refused" if not fails else "failed"))
            if rkind == "exists":
                self.note("ref:exists:%s:%s" % (fam, type(obj).__name__))
            self.note("refsp:%s" % sp_)
        for fname in made:
            pth = os.path.join(d, fname)
            if os.path.exists(pth):
                os.remove(pth)
        if st["kind"] == "ow" and after != before:
            for n in st["fs"]:
                if after.get(n) != before.get(n):
                    st["fs"][n] = "clobbered:" + _sha(after.get(n, b"")) if n in after else "absent"
        return fails if verify else []

    # --- import then export in a fresh interpreter
    def _apply_proc(self, st, op):
        import json
        import subprocess
        import sys

        import PIL.Image as PI
        from mc.core import HarnessError

        _, a, mode, b = st["root"]
        where = "image"
        src, dst = st["aux"]["srcname"], "out.v1." + b
        reimport = b != "gif"  # menpo reads gif through ffmpeg (not installed): decoded with Pillow below
        p = subprocess.run([sys.executable, "-c", PROC_SCRIPT, src, dst, "1" if reimport else "0"], cwd=st["dir"], env=dict(os.environ), capture_output=True, text=True, timeout=300)
        line = [l for l in p.stdout.splitlines() if l.startswith("C16JSON ")]
        if not line:
            raise HarnessError("fresh interpreter gave no result (rc=%s): %s" % (p.returncode, (p.stderr or "")[-400:]))
        res = json.loads(line[-1][len("C16JSON "):])
        if "fatal" in res:
            return [Failure(where, "import-raised", "fresh process: import_image(%s) failed: %s" % (src, res["fatal"]))]
        exp = st["ref"]
        want = chan_first(exp)
        fails = []

        def cmp_digest(dg, what, clause):
            if dg["shape"] != list(want.shape) or dg["levels"] != want.astype(int).ravel().tolist() or not dg["maxdev"] <= 1e-15:
                nbad = int((np.array(dg["levels"]) != want.ravel()).sum()) if dg["shape"] == list(want.shape) else -1
                fails.append(Failure(where, clause, "fresh process, %s -> %s: %s holds %s%s, %d values differ from the source data, max deviation from a level %.3g" % (a, b, what, dg["dtype"], tuple(dg["shape"]), nbad, dg["maxdev"])))

        cmp_digest(res["import"], "the import", "eight-bit-import")
        if res["export"] != "ok":
            fails.append(Failure(where, "export-raised", "fresh process: import_image(%s) then export_image(.., %r) raised %s" % (src, dst, res["export"])))
        if res["dst_size"] == 0:
            fails.append(Failure(where, "empty-file-left-behind", "fresh process: import_image(%s) then export_image(.., %r) (%s) left an empty file" % (src, dst, res["export"])))
        if res["export"] == "ok":
            with PI.open(os.path.join(st["dir"], dst)) as pil:
                dec = np.asarray(pil.convert("RGB") if pil.mode == "P" and exp.ndim == 3 else pil.convert("L") if pil.mode == "P" else pil)
            if dec.shape != exp.shape or not np.array_equal(dec, exp):
                fails.append(Failure(where, "eight-bit-unchanged", "fresh process, %s -> %s: the written file decodes to %s%s, not to the source data" % (a, b, dec.dtype, dec.shape)))
            if reimport:
                if "reimport_error" in res:
                    fails.append(Failure(where, "import-raised", "fresh process: re-import of %r raised %s" % (dst, res["reimport_error"])))
                else:
                    cmp_digest(res["reimport"], "the re-import", "eight-bit-unchanged")
                    if not res["reimport_same"]:
                        fails.append(Failure(where, "eight-bit-unchanged", "fresh process, %s -> %s: re-import differs from the import that was exported" % (a, b)))
        if os.path.exists(os.path.join(st["dir"], dst)):
            os.remove(os.path.join(st["dir"], dst))
        self.note("proc:%s" % ("ok" if not fails else "failed"))
        self.note("proc:in.%s" % a)
        self.note("proc:out.%s" % b)
        if a in PREINIT_FORMATS and b not in PREINIT_FORMATS:
            self.note("proc:preinit-import-then-late-plugin-export")
        return fails

    # --- overwrite histories
    def _ow_obj(self, st, exporter, which):
        key = (exporter, which)
        if key not in st["objs"]:
            if exporter == "video":
                from menpo.image import Image

                st["objs"][key] = ([Image(np.zeros((1, 4, 4))), Image(np.ones((1, 4, 4)))], None)
            else:
                st["objs"][key] = ow_object(exporter, which, self.seed)
        return st["objs"][key]

    def _pristine(self, st, exporter, which, name, opt=None):
        """content the same export (same options that shape the content) writes on a path that does not exist."""
        opt = opt if exporter in ("pkl", "pklgz") and opt not in (None, "p2") else None  # the model: only protocol != default matters
        key = (exporter, which, name, opt)
        # never cached: reading an object (observe) may fill lazily created attributes and change its pickle,
        # so the pristine export is made at the very moment of the comparison, from the very same object state
        if True:
            obj, _ = self._ow_obj(st, exporter, which)
            pd = _shared("pristine")
            p = os.path.join(pd, name)
            if os.path.exists(p):
                os.remove(p)
            _export_call(exporter, obj, False, opt, name)(p)
            with open(p, "rb") as fh:
                st["pristine"][key] = _content_key(name, fh.read())
            os.remove(p)
        return st["pristine"][key]

    def _apply_ow(self, st, op, verify):
        from menpo.io.exceptions import OverwriteError

        _, exporter, which, name, sp_, ow_spec = op[:6]
        opt = op[6] if len(op) > 6 else None
        ow_val = {"npF": np.bool_(False), "i0": 0, "npT": np.bool_(True), "i1": 1}.get(ow_spec, ow_spec) if isinstance(ow_spec, str) else ow_spec
        ow = bool(ow_val)
        if isinstance(ow_spec, str):
            self.note("ow:flag-form:%s" % ow_spec)
        where = "overwrite:%s" % exporter
        obj, ref = self._ow_obj(st, exporter, which)
        exists = st["fs"][name] != "absent"
        before = _snapshot(st["dir"])
        if verify and (name in before) != exists:
            from mc.core import HarnessError

            raise HarnessError("model and directory disagree before the op: %r %r" % (sorted(before), st["fs"]))
        _, exc = _call(st["dir"], sp_, name, _export_call(exporter, obj, ow_val, opt, name))
        after = _snapshot(st["dir"])
        fails = []
        if exists and not ow:
            # refusal clause
            if verify:
                if not isinstance(exc, OverwriteError):
                    fails.append(Failure(where, "overwrite-error", "%s exists, overwrite=False, spelling %s: expected OverwriteError, got %s" % (name, sp_, "no exception" if exc is None else "%s: %s" % (type(exc).__name__, exc))))
                if after != before:
                    changed = [n for n in sorted(set(after) | set(before)) if after.get(n) != before.get(n)]
                    fails.append(Failure(where, "file-intact", "refused export (%s, overwrite=False) changed %r: %s" % (sp_, changed, "; ".join("%s %s -> %s bytes" % (n, len(before.get(n, b"")), len(after.get(n, b""))) for n in changed))))
                _, exc2 = _call(st["dir"], sp_, name, _export_call(exporter, obj, ow_val, opt, name))
                if isinstance(exc, OverwriteError) and (type(exc2) is not type(exc) or str(exc2) != str(exc) or _snapshot(st["dir"]) != after):
                    fails.append(Failure(where, "refused-call-retry", "%s exists, overwrite=False, spelling %s: the retry was not refused in the same way (%r)" % (name, sp_, exc2)))
                self.note("ow:refused:%s" % exporter)
                self.note("owopt:refused:%s:%s" % ({"ljson": "ext", "pts": "ext", "image": "ext", "gif": "ext", "pkl": "protocol", "pklgz": "protocol", "video": "fps"}[exporter], opt))
                self.note("ow:refused-obj:%s" % type(obj).__name__)
                self.note("owsp:refused:%s" % sp_)
                self.note("ow:refused-over:%s" % (st["fs"][name] if st["fs"][name] in ("foreign", "zero-byte") else "own"))
            # keep the model in step with the directory so that a replay of this history stays well defined
            if name in after and after[name] != before.get(name):
                st["fs"][name] = "clobbered:" + _sha(after[name])
            return fails
        # success clause
        if exc is not None:
            if verify:
                fails.append(Failure(where, "export-raised", "%s %s, overwrite=%s, spelling %s: raised %s: %s" % (name, "exists" if exists else "absent", ow, sp_, type(exc).__name__, exc)))
            if name in after:
                st["fs"][name] = "broken:" + _sha(after[name])
            return fails
        st["fs"][name] = "%s:%s%s" % (exporter, which, ":" + opt if exporter in ("pkl", "pklgz") and opt not in (None, "p2") else "")
        if verify:
            others = [n for n in sorted(set(after) | set(before)) if n != name and after.get(n) != before.get(n)]
            if others:
                fails.append(Failure(where, "bystander-file-changed", "export to %r (%s) also changed %r" % (name, sp_, others)))
            if name not in after:
                fails.append(Failure(where, "content-differs-from-pristine", "export to %r (%s) reported success but the file is not there" % (name, sp_)))
            else:
                want = self._pristine(st, exporter, which, name, opt)
                if _content_key(name, after[name]) != want:
                    fails.append(Failure(where, "content-differs-from-pristine", "%r after export(%s, overwrite=%s) over %s content: %d bytes, differs from the export to a fresh path (%d bytes)" % (name, which, ow, before.get(name) and "existing" or "no", len(after[name]), len(want) - 4)))
                fails.extend(self._ow_roundtrip(st, where, exporter, name, sp_, obj, ref))
            self.note("ow:%s:%s" % ("overwritten" if exists else "created", exporter))
            self.note("owopt:%s:%s:%s" % ("overwritten" if exists else "created", {"ljson": "ext", "pts": "ext", "image": "ext", "gif": "ext", "pkl": "protocol", "pklgz": "protocol"}[exporter], opt))
            self.note("owsp:written:%s" % sp_)
        return fails

    def _ow_roundtrip(self, st, where, exporter, name, sp_, obj, ref):
        """the file just written imports back to the exported object (round trip from a non-initial state)."""
        import menpo.io as mio

        if exporter == "gif":
            import PIL.Image as PI

            with PI.open(os.path.join(st["dir"], name)) as pil:
                dec = np.asarray(pil.convert("L"))
            return [] if np.array_equal(dec, ref) else [Failure(where, "eight-bit-unchanged", "gif written over an existing file does not decode to the data")]
        imp = {"ljson": mio.import_landmark_file, "pts": mio.import_landmark_file, "image": lambda fp: mio.import_image(fp, normalize=False), "pkl": mio.import_pickle, "pklgz": mio.import_pickle}[exporter]
        back, exc = _call(st["dir"], IMPORT_SP[sp_], name, imp)
        if exc is not None:
            return [Failure(where, "import-raised", "import of %r raised %s: %s" % (name, type(exc).__name__, exc))]
        if exporter == "ljson":
            return self._cmp_lj(where, back, ref)
        if exporter == "pts":
            gp = np.asarray(list(back.values())[0].points)
            ok = gp.shape == ref.shape and np.nanmax(np.abs(gp - ref)) <= 5e-4 * (1 + 1e-9) + 1e-12
            return [] if ok else [Failure(where, "pts-precision", "points differ after an overwriting export")]
        if exporter == "image":
            return self._cmp_8bit(where, "eight-bit-unchanged", back, ref, False)
        dd = obs_diff(observe(obj), observe(back))
        return [Failure(where, "pickle-state", dd)] if dd else []

    # ------------------------------------------------------------------ reporting
    def vacuity(self, notes, stats):
        need = ["lj:ok", "lj:nan-roundtrip", "lj:labels-order-checked", "lj:edges-nonempty", "lj:edges-empty", "lj:unicode-group", "lj:groups1", "lj:groups2", "lj:groups3", "lj:gen1",
                "pts:ok", "pts:nan", "pts:gen1", "pkl:ok:.pkl", "pkl:ok:.pkl.gz", "pkl:gen1", "pkl:class:model", "pkl:class:transform", "pkl:class:image", "pkl:class:shape", "pkl:class:container",
                "proc:ok", "proc:preinit-import-then-late-plugin-export",
                "img8:ok", "imgf:ok", "img:gen1", "img:reimport-float", "img:reimport-uint8", "imf-import:float", "imf-import:uint8",
                "ow:refused-over:foreign", "ow:refused-over:own", "ow:refused-over:zero-byte",
                "ow:refused-obj:LandmarkManager", "ow:refused-obj:dict", "ref:exists:landmark:LandmarkManager", "ref:exists:landmark:dict", "ref:exists:landmark:PointCloud",
                "ref:exists:landmark:TriMesh", "ref:exists:pickle:dict", "ref:exists:pickle:PCAModel", "ref:exists:image:Image", "ref:exists:image:MaskedImage", "ref:exists:image:BooleanImage",
                "lj:descending-edges:desc", "lj:descending-edges:alldesc", "lj:descending-edges:tree-root4",
                "pts:magnitudes", "lj:magnitudes",
                "lj:n1", "lj:n2", "lj:n3", "lj:manager-one-group-one-point", "lj:dict-one-group-one-point", "pts:n0", "pts:n1", "pts:n2", "pts:n3",
                "pkl:small:n0", "pkl:small:n1", "pkl:small:n2", "pkl:image-1x1", "img:size:1x1", "img:size:1xN", "img:size:Nx1", "img:1x1-value-0", "img:1x1-value-255"]
        for e in ("ljson", "pts", "image", "pkl", "pklgz", "gif"):
            need += ["ow:refused:%s" % e, "ow:created:%s" % e, "ow:overwritten:%s" % e]
        need.append("ow:refused:video")
        need += ["owsp:refused:%s" % s for s in PLAIN_SP + EXOTIC_SP]
        need += ["owsp:written:%s" % s for s in PLAIN_SP]
        need += ["sp:%s" % s for s in PLAIN_SP]
        need += ["img8:out.%s" % o for o in (LOSSLESS_OUT[:6] if self.tier == "quick" else LOSSLESS_OUT)]
        quick = self.tier == "quick"
        need += ["ref:%s:refused" % k for k in self.REF_KINDS]
        for outcome in ("refused", "created", "overwritten"):
            need += ["owopt:%s:ext:%s" % (outcome, f) for f in EXT_FORMS] + ["owopt:%s:protocol:%s" % (outcome, f) for f in PROTO_FORMS]
        need += ["owopt:refused:fps:%s" % f for f in FPS_FORMS]
        need += ["rtopt:ext:%s" % f for f in EXT_FORMS] + ["rtopt:protocol:%s" % f for f in (None, 2, 4)]
        need += ["imp:group:all", "imp:group:group", "imp:encoding:None", "imp:encoding:latin1", "imp:normalize:None", "imp:normalize:True", "imp:normalize:False", "imp:resolver:default", "imp:resolver:none"]
        need += ["refsp:%s" % s_ for s_ in PLAIN_SP]
        need += ["proc:in.%s" % a for a in PROC_IN_QUICK + ([] if quick else PROC_IN_MORE)]
        need += ["proc:out.%s" % b for b in PROC_OUT_QUICK + ([] if quick else PROC_OUT_MORE)]
        out = ["outcome %s never produced" % n for n in need if not notes.get(n)]
        return out

    def rule(self):
        return (
            "every enumerated landmark / image / picklable letter is exported with every path spelling letter into a "
            "private directory and imported again (the imported object is exported once more at the next level); "
            "breadth-first over export histories on the files of one directory, deduplicated by file-content state, "
            "against a dict name->content model (existing and not overwrite => OverwriteError and all bytes intact)"
        )

    def alphabet_sizes(self):
        roots = self.roots()
        by = collections.Counter(r[0] for r in roots)
        return {
            "roots": len(roots),
            "roots_by_kind": dict(by),
            "shape_letters": len(SHAPE_LETTERS),
            "nan_patterns": NAN_PATTERNS[:3] if self.tier == "quick" else NAN_PATTERNS,
            "label_families": sorted(LABEL_FAMS),
            "edge_families": sorted(EDGE_FAMS) + ["tri"],
            "group_names": GROUP_NAMES,
            "path_spellings": PLAIN_SP + EXOTIC_SP,
            "file_name_kinds": dict(NAMEKINDS),
            "image_file_letters": len(FILE_LETTERS_QUICK) + (0 if self.tier == "quick" else len(FILE_LETTERS_MORE)),
            "image_memory_letters": len(MEM_LETTERS),
            "fresh_process_pairs": by.get("proc", 0),
            "lossless_output_formats": LOSSLESS_OUT[:6] if self.tier == "quick" else LOSSLESS_OUT,
            "overwrite_families": {k: [n for n, _ in v] for k, v in OW_FAMILIES.items()},
            "overwrite_initial_states": OW_INITS,
        }

    def assumptions(self):
        return [
            "LJSON / PTS letters have 5 points, plus the size boundaries 1, 2, 3 points (0 points for PTS and pickles of PointCloud / TriMesh; PointTree from 2 points); images are 8x32 plus 1x1 (also all 0 / all 255), one row, one column and rows ending inside a byte / word; LJSON is explored in 2-D and 3-D only (the exporter writes no points for other dimensions), PTS in 2-D only (two columns)",
            "shapes without points are not exported (the LJSON importer indexes the first point)",
            "Pillow's plugin registry is global to the interpreter: what was imported before an export is explored as a process-level history, one fresh interpreter per ordered (imported format, exported format) pair doing import_image -> export_image -> import_image (D31); inside the exploring workers the registry is whatever earlier roots left",
            "lossy or palette-quantising formats (jpg, gif for RGB) are outside the round-trip statement; gif is re-read with Pillow only (menpo reads gif through ffmpeg)",
            "export_video is explored for the refusal path only (no ffmpeg): enabled only on existing paths with overwrite=False",
            "spellings that need expanduser / expandvars are explored for the refusal clause only (on success the landmark / image exporters open the unexpanded path)",
            "gzip files are compared after decompression where 'equal to a pristine export' is asked (the header holds a time stamp); 'intact' always means raw bytes",
            "thorough: the core's confluence re-expansion is applied to every 101st merged duplicate (default 7) because an overwrite state has about 250 letters",
            "documented options are crossed, not varied one at a time: extension= (absent / '.ext' / 'ext' / '.EXT', always agreeing with the path) for landmark and image exporters, protocol= (absent / explicit default 2 / 4 / 0) for pickles, fps= for the video refusal, each with overwrite (False / True / numpy and 0-1 forms) x path spelling x existing-or-not x object; thorough explores the full product in the overwrite families, quick all pairs of option values (the product without the option, plus every option form with every overwrite value and spelling); the round-trip roots rotate extension form, import_landmark_file(group=), import_image(normalize= absent/True/False, landmark_resolver= absent/None) and import_pickle(encoding=) so that all pairs occur over the root set; the model ignores an agreeing extension and keys pristine content on the protocol",
            "refused-call letters cover the refusals raised before the target is opened (existing path, unknown extension, extension argument that contradicts the path, several groups into .pts, file-like object without extension, video into a buffer, import of a missing file / unknown extension / missing group); refusals raised AFTER the open (image with 2 or 4 channels, float pixels outside [0,1], infinite coordinate in LJSON, unpicklable object) leave an empty or partial file behind and truncate an existing one under overwrite=True - reported, not letters",
            "upper-case file extensions (F.V2.LJSON) are letters for single shapes, pts, pickles and images; for dicts / LandmarkManagers export_landmark_file refuses them with ValueError (its multi-group guard compares the suffix case-sensitively) - a refusal, not a changed round trip",
            "pickled lists of exactly one element come back unwrapped by import_pickle and LazyList.init_from_iterable is not picklable: neither is a letter",
        ]


CHECK = C16
