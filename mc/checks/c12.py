"""C12 - GMRF precision: storage-independent, graph-sparse, symmetric PSD, exact.

Space   : EVERY undirected graph on 2..3 (thorough: ..4) vertices, EVERY labelled rooted tree on 2..4 vertices,
          EVERY digraph without antiparallel pairs on 2..3 (thorough: ..4) vertices  x  k in {1, 2, 3} features per
          vertex (roots)  x  mode x bias x rank-truncation x dtype x feed/class (level-0 letters).
State   : level 0 = (graph, k, data letter); level 1 = the pair (sparse model, dense model) fitted with one
          configuration letter on the data letter, shadowed by the reference precision written in plain numpy.
Ops     : level 0: ("fit", mode, bias, n_components letter, dtype, feed) builds BOTH storages with the real
          constructors; level 1: read-only queries mean() / mahalanobis_distance(query letter, subtract_mean,
          square_root) / principal_components_analysis().
Oracle  : fit   : sparse.toarray() == dense == reference (sum over the edges - vertices when edgeless - of the inverted
                  block covariances scattered at their blocks), symmetry, min eigenvalue >= -tol, block (u, v) exactly
                  zero unless u = v or the graph joins u and v, diagonal block of an isolated vertex of a non-edgeless
                  graph exactly zero, mean_vector = sample mean, n_features_per_vertex = k, declared storage / dtype.
          maha  : >= -tol, 0 at the mean, == reference quadratic form, sparse == dense, batch[i] == single(i).
          mean  : == sample mean for both storages (a PointCloud of the right shape for GMRFModel).
          pca   : [interp] only used as one more observation channel of the precision: every (component, eigenvalue)
                  pair the model returns is an eigenpair (c, 1/l) of the reference precision and the mean is the
                  sample mean; completeness / equality between storages is NOT demanded (the sparse path asks ARPACK
                  for N-1 pairs by design and the property text does not speak about PCA).
          mform : 'argument form' letters - the SAME payload as int64/int32/int16/uint8/float32/float16/bool ndarrays,
                  python lists / tuples of python or numpy scalars, lists / tuples of rows, read-only / column-major /
                  strided / negative-stride views, integer / float32 / bool / non-owning PointClouds: the distance equals
                  the reference quadratic form of the VALUES (float64), equals what the same model returns for the
                  same values as a plain float64 array, sparse == dense.  The training data is presented in the
                  same families of forms (FORM_FEEDS) and every fit / query oracle is applied to those models too.
          refuse: REFUSED-CALL letters (increment on a non-incremental model, wrong-size queries, invalid mode and
                  singular data on the model's own graph), made twice on the same live models in between the valid
                  queries: they raise (the explicit ValueError / LinAlgError where the code names one), models, graphs and
                  arguments are observably unchanged, the retry is refused alike, later queries run their normal oracle.
          scale : SCALE letters on a small subset of graphs and one 24-vertex graph (large-size letter): the payload x 1e-6,
                  x 1e-9, x 1e6, + 1e6, nearly equal vertices; with and without n_components.  Every oracle above applies
                  (references in float64 from the re-expressed payload, tolerances relative to the data), plus
                  equivariance: Q(sX) = Q(X)/s^2, Q(X+c) = Q(X), distances of re-expressed queries are unchanged.
          queries never change the observation of either model (queries_must_not_mutate).
"""
import itertools

import numpy as np

from mc.core import Check, Failure, HarnessError
from mc.letters import rs

# ---------------------------------------------------------------------------------------------------
# tolerances.  Worst errors seen on the unchanged tree, seeds 0..9 (quick and thorough), are recorded in
# the evidence as `err-*` outcome notes (decade of the worst scaled error); the numbers here keep a margin
# of >= 100 over them and are >= 1000 times smaller than the effect of any of the mutants (O(0.1..1)).
# ---------------------------------------------------------------------------------------------------
TOL = {"f8": 1e-9, "f4": 1e-3}  # relative to max |reference precision entry| (DESIGN.md 3/C12: 1e-9 / 1e-3 for float32)
TOL_MEAN = 1e-12  # absolute, times max(1, max |data|)
TOL_MEAN_F4 = 1e-5  # the same for float32 training data (np.mean accumulates in float32: observed <= 2e-8)
EPS_MEAN = {"f8": 1e-13, "f4": 1e-5}  # relative accuracy granted to x - mean (stored mean in float64 / float32)
TOL_SAME_MODEL = 1e-9  # batch[i] vs single(i) of ONE model (same stored matrix, float64 arithmetic)
TOL_EIGPAIR = {"f8": 1e-6, "f4": 1e-3}  # |Q c - c / l| relative to max |Q| (ARPACK residuals included)

N_SAMPLES = 14
COND_MAX = 1.0e3  # condition number of every block covariance (vertex, pair concatenated, pair subtracted)
GAP_MIN = 1.3  # ratio of consecutive eigenvalues of every block covariance at every truncation rank in the alphabet
# (after the largest, at the middle, before the smallest): the truncated pseudo-inverse is well defined there

MODES = ["concatenation", "subtraction"]
# n_components letters, relative to dim = size of the block covariance (k for subtraction / edgeless, 2k for
# concatenation).  The code has two natural limits: 1 (smallest rank) and dim (from there on `s[:, :n]` keeps everything,
# i.e. the documented full inverse); the letters sit on and around them, in the middle of the range and far above.
# Letters whose value is < 1 (rank 0 is not a model) or repeats an earlier letter's value for this dim are dropped.
NCOMP_ALL = ["none", "dim-1", "dim", "1", "mid", "dim+1", "2dim-1", "2dim", "far"]
NCOMP_QUICK = ["none", "dim-1"]  # crossed with every other letter
NCOMP_THOROUGH = ["none", "dim-1", "dim"]
NCOMP_FAR = 1000


def nc_value(nc, dim):
    return {"none": None, "1": 1, "mid": dim // 2, "dim-1": dim - 1, "dim": dim, "dim+1": dim + 1, "2dim-1": 2 * dim - 1, "2dim": 2 * dim, "far": NCOMP_FAR}[nc]


def nc_letters(dim):
    """the n_components letters that are distinct models for this block size, in NCOMP_ALL order."""
    out, seen = [], set()
    for nc in NCOMP_ALL:
        v = nc_value(nc, dim)
        if v is not None and v < 1:
            continue
        if nc == "mid" and not (1 < v < dim - 1):
            continue
        if v in seen:
            continue
        seen.add(v)
        out.append(nc)
    return out
DTYPES = ["f8", "f4"]
FEEDS = ["array", "list", "pc"]  # crossed with every configuration letter
# array : GMRFVectorModel fed an (n, V k) ndarray
# list  : GMRFVectorModel fed a python list of 1-d arrays (np.array(data)[:n] branch of _data_to_matrix)
# pc    : GMRFModel fed a list of PointClouds with V points of k dimensions (as_matrix, template instance)

# 'argument form' letters: the SAME payload presented in every other form the API accepts on the unchanged tree.
# Training data (crossed with both modes; bias 0, plain inverse, float64 precision - the form only matters to the
# ingestion of the data).  Letters marked (Xi) carry the integer-valued payload Xi = rint(16 X), which every dtype
# below represents exactly; the others carry the generic payload X.
FORM_FEEDS = [
    "tuple",  # tuple of 1-d arrays
    "lol",  # list of lists of python floats
    "tot",  # tuple of tuples of python floats
    "lolint",  # (Xi) list of lists of python ints
    "i8",  # (Xi) int64 ndarray
    "i4",  # (Xi) int32 ndarray
    "i2",  # (Xi) int16 ndarray
    "f4d",  # (Xi) float32 ndarray: np.mean then works in single precision - mean / distances judged at float32 tolerance
    "ro",  # read-only ndarray
    "fortran",  # column-major ndarray
    "strided",  # every second column of a wider array
    "rowstrided",  # every second row of a taller array
    "negstride",  # view with negative strides on both axes
    "pc-tuple",  # GMRFModel fed a tuple of PointClouds
    "array-n",  # ndarray plus n_samples equal to its length
    "list-n",  # list plus n_samples equal to its length (the `[:n_samples]` slice takes everything)
    "pc-iter-n",  # GMRFModel fed an iterator of PointClouds plus n_samples (as_matrix requires an iterator then)
    "pc-i8",  # (Xi) GMRFModel fed PointClouds with int64 points
    "pc-f4",  # (Xi) GMRFModel fed PointClouds with float32 points (single-precision mean, as f4d)
]
XI_FEEDS = ("lolint", "i8", "i4", "i2", "f4d", "pc-i8", "pc-f4")
F4_MEAN_FEEDS = ("f4d", "pc-f4")
XI_SCALE = 16.0
NP_DTYPES = {"i8": np.int64, "i4": np.int32, "i2": np.int16, "u1": np.uint8, "f4": np.float32, "f2": np.float16, "b1": np.bool_, "f4d": np.float32}
# Query forms (form, shape): shape s = one vector, r = a (1, N) matrix, b = a batch.  Payloads: integer valued vectors in
# [0, 255] (qi) for the dtype forms, 0/1 vectors (qb) for bool, the generic float queries for containers and views.
VEC_QFORMS = [
    ("i8", "s"), ("i4", "s"), ("i2", "s"), ("u1", "s"), ("f4", "s"), ("f2", "s"), ("b1", "s"), ("i8", "r"),
    ("i8", "b"), ("u1", "b"), ("f4", "b"), ("b1", "b"),
    ("pylist-int", "s"), ("pylist-float", "s"), ("pytuple-float", "s"), ("pylist-bool", "s"), ("list-npfloat", "s"), ("list-npint", "s"),
    ("lol", "b"), ("lolint", "b"), ("tot", "b"), ("tuple", "b"), ("list-mixed", "b"),
    ("ro", "s"), ("strided", "s"), ("negstride", "s"), ("fortran", "b"), ("strided", "b"), ("ro", "b"),
]
VEC_QFORMS_NOSUB = [("i8", "s"), ("b1", "s"), ("u1", "b")]
PC_QFORMS = [("pc-i8", "s"), ("pc-u1", "s"), ("pc-f4", "s"), ("pc-b1", "s"), ("pc-list-i8", "b"), ("pc-list-f4", "b"), ("pc-fortran", "s"), ("pc-ro", "s")]
PC_QFORMS_NOSUB = [("pc-i8", "s")]
VEC_QFORMS_REDUCED = [("i8", "s"), ("u1", "s"), ("f4", "s"), ("b1", "s")]
PC_QFORMS_REDUCED = [("pc-i8", "s"), ("pc-f4", "s")]
INT_FORMS = ("i8", "i4", "i2", "u1", "f4", "f2", "pylist-int", "list-npint", "lolint", "pc-i8", "pc-u1", "pc-f4", "pc-list-i8", "pc-list-f4")
BOOL_FORMS = ("b1", "pylist-bool", "pc-b1")
# not letters, because the unchanged tree rejects or mishandles them in ways the property text does not cover:
#   GMRFVectorModel(generator, n_samples=n)  -> np.array(generator) is 0-d, IndexError
#   GMRFModel.mahalanobis_distance(tuple of PointClouds) -> AttributeError (only `list` is recognised)
#   float16 training data -> np.mean works in half precision (mean wrong by 1e-2)
#   a LIST of PointClouds of mixed dtype whose first element is integer -> menpo.math.as_matrix allocates the data
#   matrix with the dtype of the first element and truncates the others (reported; defect of as_matrix)

# SCALE letters: the generic payload (data AND queries) re-expressed at other legal magnitudes, on a small fixed subset
# of the roots (SCALE_GRAPHS x k) plus one large-size root.  Uniform scaling / a common offset keep every block covariance
# exactly as well conditioned as the generic payload.
SCALE_FEEDS = [
    "x1e-6",  # every value times 1e-6  (covariances ~1e-12, precision ~1e+12)
    "x1e-9",  # every value times 1e-9
    "x1e6",  # every value times 1e+6
    "offset1e6",  # every value plus 1e+6 (offset / spread ~ 1e6): the centring has to cancel six digits
    "near-equal",  # every vertex carries vertex 0's features plus 1e-6 times its own: vertices nearly, not exactly, equal.
    #               Edgeless graphs and subtraction mode only (a concatenated block of nearly equal vertices is not
    #               well conditioned, which the property excludes)
]
SCALE_FACTOR = {"x1e-6": 1e-6, "x1e-9": 1e-9, "x1e6": 1e6}
SCALE_NCOMP = ["none", "dim-1", "dim+1"]  # plain inverse, a real truncation, and the SVD path keeping everything
SCALE_GRAPHS = [
    ("U", 2, (), -1),
    ("U", 2, ((0, 1),), -1),
    ("U", 3, ((0, 1), (1, 2)), -1),
    ("U", 3, ((0, 1),), -1),  # vertex 2 isolated
    ("T", 3, ((1, 0), (1, 2)), 1),
    ("D", 3, ((0, 1), (2, 0)), -1),
]
# the large-SIZE letter: one graph with many vertices (a chain with two chords), 2 features per vertex
LARGE_NV = 24
LARGE_GRAPH = ("U", LARGE_NV, tuple((i, i + 1) for i in range(LARGE_NV - 1)) + ((0, 12), (5, 23)), -1)
EPS = 2.2e-16


def scale_transform(A, letter, nv, k):
    """the payload A (rows of nv*k values) re-expressed at the magnitude of a SCALE letter."""
    if letter in SCALE_FACTOR:
        return A * SCALE_FACTOR[letter]
    if letter == "offset1e6":
        return A + 1.0e6
    if letter == "near-equal":
        return np.tile(A[:, :k], (1, nv)) + 1.0e-6 * A
    raise ValueError(letter)


# REFUSED-CALL letters: calls the unchanged tree refuses with an exception, made on the SAME live models / graph in
# between the valid queries.  kind -> (what is called, expected exception class or None where nothing names one)
REFUSALS = [
    "increment",  # model.increment(samples) on a model built with incremental=False        -> ValueError (raised explicitly)
    "query-long",  # mahalanobis_distance of a vector with one feature (pc: one point) too many  -> raises (numpy shape error)
    "query-long-nosub",  # the same with subtract_mean=False (the product, not the subtraction, refuses)
    "query-short",  # one feature (point) too few; only where >= 2 features remain (a length-1 vector broadcasts)
    "ctor-mode",  # constructing on the model's own graph object with mode='average' (graphs with edges)  -> ValueError
    "ctor-singular",  # constructing on the model's own graph with a constant feature per vertex -> LinAlgError
]

QUERIES = ["mean", "single", "row", "batch", "batchmean", "listq"]
# mean      : the sample mean itself (1-d)                -> distance 0
# single    : one generic vector (1-d)
# row       : the same vector as a (1, N) matrix          -> `d.shape[0] == 1` returns a scalar
# batch     : three generic vectors (3, N)                -> batch[i] == single(i)
# batchmean : two generic vectors around the mean (3, N)  -> zero in the middle of a batch
# listq     : python list of two vectors / PointClouds    -> list branch of both classes


# ---------------------------------------------------------------------------------------------------
# graph letters (pure python; nothing of menpo)
# ---------------------------------------------------------------------------------------------------
def _pairs(nv):
    return list(itertools.combinations(range(nv), 2))


def undirected_graphs(nv):
    ps = _pairs(nv)
    return [("U", nv, tuple(p for i, p in enumerate(ps) if m >> i & 1), -1) for m in range(2 ** len(ps))]


def digraphs(nv):
    """every orientation choice none / a->b / b->a per vertex pair: no antiparallel pair, no loop."""
    ps = _pairs(nv)
    out = []
    for choice in itertools.product((0, 1, 2), repeat=len(ps)):
        e = tuple((a, b) if c == 1 else (b, a) for (a, b), c in zip(ps, choice) if c)
        out.append(("D", nv, e, -1))
    return out


def rooted_trees(nv):
    """every labelled spanning tree of K_nv, rooted at every vertex, edges oriented parent -> child."""
    ps = _pairs(nv)
    out = []
    for sub in itertools.combinations(ps, nv - 1):
        adj = {v: [] for v in range(nv)}
        for a, b in sub:
            adj[a].append(b)
            adj[b].append(a)
        for root in range(nv):
            seen, order, edges = {root}, [root], []
            for v in order:
                for w in sorted(adj[v]):
                    if w not in seen:
                        seen.add(w)
                        order.append(w)
                        edges.append((v, w))
            if len(seen) == nv:
                out.append(("T", nv, tuple(edges), root))
    return out


TREE_REFUSED = set()


def make_graph(spec):
    from menpo.shape import DirectedGraph, Tree, UndirectedGraph

    kind, nv, edges, root = spec[:4]
    e = np.array(edges, dtype=int).reshape(-1, 2)
    if kind == "U":
        return UndirectedGraph.init_from_edges(e, nv)
    if kind == "D":
        return DirectedGraph.init_from_edges(e, nv)
    try:
        return Tree.init_from_edges(e, nv, root)
    except ValueError as exc:
        # The Tree constructor refuses some VALID rooted trees (its self-test compares the index arrays of scipy's BFS
        # tree order-sensitively: e.g. arcs 2->0, 2->1, 0->3 rooted at 2).  That is a defect of graph construction
        # (property C14, reported there), not of the GMRF: the letter is built with the constructor's checks skipped
        # so that the GMRF is still explored on it.
        if "BFS returns a different tree" not in str(exc):
            raise
        TREE_REFUSED.add(tuple(spec[:4]))
        return Tree.init_from_edges(e, nv, root, skip_checks=True)


# ---------------------------------------------------------------------------------------------------
# reference model (plain numpy)
# ---------------------------------------------------------------------------------------------------
def ref_cov(M, bias):
    Mc = M - M.sum(axis=0) / M.shape[0]
    return Mc.T.dot(Mc) / (M.shape[0] - (0 if bias else 1))


def ref_inverse(C, ncomp):
    """inverse (ncomp None or >= dim) or best rank-ncomp pseudo-inverse (ncomp < dim) of a symmetric PD matrix by
    its eigen-decomposition."""
    lam, U = np.linalg.eigh(C)
    lam, U = lam[::-1], U[:, ::-1]
    r = C.shape[0] if ncomp is None else min(int(ncomp), C.shape[0])
    return (U[:, :r] / lam[:r]).dot(U[:, :r].T)


def ref_precision(X, nv, k, edges, mode, bias, ncomp):
    Q = np.zeros((nv * k, nv * k))
    sl = [slice(v * k, (v + 1) * k) for v in range(nv)]
    if not edges:
        for v in range(nv):
            Q[sl[v], sl[v]] += ref_inverse(ref_cov(X[:, sl[v]], bias), ncomp)
        return Q
    for a, b in edges:
        if mode == "concatenation":
            S = ref_inverse(ref_cov(np.hstack((X[:, sl[a]], X[:, sl[b]])), bias), ncomp)
            Q[sl[a], sl[a]] += S[:k, :k]
            Q[sl[b], sl[b]] += S[k:, k:]
            Q[sl[a], sl[b]] += S[:k, k:]
            Q[sl[b], sl[a]] += S[k:, :k]
        else:
            S = ref_inverse(ref_cov(X[:, sl[a]] - X[:, sl[b]], bias), ncomp)
            Q[sl[a], sl[a]] += S
            Q[sl[b], sl[b]] += S
            Q[sl[a], sl[b]] -= S
            Q[sl[b], sl[a]] -= S
    return Q


def block_size(edges, mode, k):
    return 2 * k if (edges and mode == "concatenation") else k


_DATA = {}


def gmrf_data(seed, nv, k):
    """(X, queries, Xi, bool queries): 14 x (nv k) correlated data, 3 query vectors, the integer-valued payload
    Xi = rint(16 X) (under the same guard) and two complementary 0/1 query vectors.  Deterministic redraw until every block
    covariance that any graph on nv vertices can ask for (single vertex; every vertex pair concatenated and
    subtracted; both bias conventions have the same conditioning) has condition number <= COND_MAX and its two
    smallest eigenvalues are separated by a factor >= GAP_MIN (so that the rank b-1 pseudo-inverse is well defined).
    This is what 'well-conditioned data set' means for this check."""
    key = (seed, nv, k)
    if key in _DATA:
        return _DATA[key]
    d = nv * k
    for attempt in range(2000):
        r = rs(seed, "c12-gmrf", nv, k, attempt)
        X = r.randn(N_SAMPLES, d).dot(np.eye(d) + 0.35 * r.randn(d, d)) + 2.0 * r.rand(d)
        q = X.mean(axis=0) + 1.5 * r.randn(3, d)
        ok = True
        blocks = []
        for a in range(nv):
            Xa = X[:, a * k : (a + 1) * k]
            blocks.append(Xa)
            for b in range(a + 1, nv):
                Xb = X[:, b * k : (b + 1) * k]
                blocks.append(np.hstack((Xa, Xb)))
                blocks.append(Xa - Xb)
        Xi = np.rint(XI_SCALE * X)
        for a in range(nv):
            Xa = Xi[:, a * k : (a + 1) * k]
            blocks.append(Xa)
            for b in range(a + 1, nv):
                Xb = Xi[:, b * k : (b + 1) * k]
                blocks.append(np.hstack((Xa, Xb)))
                blocks.append(Xa - Xb)
        if np.abs(Xi).max() > 30000:
            ok = False
        for M in blocks:
            lam = np.linalg.eigvalsh(ref_cov(M, 0))
            b = len(lam)
            ranks = set(nc_value(nc, b) for nc in nc_letters(b) if nc != "none")  # truncation ranks in the alphabet
            gaps_ok = all(lam[b - r] / lam[b - r - 1] >= GAP_MIN for r in ranks if 1 <= r < b)
            if lam[0] <= 0 or lam[-1] / lam[0] > COND_MAX or not gaps_ok:
                ok = False
                break
        if ok:
            qb = r.rand(2, d) > 0.5
            qb[1] = ~qb[0]
            _DATA[key] = (X, q, Xi, qb)
            return _DATA[key]
    raise RuntimeError("conditioning guard could not be satisfied for %r" % ((nv, k),))


def _block_ok(M):
    lam = np.linalg.eigvalsh(ref_cov(M, 0))
    b = len(lam)
    ranks = set(nc_value(nc, b) for nc in nc_letters(b) if nc != "none")
    return lam[0] > 0 and lam[-1] / lam[0] <= COND_MAX and all(lam[b - r] / lam[b - r - 1] >= GAP_MIN for r in ranks if 1 <= r < b)


def gmrf_data_large(seed, nv, k, edges):
    """the same kind of data letter for a graph with many vertices: the guard is imposed on the blocks THIS graph asks for
    (every vertex; every edge concatenated and subtracted) and the features are drawn vertex after vertex (a vertex is
    redrawn until its own blocks pass), because a joint redraw of 70 blocks would never terminate."""
    key = (seed, nv, k, "large")
    if key in _DATA:
        return _DATA[key]
    d = nv * k
    X = np.zeros((N_SAMPLES, d))
    nbrs = {v: [a if b == v else b for a, b in edges if v in (a, b) and (a if b == v else b) < v] for v in range(nv)}
    for v in range(nv):
        for attempt in range(5000):
            r = rs(seed, "c12-gmrf-large", nv, k, v, attempt)
            Xv = r.randn(N_SAMPLES, k).dot(np.eye(k) + 0.35 * r.randn(k, k)) + 2.0 * r.rand(k)
            if nbrs[v]:
                Xv = Xv + 0.3 * X[:, nbrs[v][0] * k : (nbrs[v][0] + 1) * k]  # correlated with a neighbour
            ok = _block_ok(Xv)
            for u in nbrs[v]:
                Xu = X[:, u * k : (u + 1) * k]
                ok = ok and _block_ok(np.hstack((Xu, Xv))) and _block_ok(Xu - Xv)
            if ok:
                X[:, v * k : (v + 1) * k] = Xv
                break
        else:
            raise RuntimeError("conditioning guard could not be satisfied for vertex %d of the large graph" % v)
    r = rs(seed, "c12-gmrf-large-q", nv, k)
    q = X.mean(axis=0) + 1.5 * r.randn(3, d)
    qb = r.rand(2, d) > 0.5
    qb[1] = ~qb[0]
    _DATA[key] = (X, q, np.rint(XI_SCALE * X), qb)
    return _DATA[key]


# ---------------------------------------------------------------------------------------------------
def _try(fn):
    try:
        return fn(), None
    except Exception as e:  # noqa - reported as a failure of the step, never swallowed
        return None, "%s: %s" % (type(e).__name__, str(e)[:300])


def _dense(p):
    import scipy.sparse as sp

    return np.asarray(p.toarray()) if sp.issparse(p) else np.array(p, copy=True)


def _decade(err):
    return "exact" if err <= 0 else "1e%+03d" % int(np.ceil(np.log10(err)))


def _exact(A, dt):
    """A in another dtype; the payloads are chosen so that the conversion loses nothing (else the letter is wrong)."""
    B = np.asarray(A).astype(dt)
    if not np.array_equal(B.astype(float), np.asarray(A, dtype=float)):
        raise HarnessError("payload is not exactly representable as %s" % np.dtype(dt).name)
    return B


def present(A, form):
    """the float64 values A (1-d vector or 2-d matrix) presented in the argument form `form`."""
    A = np.array(A, dtype=float, copy=True)
    if form == "array":
        return A
    if form in NP_DTYPES:
        return _exact(A, NP_DTYPES[form])
    if form == "list":
        return [r.copy() for r in A]
    if form == "tuple":
        return tuple(r.copy() for r in A)
    if form == "lol":
        return [[float(v) for v in r] for r in A]
    if form == "tot":
        return tuple(tuple(float(v) for v in r) for r in A)
    if form == "lolint":
        _exact(A, np.int64)
        return [[int(v) for v in r] for r in A]
    if form == "list-mixed":
        return [_exact(A[0], np.int64)] + [r.copy() for r in A[1:]]
    if form == "pylist-float":
        return [float(v) for v in A]
    if form == "pytuple-float":
        return tuple(float(v) for v in A)
    if form == "pylist-int":
        _exact(A, np.int64)
        return [int(v) for v in A]
    if form == "pylist-bool":
        _exact(A, np.bool_)
        return [bool(v) for v in A]
    if form == "list-npfloat":
        return [np.float64(v) for v in A]
    if form == "list-npint":
        return [np.int64(v) for v in _exact(A, np.int64)]
    if form == "ro":
        A.setflags(write=False)
        return A
    if form == "fortran":
        return np.asfortranarray(A)
    if form == "strided":
        W = np.full(A.shape[:-1] + (2 * A.shape[-1],), 7.5)
        W[..., ::2] = A
        return W[..., ::2]
    if form == "rowstrided":
        W = np.full((2 * A.shape[0],) + A.shape[1:], 7.5)
        W[::2] = A
        return W[::2]
    if form == "negstride":
        sl = (slice(None, None, -1),) * A.ndim
        return A[sl].copy()[sl]
    raise ValueError(form)


class C12(Check):
    id = "C12"
    title = "GMRF precision is storage-independent, graph-sparse, symmetric PSD, exact"
    queries_must_not_mutate = True

    # ------------------------------------------------------------------ scope
    def depth(self):
        return 2

    def _graphs(self):
        g = []
        umax = 3 if self.tier == "quick" else 4
        for nv in range(2, umax + 1):
            g += undirected_graphs(nv)
        for nv in (2, 3, 4):
            g += rooted_trees(nv)
        for nv in range(2, umax + 1):
            g += digraphs(nv)
        return g

    def _ks(self, gspec):
        # 4-vertex digraphs (729 of them, thorough only): k = 3 would be a 12 x 12 model for each of 729 x 72 letters;
        # they run with k in {1, 2} - every other graph with k in {1, 2, 3}
        if gspec[0] == "D" and gspec[1] == 4:
            return (1, 2)
        return (1, 2, 3)

    def roots(self):
        if getattr(self, "_roots", None) is None:
            self._roots = [g + (k,) for g in self._graphs() for k in self._ks(g)] + [LARGE_GRAPH + (2,)]
        return self._roots

    # ------------------------------------------------------------------ state
    def build(self, root):
        kind, nv, edges, rootv, k = root
        X, q, Xi, qb = gmrf_data(self.seed, nv, k) if nv <= 4 else gmrf_data_large(self.seed, nv, k, edges)
        st = {"root": root, "nv": nv, "k": k, "edges": tuple(tuple(e) for e in edges), "X0": X, "q0": q, "Xi": Xi, "qb": qb, "cfg": None, "models": None, "ref": None}
        self._payload(st, "array")
        deg = [0] * nv
        for a, b in st["edges"]:
            deg[a] += 1
            deg[b] += 1
        st["deg"] = deg
        return st

    def _payload(self, st, feed):
        """the values the model is trained on and queried with: generic payload, or the integer-valued one."""
        if feed in XI_FEEDS:
            X, q = st["Xi"], XI_SCALE * st["q0"]
        elif feed in SCALE_FEEDS:
            X, q = scale_transform(st["X0"], feed, st["nv"], st["k"]), scale_transform(st["q0"], feed, st["nv"], st["k"])
        else:
            X, q = st["X0"], st["q0"]
        st["X"], st["q"] = X, q
        st["qi"] = np.clip(np.rint(q), 0, 255)
        st["mu"] = X.sum(axis=0) / X.shape[0]
        st["xscale"] = float(np.abs(X).max())  # every tolerance is relative to the magnitude of the data
        st["tol_mean"] = TOL_MEAN_F4 if feed in F4_MEAN_FEEDS else TOL_MEAN
        st["tol_floor"] = 0.0

    def _tol(self, st, table=TOL):
        """tolerance of this state: the table value of its precision letter, but never below 100 x the rounding error that
        the magnitude of the data forces on ANY float64 evaluation of the definition (see `_amplification`)."""
        return max(table[self._qtol(st)], st["tol_floor"])

    @staticmethod
    def _amplification(X, nv, k, edges, mode):
        """(largest |value|) / (spread of the least spread block the model looks at) x COND_MAX: how much the relative
        rounding error of the stored data is amplified in an inverted block covariance.  ~1e3 for the generic payload
        and for uniform scalings, ~1e9 x 1e3 when a common offset or a common component has to cancel first."""
        sl = [slice(v * k, (v + 1) * k) for v in range(nv)]
        if not edges:
            blocks = [X[:, sl[v]] for v in range(nv)]
        elif mode == "concatenation":
            blocks = [np.hstack((X[:, sl[a]], X[:, sl[b]])) for a, b in edges]
        else:
            blocks = [X[:, sl[a]] - X[:, sl[b]] for a, b in edges]
        spread = min(float(np.sqrt(np.linalg.eigvalsh(ref_cov(M, 0))[-1])) for M in blocks)
        return float(np.abs(X).max()) / spread * COND_MAX

    def _qtol(self, st):
        """tolerance letter of distances: float32 when the stored precision OR the stored mean is single precision."""
        return "f4" if (st["cfg"][3] == "f4" or st["cfg"][4] in F4_MEAN_FEEDS) else "f8"

    def _obs(self, m):
        p = m.precision
        d = _dense(p)
        return (type(p).__name__, str(d.dtype), d.shape, d.tobytes(), np.asarray(m.mean_vector).tobytes(), int(m.n_samples), int(m.n_features_per_vertex))

    def canon(self, st):
        if st["models"] is None:
            return (st["root"], "data", st["cfg"])
        # the mode letter is not part of the key: an edgeless graph ignores it and both letters reach one state
        cfg = st["cfg"]
        return (st["root"], cfg[2:], tuple(self._obs(m) for m in st["models"]))

    # ------------------------------------------------------------------ alphabet
    def ops(self, st, level):
        if level == 0:
            out = []
            ncomps = NCOMP_QUICK if self.tier == "quick" else NCOMP_THOROUGH
            feeds = FEEDS
            if (st["root"][0] == "D" and st["nv"] == 4) or st["nv"] > 4:
                feeds = ["array"]
            enabled = {mode: nc_letters(block_size(st["edges"], mode, st["k"])) for mode in MODES}
            if st["nv"] > 4:
                # the large-size letter: a small, fixed selection of configuration and scale letters
                for mode in MODES:
                    for bias, nc, dt in ((0, "none", "f8"), (1, "dim-1", "f4"), (0, "dim-1", "f8"), (1, "none", "f4")):
                        out.append(("fit", mode, bias, nc, dt, "array"))
                    for feed in ("x1e-6", "offset1e6"):
                        for nc in ("none", "dim-1"):
                            out.append(("fit", mode, 0, nc, "f8", feed))
                return out
            for feed in feeds:
                for dt in DTYPES:
                    for nc in ncomps:
                        for bias in (0, 1):
                            for mode in MODES:
                                if nc in enabled[mode]:
                                    out.append(("fit", mode, bias, nc, dt, feed))
            # boundary letters of n_components: the value only reaches the inversion of the block covariance, so they
            # are crossed with the mode (which fixes dim); thorough also crosses them with bias and stored dtype
            wide = self.tier != "quick" and feeds is FEEDS
            for nc in NCOMP_ALL:
                if nc in ncomps:
                    continue
                for dt in DTYPES if wide else ["f8"]:
                    for bias in (0, 1) if wide else (0,):
                        for mode in MODES:
                            if nc in enabled[mode]:
                                out.append(("fit", mode, bias, nc, dt, "array"))
            if feeds is FEEDS:
                for feed in FORM_FEEDS:
                    for mode in MODES:
                        out.append(("fit", mode, 0, "none", "f8", feed))
            # scale letters: on the small subset of graphs and on the large graph; with and without n_components
            if tuple(st["root"][:4]) in SCALE_GRAPHS:
                for feed in SCALE_FEEDS:
                    for nc in SCALE_NCOMP:
                        for mode in MODES:
                            if feed == "near-equal" and st["edges"] and mode == "concatenation":
                                continue
                            if nc in enabled[mode]:
                                out.append(("fit", mode, 0, nc, "f8", feed))
            return out
        if st["models"] is None:
            return []
        out = [("mean",)]
        for q in QUERIES:
            out.append(("maha", q, 1, 0))
        for q in ("single", "batch", "mean"):
            out.append(("maha", q, 0, 0))
            out.append(("maha", q, 1, 1))
        out.append(("maha", "zero", 1, 0))
        out.append(("maha", "zero", 0, 0))  # value exactly 0: the quadratic form of the zero vector is 0
        if st["nv"] <= 4:
            out.append(("pca",))  # (not on the large graph: ARPACK needs ~0.6 s per model there, and PCA is only a side channel)
        # refused calls, in between the valid queries (they are self loops: the live models are kept, and every later
        # query runs its normal oracle on models that have seen the refusals)
        # (the increment refusal on every model; the others do not depend on how the precision was estimated and run on
        # the models with bias 0 and the plain inverse, like the argument forms)
        ref_ops = [("refuse", "increment")]
        short = (st["nv"] - 1) * st["k"] if st["cfg"][4].startswith("pc") else st["nv"] * st["k"] - 1
        if st["cfg"][1] == 0 and st["cfg"][2] == "none":
            ref_ops += [("refuse", "query-long"), ("refuse", "query-long-nosub")]
            if short >= 2:
                ref_ops.append(("refuse", "query-short"))
            if st["edges"]:
                ref_ops.append(("refuse", "ctor-mode"))
            ref_ops.append(("refuse", "ctor-singular"))
        for i, rop in enumerate(ref_ops):
            out.insert(2 + 3 * i, rop)
        # argument forms of the query: on every model with the plain inverse and bias 0 (the query path does not
        # depend on how the precision was estimated; graph, k, mode, stored dtype, storage and class all vary)
        if st["cfg"][1] == 0 and st["cfg"][2] == "none" and st["cfg"][4] not in SCALE_FEEDS:
            pc = st["cfg"][4].startswith("pc")
            if st["cfg"][4] in FORM_FEEDS:
                # model trained from another data form: the dtype forms of one vector only (training form x query
                # form is not a full product)
                for form, shape in PC_QFORMS_REDUCED if pc else VEC_QFORMS_REDUCED:
                    out.append(("mform", form, shape, 1))
                return out
            for form, shape in PC_QFORMS if pc else VEC_QFORMS:
                out.append(("mform", form, shape, 1))
            for form, shape in PC_QFORMS_NOSUB if pc else VEC_QFORMS_NOSUB:
                out.append(("mform", form, shape, 0))
        return out

    def is_query(self, op):
        return op[0] != "fit"

    # ------------------------------------------------------------------ helpers
    def _feed(self, st, rows, feed):
        rows = np.array(rows, dtype=float, copy=True)
        if not feed.startswith("pc"):
            return present(rows, "array" if feed in SCALE_FEEDS else feed[:-2] if feed.endswith("-n") else feed)
        from menpo.shape import PointCloud

        dt = {"pc-i8": np.int64, "pc-f4": np.float32}.get(feed, np.float64)
        pcs = [PointCloud(_exact(r.reshape(st["nv"], st["k"]), dt)) for r in rows]
        return tuple(pcs) if feed == "pc-tuple" else iter(pcs) if feed == "pc-iter-n" else pcs

    def _ncomp_value(self, st, mode, nc):
        return nc_value(nc, block_size(st["edges"], mode, st["k"]))

    def _where(self, st, what):
        return "%s-%s" % (what, "edgeless" if not st["edges"] else "edges")

    def _worst(self, key, err):
        self.note("err-%s:<=%s" % (key, _decade(err)))

    # ------------------------------------------------------------------ steps
    def apply(self, st, op, verify=True):
        if op[0] == "fit":
            return self._fit(st, op, verify)
        if op[0] == "mean":
            return self._q_mean(st, verify)
        if op[0] == "maha":
            return self._q_maha(st, op, verify)
        if op[0] == "pca":
            return self._q_pca(st, verify)
        if op[0] == "mform":
            return self._q_mform(st, op, verify)
        if op[0] == "refuse":
            return self._q_refuse(st, op, verify)
        raise ValueError(op)

    def _fit(self, st, op, verify):
        from menpo.model import GMRFModel, GMRFVectorModel

        _, mode, bias, nc, dt, feed = op
        dtype = np.float64 if dt == "f8" else np.float32
        ncv = self._ncomp_value(st, mode, nc)
        cls = GMRFModel if feed.startswith("pc") else GMRFVectorModel
        self._payload(st, feed)
        models, errs = [], []
        for sparse in (True, False):
            kw = {"n_samples": N_SAMPLES} if feed.endswith("-n") else {}
            m, err = _try(lambda: cls(self._feed(st, st["X"], feed), make_graph(st["root"]), mode=mode, n_components=ncv, dtype=dtype, sparse=sparse, bias=bias, **kw))
            models.append(m)
            errs.append(err)
        st["cfg"] = (mode, bias, nc, dt, feed)
        if any(errs):
            st["models"] = None
            if not verify:
                return []
            self.note("fit:raised")
            which = ", ".join("%s: %s" % (s, e) for s, e in zip(("sparse", "dense"), errs) if e)
            return [Failure(self._where(st, "fit"), "model-construction-raised", "%s(%s) on graph %r with %d feature(s) per vertex raised (%s)" % (cls.__name__, ", ".join(map(str, op[1:])), st["root"][:4], st["k"], which))]
        st["models"] = models
        st["ref"] = ref_precision(st["X"], st["nv"], st["k"], st["edges"], mode, bias, ncv)
        st["qscale"] = float(np.abs(st["ref"]).max())
        st["equiv"] = None
        if feed in SCALE_FEEDS:
            st["tol_floor"] = 100.0 * EPS * self._amplification(st["X"], st["nv"], st["k"], st["edges"], mode)
            # what the property implies about re-expressed data: Q(s X) = Q(X) / s^2, Q(X + c) = Q(X), and for nearly
            # equal vertices in subtraction mode the differences are exactly 1e-6 x the generic ones; distances of the
            # re-expressed queries are those of the generic ones
            fac = 1.0 / SCALE_FACTOR[feed] ** 2 if feed in SCALE_FACTOR else 1.0 if feed == "offset1e6" else (1.0e12 if st["edges"] else None)
            if fac is not None:
                R0 = ref_precision(st["X0"], st["nv"], st["k"], st["edges"], mode, bias, ncv)
                st["equiv"] = {"R": fac * R0, "R0": R0, "mu0": st["X0"].sum(axis=0) / st["X0"].shape[0]}
        if not verify:
            return []
        return self._fit_oracle(st, op)

    def _fit_oracle(self, st, op):
        import scipy.sparse as sp

        _, mode, bias, nc, dt, feed = op
        nv, k, edges = st["nv"], st["k"], st["edges"]
        N = nv * k
        R, qs = st["ref"], st["qscale"]
        tol = self._tol(st)
        where = self._where(st, "fit")
        ctx = "graph %r, k=%d, letter %r" % (st["root"][:4], k, op[1:])
        fails = []
        ms, md = st["models"]
        want_dtype = np.dtype(np.float64 if dt == "f8" else np.float32)
        dense = {}
        for name, m, want_sparse in (("sparse", ms, True), ("dense", md, False)):
            p = m.precision
            if sp.issparse(p) != want_sparse or (not want_sparse and not isinstance(p, np.ndarray)):
                fails.append(Failure(where, "storage-kind", "%s model stores its precision as %s (%s)" % (name, type(p).__name__, ctx)))
            P = _dense(p)
            dense[name] = P
            if P.shape != (N, N):
                fails.append(Failure(where, "precision-shape", "%s precision has shape %s, expected %s (%s)" % (name, P.shape, (N, N), ctx)))
                continue
            if P.dtype != want_dtype:
                fails.append(Failure(where, "precision-dtype", "%s precision has dtype %s, asked for %s (%s)" % (name, P.dtype, want_dtype, ctx)))
            if not np.all(np.isfinite(P)):
                fails.append(Failure(where, "precision-finite", "%s precision is not finite (%s)" % (name, ctx)))
                continue
            P = P.astype(float)
            # (1) the definition
            err = float(np.abs(P - R).max()) / qs
            self._worst("precision-%s-%s" % (name, dt if feed not in SCALE_FEEDS else feed), err)
            if err > tol:
                i, j = np.unravel_index(np.argmax(np.abs(P - R)), P.shape)
                fails.append(Failure(where, "%s-equals-definition" % name, "%s precision differs from the sum of scattered inverse block covariances by %.3g of max|Q| (tolerance %.1g) at entry (%d, %d): got %.9g expected %.9g (%s)" % (name, err, tol, i, j, P[i, j], R[i, j], ctx)))
            # (2) symmetry
            err = float(np.abs(P - P.T).max()) / qs
            self._worst("symmetry-%s" % dt, err)
            if err > tol:
                fails.append(Failure(where, "%s-symmetric" % name, "%s precision is not symmetric: max |Q - Q^T| = %.3g of max|Q| (%s)" % (name, err, ctx)))
            # (3) positive semi-definite
            lam = np.linalg.eigvalsh((P + P.T) / 2.0)
            self._worst("min-eig-%s" % dt, max(0.0, -float(lam[0]) / qs))
            if lam[0] < -tol * qs:
                fails.append(Failure(where, "%s-psd" % name, "%s precision has eigenvalue %.3g (max|Q| = %.3g) (%s)" % (name, lam[0], qs, ctx)))
            self.note("psd:%s" % ("singular" if lam[0] < 1e-7 * qs else "definite"))
            # (4) couples two vertices only if the graph joins them
            joined = set(frozenset(e) for e in edges)
            for u in range(nv):
                for v in range(nv):
                    B = P[u * k : (u + 1) * k, v * k : (v + 1) * k]
                    if u != v and frozenset((u, v)) not in joined:
                        self.note("sparsity:unjoined-pair-checked")
                        if np.any(B != 0):
                            fails.append(Failure(where, "%s-graph-sparse" % name, "%s precision couples vertices %d and %d which the graph does not join: block max %.3g (%s)" % (name, u, v, np.abs(B).max(), ctx)))
                    elif u == v and edges and st["deg"][u] == 0:
                        self.note("sparsity:isolated-vertex-checked")
                        if np.any(B != 0):
                            fails.append(Failure(where, "%s-isolated-vertex-block" % name, "%s precision has a non-zero diagonal block (max %.3g) for vertex %d, which has no edge in a graph that has edges (%s)" % (name, np.abs(B).max(), u, ctx)))
                    elif u != v:
                        self.note("sparsity:joined-pair-nonzero" if np.any(B != 0) else "sparsity:joined-pair-zero")
            # model parameters
            mv = np.asarray(m.mean_vector)
            if mv.shape != (N,) or float(np.abs(mv - st["mu"]).max()) > st["tol_mean"] * st["xscale"]:
                fails.append(Failure(where, "mean-vector", "%s model: mean_vector %r is not the sample mean %r (%s)" % (name, mv, st["mu"], ctx)))
            if int(m.n_features_per_vertex) != k or int(m.n_features) != N or int(m.n_samples) != N_SAMPLES:
                fails.append(Failure(where, "model-parameters", "%s model: n_features_per_vertex=%r n_features=%r n_samples=%r, expected %d %d %d (%s)" % (name, m.n_features_per_vertex, m.n_features, m.n_samples, k, N, N_SAMPLES, ctx)))
        # (6) equivariance under re-expression of the data (scale letters)
        if st["equiv"] is not None:
            for name in ("sparse", "dense"):
                if dense[name].shape == (N, N):
                    err = float(np.abs(dense[name].astype(float) - st["equiv"]["R"]).max()) / qs
                    self._worst("equivariance-%s" % feed, err)
                    if not err <= tol:
                        fails.append(Failure(where, "scale-equivariant", "%s precision of the re-expressed data (%s) differs from the correspondingly rescaled precision of the generic data by %.3g of max|Q| (tolerance %.1g) (%s)" % (name, feed, err, tol, ctx)))
            self.note("equivariance:%s" % feed)
        # (5) storage independence, directly
        if dense["sparse"].shape == dense["dense"].shape == (N, N):
            err = float(np.abs(dense["sparse"].astype(float) - dense["dense"].astype(float)).max()) / qs
            self._worst("sparse-vs-dense-%s" % dt, err)
            if not err <= tol:
                fails.append(Failure(where, "sparse-equals-dense", "sparse and dense precision differ by %.3g of max|Q| (tolerance %.1g) (%s)" % (err, tol, ctx)))
        # outcome classes
        self.note("fit:%s" % ("agrees" if not fails else "differs"))
        self.note("graph:%s%d" % (st["root"][0], nv))
        if tuple(st["root"][:4]) in TREE_REFUSED:
            self.note("graph:valid-tree-refused-by-Tree-constructor(built-with-skip_checks)")
        self.note("graph:%s" % ("edgeless" if not edges else "edges"))
        if edges:
            self.note("mode:%s" % mode)
            if any(d == 0 for d in st["deg"]):
                self.note("graph:isolated-vertex-among-edges")
            if max(st["deg"]) >= 2:
                self.note("graph:vertex-of-degree>=2")
            if max(st["deg"]) >= 3:
                self.note("graph:vertex-of-degree>=3")
            if any(a > b for a, b in edges):
                self.note("graph:edge-from-higher-to-lower-vertex")
            if st["deg"][nv - 1] == 0:
                self.note("graph:last-vertex-isolated")
            if st["deg"][0] == 0:
                self.note("graph:first-vertex-isolated")
        self.note("bias:%d" % bias)
        self.note("ncomp:%s" % nc)
        dim = block_size(edges, mode, k)
        ncv = nc_value(nc, dim)
        if ncv is not None:
            self.note("ncomp-range:%s" % ("below-dim" if ncv < dim else "equal-dim" if ncv == dim else "between-dim-and-2dim" if ncv < 2 * dim else "2dim-or-more"))
        self.note("dtype:%s" % dt)
        self.note("feed:%s" % feed)
        self.note("k:%d" % k)
        return fails

    # ---- queries ------------------------------------------------------------------------------------
    # ---- refused calls ------------------------------------------------------------------------------
    @staticmethod
    def _graph_obs(g):
        a = g.adjacency_matrix
        a = a.toarray() if hasattr(a, "toarray") else np.asarray(a)
        return (type(g).__name__, int(g.n_vertices), a.shape, a.tobytes(), getattr(g, "root_vertex", None))

    @staticmethod
    def _arg_obs(arg):
        if isinstance(arg, np.ndarray):
            return ("A", arg.shape, str(arg.dtype), arg.tobytes(), bool(arg.flags.writeable))
        if isinstance(arg, (list, tuple)):
            return (type(arg).__name__,) + tuple(C12._arg_obs(a) for a in arg)
        if hasattr(arg, "points"):
            return ("PC", C12._arg_obs(arg.points))
        return repr(arg)

    def _refused_call(self, st, kind, m, sparse):
        """(callable, argument objects to watch, expected exception class or None) for one model of the pair."""
        from menpo.shape import PointCloud

        nv, k = st["nv"], st["k"]
        pc = st["cfg"][4].startswith("pc")
        cls = type(m)
        if kind == "increment":
            rows = np.array(st["X"][:3], dtype=float, copy=True)
            arg = [PointCloud(r.reshape(nv, k).copy()) for r in rows] if pc else rows
            return (lambda: m.increment(arg)), [arg], ValueError
        if kind.startswith("query"):
            sub = not kind.endswith("nosub")
            dn = 1 if "long" in kind else -1
            if pc:
                arg = PointCloud(np.full((nv + dn, k), 1.5))
            else:
                arg = np.full(nv * k + dn, 1.5)
            return (lambda: m.mahalanobis_distance(arg, subtract_mean=sub)), [arg], None
        # constructor refusals on the model's OWN graph object
        X = np.array(st["X"], dtype=float, copy=True)
        if kind == "ctor-singular":
            X[:, ::k] = 1.25  # feature 0 of every vertex is constant: every block covariance is exactly singular
            exp = np.linalg.LinAlgError
            mode = st["cfg"][0]
        else:
            exp = ValueError
            mode = "average"
        data = [PointCloud(r.reshape(nv, k).copy()) for r in X] if pc else X
        dtype = np.float64 if st["cfg"][3] == "f8" else np.float32
        return (lambda: cls(data, m.graph, mode=mode, n_components=None, dtype=dtype, sparse=sparse, bias=0)), [data], exp

    def _q_refuse(self, st, op, verify):
        kind = op[1]
        where = self._where(st, "refuse-%s" % kind)
        fails = []
        ctx = "refused call %r, root %r letter %r" % (kind, st["root"], st["cfg"])
        calls = [(name,) + self._refused_call(st, kind, m, sparse) for name, m, sparse in zip(("sparse", "dense"), st["models"], (True, False))]

        def snapshot():
            return (tuple(self._obs(x) for x in st["models"]), tuple(self._graph_obs(x.graph) for x in st["models"]), tuple(tuple(self._arg_obs(a) for a in c[2]) for c in calls))

        before = snapshot() if verify else None
        for name, call, args, exp in calls:
            outcomes = []
            for attempt in (1, 2):  # (c) the retry must be refused in the same way
                try:
                    got = call()
                    outcomes.append(("returned", type(got).__name__, ""))
                except Exception as e:  # noqa - the refusal is the expected outcome; anything else is judged below
                    outcomes.append(("raised", type(e).__name__, str(e)[:200], e))
            if not verify:
                continue
            first = outcomes[0]
            if first[0] != "raised":
                fails.append(Failure(where, "not-refused", "%s model: the call returned a %s instead of raising (%s)" % (name, first[1], ctx)))
                self.note("refuse:%s-not-refused" % kind)
            else:
                if exp is not None and not isinstance(first[3], exp):
                    fails.append(Failure(where, "exception-type", "%s model: raised %s (%s), expected %s (%s)" % (name, first[1], first[2], exp.__name__, ctx)))
                if outcomes[1][:3] != first[:3]:
                    fails.append(Failure(where, "retry-refused-alike", "%s model: first attempt %r, retry %r (%s)" % (name, first[:3], outcomes[1][:3], ctx)))
                self.note("refuse:%s-raised-%s" % (kind, first[1]))
        if not verify:
            return []
        # (b) nothing observable changed: both models, their graphs, the arguments
        try:
            after = snapshot()
        except Exception as e:  # noqa
            after = None
            fails.append(Failure(where, "state-unchanged-by-refused-call", "the models cannot be observed any more after the refused calls: %s: %s (%s)" % (type(e).__name__, e, ctx)))
        if after is not None and after != before:
            what = []
            for part, a, b in zip(("model", "graph", "arguments"), before, after):
                for name, x, y in zip(("sparse", "dense"), a, b):
                    if x != y:
                        what.append("%s of the %s model" % (part, name))
            prec = ["%s.precision is now %s" % (name, repr(m.precision) if np.ndim(m.precision) == 0 else type(m.precision).__name__) for name, m in zip(("sparse", "dense"), st["models"])]
            fails.append(Failure(where, "state-unchanged-by-refused-call", "changed by the refused call: %s; %s (%s)" % (", ".join(what), "; ".join(prec), ctx)))
        self.note("refuse:%s" % ("state-kept" if not fails else "differs"))
        return fails

    def _q_mean(self, st, verify):
        if not verify:
            return []
        fails = []
        feed = st["cfg"][4]
        for name, m in zip(("sparse", "dense"), st["models"]):
            got, err = _try(lambda: m.mean())
            if err:
                fails.append(Failure(self._where(st, "mean"), "mean-raised", "%s model: mean() raised %s" % (name, err)))
                continue
            if feed.startswith("pc"):
                from menpo.shape import PointCloud

                if not isinstance(got, PointCloud) or got.points.shape != (st["nv"], st["k"]):
                    fails.append(Failure(self._where(st, "mean"), "mean-instance", "%s model: mean() is %r, expected a PointCloud of %d points in %d dimensions" % (name, got, st["nv"], st["k"])))
                    continue
                vec = np.asarray(got.points, dtype=float).ravel()
            else:
                vec = np.asarray(got, dtype=float)
            if vec.shape != st["mu"].shape or float(np.abs(vec - st["mu"]).max()) > st["tol_mean"] * st["xscale"]:
                fails.append(Failure(self._where(st, "mean"), "mean-is-sample-mean", "%s model: mean() = %r, sample mean = %r (root %r letter %r)" % (name, vec, st["mu"], st["root"], st["cfg"])))
        self.note("mean:%s" % ("agrees" if not fails else "differs"))
        return fails

    def _query_rows(self, st, q, mu=None, g=None):
        if mu is None:
            mu, g = st["mu"], st["q"]
        if q == "mean":
            return mu[None, :].copy(), "1d"
        if q == "single":
            return g[:1].copy(), "1d"
        if q == "row":
            return g[:1].copy(), "2d"
        if q == "batch":
            return g.copy(), "2d"
        if q == "batchmean":
            return np.vstack((g[1], mu, g[2])), "2d"
        if q == "listq":
            return g[1:].copy(), "list"
        if q == "zero":
            return np.zeros((1, mu.shape[0])), "1d"
        raise ValueError(q)

    def _call_maha(self, st, m, rows, form, sub, root):
        feed = st["cfg"][4]
        kw = {"subtract_mean": bool(sub), "square_root": bool(root)}
        if feed.startswith("pc"):
            from menpo.shape import PointCloud

            pcs = [PointCloud(r.reshape(st["nv"], st["k"]).copy()) for r in rows]
            if form == "1d" or (form == "2d" and len(pcs) == 1):
                return m.mahalanobis_distance(pcs[0], **kw)
            return m.mahalanobis_distance(pcs, **kw)
        if form == "1d":
            return m.mahalanobis_distance(rows[0].copy(), **kw)
        if form == "list":
            return m.mahalanobis_distance([r.copy() for r in rows], **kw)
        return m.mahalanobis_distance(rows.copy(), **kw)

    def _dist_scale(self, st, D, X, tol):
        """per-query magnitude s such that |d - reference| <= tol * s is the judgement: max|Q| |D|^2 (the natural size of
        the quadratic form) plus what the granted relative accuracy of x - mean contributes.  No absolute constant:
        everything scales with the data."""
        qs, mu = st["qscale"], st["mu"]
        a = np.abs(D).sum(axis=1)
        dd = EPS_MEAN["f4" if st["cfg"][4] in F4_MEAN_FEEDS else "f8"] * (np.abs(mu).sum() + np.abs(X).sum(axis=1))
        return qs * (a ** 2 + (2 * a * dd + dd ** 2) / tol)

    def _q_maha(self, st, op, verify):
        if not verify:
            return []
        _, q, sub, root = op
        dt = self._qtol(st)
        tol = self._tol(st)
        rows, form = self._query_rows(st, q)
        n = rows.shape[0]
        mu, R, qs = st["mu"], st["ref"], st["qscale"]
        D = rows - mu if sub else rows
        ref = np.einsum("ij,jk,ik->i", D, R, D)
        scale = self._dist_scale(st, D, rows, tol)
        ref_out = np.sqrt(np.maximum(ref, 0.0))
        # scale letters: the distance of a re-expressed query equals the distance of the generic query in the generic model
        ref0 = None
        eq = st.get("equiv")
        feed = st["cfg"][4]
        if eq is not None and q != "zero" and (sub or feed in SCALE_FACTOR):
            rows0, _ = self._query_rows(st, q, mu=eq["mu0"], g=st["q0"])
            D0 = rows0 - eq["mu0"] if sub else rows0
            ref0 = np.einsum("ij,jk,ik->i", D0, eq["R0"], D0)
        where = self._where(st, "maha")
        ctx = "query %r subtract_mean=%r square_root=%r, root %r letter %r" % (q, bool(sub), bool(root), st["root"], st["cfg"])
        fails = []
        got = {}
        for name, m in zip(("sparse", "dense"), st["models"]):
            val, err = _try(lambda: self._call_maha(st, m, rows, form, sub, root))
            if err:
                fails.append(Failure(where, "mahalanobis-raised", "%s model raised %s (%s)" % (name, err, ctx)))
                continue
            arr = np.asarray(val, dtype=float)
            if n == 1:
                if arr.shape != ():
                    fails.append(Failure(where, "single-query-returns-scalar", "%s model returned shape %s for one query (%s)" % (name, arr.shape, ctx)))
                    continue
                arr = arr.reshape(1)
            elif arr.shape != (n,):
                fails.append(Failure(where, "batch-shape", "%s model returned shape %s for %d queries (%s)" % (name, arr.shape, n, ctx)))
                continue
            if not np.all(np.isfinite(arr)):
                fails.append(Failure(where, "distance-finite", "%s model returned %r (%s)" % (name, arr, ctx)))
                continue
            sq = arr ** 2 if root else arr  # compare squared distances: one scale for every letter
            got[name] = sq
            # non-negative
            if root:
                if np.any(arr < 0):
                    fails.append(Failure(where, "non-negative", "%s model returned %r (%s)" % (name, arr, ctx)))
            elif np.any(sq < -tol * scale):
                fails.append(Failure(where, "non-negative", "%s model returned %r (%s)" % (name, arr, ctx)))
            # the definition (zero at the mean is the row whose reference value is exactly 0)
            err_v = np.abs(sq - ref) / scale
            self._worst("maha-%s-%s" % (name, dt), float(err_v.max()))
            bad = err_v > tol  # square_root letters are compared through their squares
            if np.any(bad):
                i = int(np.argmax(bad))
                at_mean = sub and not np.any(D[i])
                fails.append(Failure(where, "zero-at-mean" if at_mean else "%s-equals-quadratic-form" % name, "%s model: distance[%d] = %.12g, (x-mu)^T Q (x-mu) with the reference precision = %.12g%s (%s)" % (name, i, arr[i], ref_out[i] if root else ref[i], " (the query IS the mean)" if at_mean else "", ctx)))
            if ref0 is not None:
                e0 = np.abs(sq - ref0) / scale
                self._worst("maha-invariance-%s" % feed, float(e0.max()))
                if np.any(e0 > tol):
                    i = int(np.argmax(e0))
                    fails.append(Failure(where, "distance-invariant-under-re-expression", "%s model trained on the re-expressed data (%s): distance[%d] = %.12g, the same query in the generic model has %.12g (%s)" % (name, feed, i, sq[i], ref0[i], ctx)))
                self.note("maha:invariance-checked")
            # batched == single, on the same model
            if n > 1:
                for i in range(n):
                    one, err1 = _try(lambda: self._call_maha(st, m, rows[i : i + 1], "1d", sub, root))
                    if err1:
                        fails.append(Failure(where, "mahalanobis-raised", "%s model raised %s on row %d alone (%s)" % (name, err1, i, ctx)))
                        break
                    one = float(one)
                    e1 = abs((one ** 2 if root else one) - sq[i]) / scale[i]
                    self._worst("batch-vs-single", e1)
                    if not e1 <= TOL_SAME_MODEL:
                        fails.append(Failure(where, "batch-equals-single", "%s model: batch[%d] = %.12g but the same query alone gives %.12g (%s)" % (name, i, arr[i], one, ctx)))
                        break
                self.note("maha:batch-vs-single-compared")
        if len(got) == 2:
            e2 = float((np.abs(got["sparse"] - got["dense"]) / scale).max())
            self._worst("maha-sparse-vs-dense-%s" % dt, e2)
            if not e2 <= tol:
                fails.append(Failure(where, "sparse-equals-dense", "sparse %r vs dense %r (%s)" % (got["sparse"], got["dense"], ctx)))
        # outcome classes
        self.note("maha-query:%s" % q)
        if q == "zero" and not sub and not fails:
            self.note("maha:zero-vector-without-mean-subtraction")
        self.note("maha-opts:subtract%d-sqrt%d" % (sub, root))
        if sub:
            for i in range(n):
                if not np.any(D[i]):
                    self.note("maha:at-mean-zero" if not fails else "maha:at-mean-differs")
                elif ref[i] > 1e-6 * scale[i]:
                    self.note("maha:positive")
                else:
                    self.note("maha:generic-query-with-tiny-distance")
        self.note("maha:%s" % ("agrees" if not fails else "differs"))
        return fails

    def _form_values(self, st, form, shape):
        """float64 values carried by a query-form letter."""
        if form in BOOL_FORMS:
            V = st["qb"].astype(float)
        elif form in INT_FORMS:
            V = st["qi"]
        elif form == "list-mixed":
            V = np.vstack((st["qi"][0], st["q"][1], st["q"][2]))
        else:
            V = st["q"]
        return np.array(V[:1] if shape in ("s", "r") else V, dtype=float, copy=True)

    def _call_form(self, st, m, V, form, shape, sub):
        kw = {"subtract_mean": bool(sub)}
        if form.startswith("pc"):
            from menpo.shape import PointCloud

            nv, k = st["nv"], st["k"]
            if form in ("pc-fortran", "pc-ro"):
                P = present(V[0].reshape(nv, k), form[3:])
                pc = PointCloud(P, copy=False)
                return m.mahalanobis_distance(pc, **kw)
            dt = NP_DTYPES[form.split("-")[-1]]
            pcs = [PointCloud(_exact(r.reshape(nv, k), dt)) for r in V]
            return m.mahalanobis_distance(pcs if shape == "b" else pcs[0], **kw)
        arg = present(V[0] if shape == "s" else V, form)
        return m.mahalanobis_distance(arg, **kw)

    def _call_plain(self, st, m, V, shape, sub):
        """the same values as a fresh C-contiguous float64 ndarray (PointCloud(s) for GMRFModel)."""
        kw = {"subtract_mean": bool(sub)}
        if st["cfg"][4].startswith("pc"):
            from menpo.shape import PointCloud

            pcs = [PointCloud(r.reshape(st["nv"], st["k"]).copy()) for r in V]
            return m.mahalanobis_distance(pcs if shape == "b" else pcs[0], **kw)
        return m.mahalanobis_distance(V[0].copy() if shape == "s" else V.copy(), **kw)

    def _q_mform(self, st, op, verify):
        if not verify:
            return []
        _, form, shape, sub = op
        dt = self._qtol(st)
        tol = self._tol(st)
        V = self._form_values(st, form, shape)
        n = V.shape[0]
        mu, R, qs = st["mu"], st["ref"], st["qscale"]
        D = V - mu if sub else V
        ref = np.einsum("ij,jk,ik->i", D, R, D)
        scale = self._dist_scale(st, D, V, tol)
        where = self._where(st, "maha-form")
        ctx = "query form %r shape %r subtract_mean=%r values %r, root %r letter %r" % (form, shape, bool(sub), V.tolist(), st["root"], st["cfg"])
        fails = []
        got = {}
        for name, m in zip(("sparse", "dense"), st["models"]):
            val, err = _try(lambda: self._call_form(st, m, V, form, shape, sub))
            if err:
                fails.append(Failure(where, "mahalanobis-raised", "%s model raised %s (%s)" % (name, err, ctx)))
                continue
            arr = np.asarray(val, dtype=float)
            if arr.shape != (() if n == 1 else (n,)):
                fails.append(Failure(where, "result-shape", "%s model returned shape %s for %d queries (%s)" % (name, arr.shape, n, ctx)))
                continue
            arr = arr.reshape(n)
            if not np.all(np.isfinite(arr)):
                fails.append(Failure(where, "distance-finite", "%s model returned %r (%s)" % (name, arr, ctx)))
                continue
            got[name] = arr
            if np.any(arr < -tol * scale):
                fails.append(Failure(where, "non-negative", "%s model returned %r (%s)" % (name, arr, ctx)))
            err_v = np.abs(arr - ref) / scale
            self._worst("mform-%s-%s" % (name, dt), float(err_v.max()))
            if np.any(err_v > tol):
                i = int(np.argmax(err_v))
                fails.append(Failure(where, "%s-equals-quadratic-form" % name, "%s model: distance[%d] = %.12g, (x-mu)^T Q (x-mu) of the VALUES with the reference precision = %.12g (%s)" % (name, i, arr[i], ref[i], ctx)))
            # the form of the argument must not matter: same model, same values as a plain float64 array
            plain, err = _try(lambda: self._call_plain(st, m, V, shape, sub))
            if err:
                fails.append(Failure(where, "mahalanobis-raised", "%s model raised %s on the same values as a float64 array (%s)" % (name, err, ctx)))
                continue
            plain = np.asarray(plain, dtype=float).reshape(-1)
            e1 = float((np.abs(plain - arr) / scale).max()) if plain.shape == arr.shape else np.inf
            self._worst("form-vs-plain-%s" % dt, e1)
            # (a single-precision matrix or mean times a small-integer / float32 query is evaluated by numpy in single
            # precision: with float32 storage the form may matter at float32 rounding level, not more)
            if not e1 <= (TOL_SAME_MODEL if dt == "f8" else tol):
                fails.append(Failure(where, "form-independent", "%s model: %r for this form but %r for the same values as a float64 array (%s)" % (name, arr, plain, ctx)))
        if len(got) == 2:
            e2 = float((np.abs(got["sparse"] - got["dense"]) / scale).max())
            self._worst("mform-sparse-vs-dense-%s" % dt, e2)
            if not e2 <= tol:
                fails.append(Failure(where, "sparse-equals-dense", "sparse %r vs dense %r (%s)" % (got["sparse"], got["dense"], ctx)))
        self.note("qform:%s-%s" % (form, shape))
        self.note("qform-opts:subtract%d" % sub)
        self.note("qform:%s" % ("agrees" if not fails else "differs"))
        return fails

    def _q_pca(self, st, verify):
        if not verify:
            return []
        dt = st["cfg"][3]
        feed = st["cfg"][4]
        tol = max(TOL_EIGPAIR[dt], st["tol_floor"])
        R, qs = st["ref"], st["qscale"]
        N = R.shape[0]
        where = self._where(st, "pca")
        fails = []
        for name, m in zip(("sparse", "dense"), st["models"]):
            ctx = "%s model, root %r letter %r" % (name, st["root"], st["cfg"])
            pm, err = _try(lambda: m.principal_components_analysis())
            if err:
                # the sparse route hands the matrix to ARPACK, which may legitimately refuse tiny / singular problems;
                # the property does not speak about PCA, so a refusal is only recorded
                self.note("pca:%s-raised" % name)
                continue
            C = np.asarray(pm.components, dtype=float)
            lam = np.asarray(pm.eigenvalues, dtype=float)
            mean = pm.mean()
            mean = np.asarray(mean.as_vector() if feed.startswith("pc") else mean, dtype=float)
            if mean.shape != st["mu"].shape or float(np.abs(mean - st["mu"]).max()) > st["tol_mean"] * st["xscale"]:
                fails.append(Failure(where, "pca-mean", "PCA of the precision has mean %r, sample mean %r (%s)" % (mean, st["mu"], ctx)))
            if C.ndim != 2 or C.shape[1] != N or lam.shape != (C.shape[0],):
                fails.append(Failure(where, "pca-shape", "components %s eigenvalues %s (%s)" % (C.shape, lam.shape, ctx)))
                continue
            if C.shape[0] == 0:
                self.note("pca:%s-no-component" % name)
                continue
            if np.any(lam <= 0) or not np.all(np.isfinite(lam)):
                fails.append(Failure(where, "pca-eigenvalues-positive", "eigenvalues %r (%s)" % (lam, ctx)))
                continue
            res = np.abs(C.dot(R) - C / lam[:, None]).max() / qs
            self._worst("pca-eigpair-%s-%s" % (name, dt), float(res))
            if not res <= tol:
                fails.append(Failure(where, "pca-pairs-are-eigenpairs-of-precision", "some returned (component c, eigenvalue l) has |Q c - c / l| = %.3g of max|Q| with the reference precision Q (tolerance %.1g) (%s)" % (res, tol, ctx)))
            self.note("pca:%s-%s" % (name, "agrees" if not fails else "differs"))
        return fails

    # ------------------------------------------------------------------ reporting
    def vacuity(self, notes, stats):
        need = ["fit:agrees", "graph:edgeless", "graph:edges", "graph:isolated-vertex-among-edges", "graph:vertex-of-degree>=2", "graph:vertex-of-degree>=3", "graph:edge-from-higher-to-lower-vertex", "graph:last-vertex-isolated", "graph:first-vertex-isolated"]
        need += ["graph:U2", "graph:U3", "graph:T2", "graph:T3", "graph:T4", "graph:D2", "graph:D3"]
        if self.tier != "quick":
            need += ["graph:U4", "graph:D4"]
        need += ["mode:%s" % m for m in MODES] + ["bias:0", "bias:1"] + ["ncomp:%s" % nc for nc in NCOMP_ALL]
        need += ["ncomp-range:below-dim", "ncomp-range:equal-dim", "ncomp-range:between-dim-and-2dim", "ncomp-range:2dim-or-more", "maha-query:zero", "maha:zero-vector-without-mean-subtraction"]
        need += ["dtype:%s" % d for d in DTYPES] + ["feed:%s" % f for f in FEEDS + FORM_FEEDS] + ["k:1", "k:2", "k:3"]
        need += ["qform:%s-%s" % fs for fs in VEC_QFORMS + PC_QFORMS] + ["qform:agrees", "qform-opts:subtract0", "qform-opts:subtract1"]
        need += ["feed:%s" % f for f in SCALE_FEEDS] + ["equivariance:%s" % f for f in SCALE_FEEDS] + ["maha:invariance-checked", "graph:U%d" % LARGE_NV]
        need += ["refuse:state-kept", "refuse:increment-raised-ValueError", "refuse:query-long-raised-ValueError", "refuse:query-long-nosub-raised-ValueError", "refuse:query-short-raised-ValueError", "refuse:ctor-mode-raised-ValueError", "refuse:ctor-singular-raised-LinAlgError"]
        need += ["sparsity:unjoined-pair-checked", "sparsity:isolated-vertex-checked", "sparsity:joined-pair-nonzero", "psd:singular", "psd:definite"]
        need += ["mean:agrees", "maha:agrees", "maha:at-mean-zero", "maha:positive", "maha:batch-vs-single-compared", "pca:dense-agrees", "pca:sparse-agrees"]
        need += ["maha-query:%s" % q for q in QUERIES] + ["maha-opts:subtract1-sqrt0", "maha-opts:subtract0-sqrt0", "maha-opts:subtract1-sqrt1"]
        out = ["outcome %s never produced" % n for n in need if not notes.get(n)]
        if notes.get("fit:raised"):
            pass  # reported as failures
        if not getattr(stats, "merged", 0):
            out.append("mode letters of an edgeless graph never met in one state (the edgeless special case was not reached)")
        return out

    def rule(self):
        return (
            "roots = every graph letter x features per vertex; level 0 applies every configuration letter (mode, bias, rank truncation, "
            "dtype, feed/class), each building the sparse AND the dense model with the real constructors and comparing both with the "
            "plain-numpy definition and with each other; level 1 runs every read-only query letter on every distinct model pair; "
            "queries must leave the observation of both models unchanged"
        )

    def alphabet_sizes(self):
        gs = self._graphs()
        cnt = {}
        for g in gs:
            cnt["%s%d" % (g[0], g[1])] = cnt.get("%s%d" % (g[0], g[1]), 0) + 1
        return {
            "roots": len(self.roots()),
            "graphs": cnt,
            "features_per_vertex": [1, 2, 3],
            "modes": MODES,
            "bias": [0, 1],
            "n_components_fully_crossed": NCOMP_QUICK if self.tier == "quick" else NCOMP_THOROUGH,
            "n_components_boundary_letters": [nc for nc in NCOMP_ALL if nc not in (NCOMP_QUICK if self.tier == "quick" else NCOMP_THOROUGH)],
            "n_components_far_value": NCOMP_FAR,
            "dtypes": DTYPES,
            "feeds": FEEDS,
            "training_data_form_letters": FORM_FEEDS,
            "query_form_letters": ["%s/%s" % fs for fs in VEC_QFORMS + PC_QFORMS],
            "refused_call_letters": REFUSALS,
            "scale_letters": SCALE_FEEDS,
            "scale_letter_graphs": [repr(g) for g in SCALE_GRAPHS] + ["large graph: chain of %d vertices with two chords, k=2" % LARGE_NV],
            "scale_letter_n_components": SCALE_NCOMP,
            "query_form_letters_without_mean_subtraction": ["%s/%s" % fs for fs in VEC_QFORMS_NOSUB + PC_QFORMS_NOSUB],
            "query_letters": QUERIES,
            "n_samples": N_SAMPLES,
            "guards": {"block_cov_cond_max": COND_MAX, "block_cov_eig_gap_min_at_truncation_ranks": GAP_MIN},
            "tolerances": {"precision_rel_max_f8": TOL["f8"], "precision_rel_max_f4": TOL["f4"], "mean_abs_scaled": TOL_MEAN, "mean_abs_scaled_float32_data": TOL_MEAN_F4, "batch_vs_single": TOL_SAME_MODEL, "pca_eigpair_f8": TOL_EIGPAIR["f8"], "pca_eigpair_f4": TOL_EIGPAIR["f4"]},
        }

    def assumptions(self):
        return [
            "graphs: every undirected graph and every digraph without antiparallel pairs on 2..%d vertices, every labelled rooted tree on 2..4 vertices; larger graphs are outside the bound" % (3 if self.tier == "quick" else 4),
            "one data letter of %d samples per (V, k) (seeded payload) under the conditioning guard: every block covariance has condition number <= %g and consecutive eigenvalues at every truncation rank of the alphabet (1, dim//2, dim-1) differ by a factor >= %g" % (N_SAMPLES, COND_MAX, GAP_MIN),
            "n_components letters relative to the block size dim: none, 1, dim//2, dim-1, dim, dim+1, 2dim-1, 2dim, %d (values >= dim are the documented full inverse); values < 1 (rank 0: not a model; negative: undocumented slicing) are not letters; "
            "letters other than %s are crossed with the mode only (thorough: also bias and stored dtype), ndarray feed" % (NCOMP_FAR, "/".join(NCOMP_QUICK if self.tier == "quick" else NCOMP_THOROUGH)),
            "boundaries not in the alphabet because the property text is silent or the quantifier excludes them: an empty query batch (returns []), n_samples = dim + 1 (barely invertible block covariances are not 'well-conditioned'), a single-vertex graph",
            "4-vertex digraphs (thorough) run with k in {1, 2} and the ndarray feed only; every other graph with k in {1, 2, 3} and all three feeds",
            "three generic query vectors per (V, k) plus the sample mean; subtract_mean=False and square_root=True on a subset of the query letters",
            "[interp] principal_components_analysis is used as an observation channel only (returned pairs must be eigenpairs of the reference precision); equality of the PCA between storages is not demanded - the sparse route asks ARPACK for N-1 pairs by design",
            "argument forms: the same payload as int64/int32/int16/uint8/float32/float16/bool ndarrays, python lists / tuples of python or numpy scalars, lists / tuples of rows, mixed-dtype lists of arrays, "
            "read-only, column-major, strided and negative-stride views, integer / float32 / bool / non-owning PointClouds; training-data forms run with both modes, bias 0, plain inverse, float64 precision; "
            "query forms run on every model with bias 0 and the plain inverse (the integer payload Xi = rint(16 X) is used where a dtype cannot carry X)",
            "forms that the unchanged tree rejects or mishandles outside the property text are not letters: a generator for GMRFVectorModel (IndexError), a tuple of PointClouds as query (AttributeError), float16 training data "
            "(half-precision mean), a list of PointClouds of mixed dtype starting with an integer one (as_matrix truncates the others - reported)",
            "refused calls (increment on a non-incremental model, wrong-size queries, invalid mode, singular data) are made twice on the same live models / graph in between the valid queries; they must raise (ValueError for increment and "
            "mode, LinAlgError for singular data, any exception for wrong sizes), leave models, graph and arguments exactly as they were, and every later query runs its normal oracle on the same models; "
            "not refusal letters because the unchanged tree does not refuse them: a query of length 1 (broadcast against the mean), an invalid mode on an edgeless graph (ignored), a singular covariance with n_components set (SVD path returns inf)",
            "scale letters (payload x 1e-6, x 1e-9, x 1e6, + 1e6 offset, nearly equal vertices) run on %d small graphs x k in {1, 2, 3} and on the large graph, with n_components none / dim-1 / dim+1, both modes, bias 0, float64, ndarray feed; "
            "nearly equal vertices only for edgeless graphs and subtraction mode (a concatenated block of nearly equal vertices is ill conditioned); every tolerance is relative to the magnitude of the data "
            "(max|Q| for precisions, max|Q| |x - mu|^2 plus the granted accuracy of x - mu for distances, max|X| for means) and is never below 100 x eps x (max|X| / block spread) x %g, the rounding any float64 evaluation suffers when an offset has to cancel" % (len(SCALE_GRAPHS), COND_MAX),
            "one large-size letter: a chain of %d vertices with two chords, 2 features per vertex, its data drawn vertex by vertex under the same guard restricted to the blocks that graph uses" % LARGE_NV,
            "incremental models are the subject of C11 and are not built here",
        ]


CHECK = C12
