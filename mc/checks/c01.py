"""C01 - image geometry ops keep landmarks and mask registered to pixel content.

State   : one live image (identity-coordinate ramp pixels at the root) with two landmark groups (and a mask).
Ops     : every geometry op letter (crop family, rescale/resize family, zoom, rotate, mirror,
          transform-about-centre, warp_to_shape / warp_to_mask with affine, TPS and piecewise-affine warps,
          pyramids); the result of an op is the next state (depth 2 = op applied to the result of an op).
Oracle  : for the returned (result, T) with T mapping result coordinates to source coordinates
          (a) every result pixel whose T-image has its interpolation support inside the source equals the
              reference interpolation (own numpy multilinear / nearest) of the SOURCE pixels at T(p);
          (b) T(result landmark) == source landmark for every group; group class / labels / edges unchanged;
          (c) result.sample(l') == source.sample(l) for support-valid landmarks;
          (d) masked: result.mask[p] == source.mask[round T(p)]  (BooleanImage: its pixels);
          (e) class, channel count, dtype preserved; source image unchanged; return_transform on/off agree.
"""
import itertools

import numpy as np

from mc.core import Check, Failure
from mc.letters import rs
from mc.observe import obs_diff, obs_key, observe

TIE = 0.05


# ------------------------------------------------------------------------------------------------
# reference interpolation (independent of menpo / scipy)
# ------------------------------------------------------------------------------------------------
def ref_linear(px, pts):
    """multilinear interpolation of px (C, *S) at pts (N, nd); returns (values (C,N), valid (N,))
    valid = the whole 2^nd support lies inside the array."""
    S = np.array(px.shape[1:])
    nd = len(S)
    lo = np.floor(pts).astype(int)
    # points exactly on the last index use the previous cell with weight 1
    lo = np.minimum(lo, S - 2)
    valid = np.all((pts >= 0) & (pts <= S - 1), axis=1)
    lo = np.clip(lo, 0, np.maximum(S - 2, 0))
    f = pts - lo
    out = np.zeros((px.shape[0], len(pts)))
    pxf = px.astype(float)
    for corner in itertools.product((0, 1), repeat=nd):
        w = np.ones(len(pts))
        idx = []
        for k, c in enumerate(corner):
            w = w * (f[:, k] if c else (1 - f[:, k]))
            idx.append(np.clip(lo[:, k] + c, 0, S[k] - 1))
        out += w * pxf[(slice(None),) + tuple(idx)]
    return out, valid


def ref_nearest(px, pts):
    """nearest neighbour; returns (values (C,N), valid (N,)) - valid = inside and away from rounding ties"""
    S = np.array(px.shape[1:])
    r = np.floor(pts + 0.5).astype(int)
    frac = np.abs((pts - np.floor(pts)) - 0.5)
    valid = np.all((pts >= 0) & (pts <= S - 1) & (frac > TIE), axis=1)
    r = np.clip(r, 0, S - 1)
    return px[(slice(None),) + tuple(r[:, k] for k in range(len(S)))], valid


def ramp(shape, c):
    idx = np.indices(shape).astype(float)
    nd = len(shape)
    chans = [1 + sum((k + 2) * idx[k] for k in range(nd))]
    chans += [idx[k] for k in range(nd)]
    chans.append(3 - idx[0] + 0.5 * idx[-1])
    chans.append(2 * idx[-1] - 0.25 * idx[0] + 1)
    return np.stack(chans[:c])


# ------------------------------------------------------------------------------------------------
KINDS = [
    # name, class, shape, channels, dtype, mask
    ("I64c3", "Image", (7, 9), 3, "float64", None),
    ("I64c1", "Image", (7, 9), 1, "float64", None),
    ("I32c4", "Image", (7, 9), 4, "float32", None),
    ("I32c2", "Image", (7, 9), 2, "float32", None),
    ("U8c1", "Image", (7, 9), 1, "uint8", None),
    # the same ramps at other pixel magnitudes (values ~1e-10 and ~1e7): nothing in the property depends on the unit
    ("I64c2-tiny", "Image", (7, 9), 2, "float64", None),
    ("I64c2-huge", "Image", (7, 9), 2, "float64", None),
    ("Msparse-tiny", "MaskedImage", (7, 9), 1, "float64", "sparse"),
    ("Mall", "MaskedImage", (7, 9), 1, "float64", "all"),
    ("Msparse", "MaskedImage", (7, 9), 2, "float64", "sparse"),
    ("B", "BooleanImage", (7, 9), 1, "bool", None),
    ("I64c3-3d", "Image", (4, 5, 6), 3, "float64", None),
    ("Msparse-3d", "MaskedImage", (4, 5, 6), 1, "float64", "sparse"),
    ("B-3d", "BooleanImage", (4, 5, 6), 1, "bool", None),
]
KIND = {k[0]: k for k in KINDS}


def sparse_mask(shape, seed):
    """asymmetric L-shaped mask (so flips and axis swaps are visible) with a seeded hole"""
    m = np.zeros(shape, dtype=bool)
    sl = tuple(slice(1, s - 1) for s in shape)
    m[sl] = True
    cut = tuple(slice(1, max(2, s // 2)) for s in shape)
    m[cut] = False
    r = rs(seed, "c01mask", shape)
    hole = tuple(int(r.randint(max(2, s // 2), s - 1)) for s in shape)
    m[hole] = False
    m[tuple(s - 2 for s in shape)] = True
    return m


def bool_pattern(shape, seed):
    r = rs(seed, "c01bool", shape)
    m = r.rand(*shape) > 0.45
    m[tuple(0 for _ in shape)] = True
    m[tuple(s - 1 for s in shape)] = False
    m[tuple(1 if i == 0 else 0 for i in range(len(shape)))] = False
    return m


class C01(Check):
    id = "C01"
    title = "image geometry ops keep landmarks and mask registered to pixel content"

    def depth(self):
        return 1 if self.tier == "quick" else 2

    def roots(self):
        out = []
        for k in KINDS:
            n_sh = 4 if len(k[2]) == 2 else 1
            for s in range(n_sh):
                out.append((k[0], s, n_sh))
        out.append(("pyr", 0, 1))
        out.append(("pyrM", 0, 1))
        return out

    # ------------------------------------------------------------------ build
    def build(self, root):
        from menpo.image import BooleanImage, Image, MaskedImage
        from menpo.shape import LabelledPointUndirectedGraph, PointCloud

        import collections

        name = root[0]
        if name in ("pyr", "pyrM"):
            shape, c, dtype, cls, mk = (17, 21), 2, "float64", ("Image" if name == "pyr" else "MaskedImage"), "all"
        else:
            _, cls, shape, c, dtype, mk = KIND[name]
        nd = len(shape)
        if cls == "BooleanImage":
            im = BooleanImage(bool_pattern(shape, self.seed))
        else:
            px = ramp(shape, c).astype(dtype)
            if name.endswith("-tiny"):
                px = px * 1e-10
            elif name.endswith("-huge"):
                px = px * 1e7
            if cls == "Image":
                im = Image(px)
            else:
                m = np.ones(shape, dtype=bool) if mk == "all" else sparse_mask(shape, self.seed)
                im = MaskedImage(px, mask=m)
        r = rs(self.seed, "c01lm", shape)
        S = np.array(shape, dtype=float)
        # fractional interior landmarks (at least `margin` pixels from every border), pairwise apart
        margin = 1.3 if min(shape) >= 7 else 0.75
        apart = 1.0 if min(shape) >= 7 else 0.7
        box = S - 1 - 2 * margin
        for attempt in range(100000):
            p1 = margin + r.rand(4, nd) * box
            p2 = margin + r.rand(3, nd) * box
            allp = np.vstack([p1, p2])
            d = np.sqrt(((allp[:, None] - allp[None]) ** 2).sum(-1)) + np.eye(7) * 9
            need = np.minimum(1.5, 0.65 * box)  # each group spans enough for the crop-to-landmarks family
            if d.min() > apart and np.all(p1.max(0) - p1.min(0) >= need) and np.all(p2.max(0) - p2.min(0) >= need):
                break
        else:
            from mc.core import HarnessError

            raise HarnessError("landmark guard cannot be satisfied for shape %r" % (shape,))
        im.landmarks["pc"] = PointCloud(p1)
        im.landmarks["lg"] = LabelledPointUndirectedGraph.init_from_indices_mapping(
            p2, np.array([[0, 1], [1, 2], [0, 2]]), collections.OrderedDict([("zeta", [0, 1]), ("alpha", [1, 2])])
        )
        return {"img": im, "root": root, "level": 0}

    def canon(self, st):
        o = observe(st["img"])
        return (st["root"][0], obs_key(o, decimals=17 if st["root"][0].endswith("-tiny") else 6))

    # ------------------------------------------------------------------ alphabet
    def _letters_2d(self, st, reduced):
        img = st["img"]
        masked = type(img).__name__ == "MaskedImage"
        out = []
        S = img.shape
        if min(S) < 4:
            return []
        if reduced:
            out += [("crop", (1.0, 2.0), (S[0] - 1.0, S[1] - 2.0)), ("crop", (0.6, 1.2), (S[0] - 1.5, S[1] - 1.1))]
            out += [("crop_to_landmarks", "pc", 1)]
            out += [("rescale", 1.5, "ceil", 1), ("rescale", (1.3, 0.7), "round", 1), ("rescale", 0.75, "floor", 0)]
            out += [("resize", (S[0] + 3, S[1] - 2)), ("zoom", 1.5)]
            out += [("rotate", 30, "deg", False, 1), ("rotate", -45, "deg", True, 1)]
            out += [("mirror", 0, 1), ("mirror", 1, 0)]
            out += [("tac", "shear", False), ("tac", "nus", True)]
            out += [("warp_to_shape", "affine", 1), ("warp_to_shape", "tps", 1)]
            out += [("warp_to_mask", "similarity", 1), ("warp_to_mask", "pwa", 1)]
            return out
        out += [("crop", (1.0, 2.0), (S[0] - 1.0, S[1] - 2.0)), ("crop", (0.6, 1.2), (S[0] - 1.5, S[1] - 1.1)), ("crop", (0.0, 0.0), (float(S[0]), float(S[1])))]
        for g in ("pc", "lg"):
            for b in (0, 1, 1.5):
                out.append(("crop_to_landmarks", g, b))
                out.append(("crop_to_pointcloud", g, b))
            for prop in (0.1, 0.4):
                for mn in (True, False):
                    out.append(("crop_to_landmarks_proportion", g, prop, mn))
            out.append(("crop_to_pointcloud_proportion", g, 0.25, True))
        if masked:
            out += [("crop_to_true_mask", 0), ("crop_to_true_mask", 1)]
        for sc in (0.5, 2, 1.5, 0.75, (2, 0.5), (1.3, 0.7)):
            for rnd in ("ceil", "round", "floor"):
                for order in (0, 1):
                    out.append(("rescale", sc, rnd, order))
        out += [("rescale_to_diagonal", 8.0, "ceil"), ("rescale_to_diagonal", 17.0, "round"), ("rescale_to_diagonal", 17.0, "floor")]
        out += [("rescale_to_pointcloud", "pc", 1.5), ("rescale_to_pointcloud", "lg", 0.7)]
        out += [("rescale_landmarks_to_diagonal_range", "pc", 6.0), ("rescale_landmarks_to_diagonal_range", "lg", 3.5)]
        out += [("resize", (10, 5)), ("resize", (4, 12)), ("resize", (S[0], S[1]))]
        for z in (0.5, 1.5, 2):
            out.append(("zoom", z))
        for th in (30, 90, -45, 200, 400):
            for unit in ("deg", "rad"):
                for retain in (False, True):
                    out.append(("rotate", th, unit, retain, 1))
        out += [("rotate", 30, "deg", False, 0), ("rotate", 30, "deg", False, 1, "ceil"), ("rotate", 30, "deg", False, 1, "floor")]
        for ax in (0, 1):
            for order in (0, 1):
                out.append(("mirror", ax, order))
        for t in ("shear", "nus", "rot", "sim"):
            for retain in (False, True):
                out.append(("tac", t, retain))
        for t in ("translation", "similarity", "affine", "tps"):
            for order in (0, 1):
                out.append(("warp_to_shape", t, order))
        # user-supplied transforms in other legal forms: integer-dtype matrices (menpo keeps the dtype it is given)
        for t in ("affine-int", "similarity-int", "translation-int"):
            out.append(("warp_to_shape", t, 1))
            out.append(("warp_to_mask", t, 1))
        # warps given as ALIGNMENT objects fitted to noisy correspondences (their pseudoinverse is a route of its own:
        # the inverse of the fitted map, not a fit in the other direction)
        for t in ("alignment-affine", "alignment-similarity"):
            out.append(("warp_to_shape", t, 1))
            out.append(("warp_to_mask", t, 1))
        # pure translations whose sampled window stays inside the source: integer, fraction below and above one half,
        # negative fraction (each rounds differently under floor / truncation / round-to-nearest)
        for shift in ((1.0, 2.0), (1.3, 2.4), (2.6, 1.7), (0.6, 0.7)):
            out.append(("warp_window", shift, 1))
        out.append(("warp_window", (2.6, 1.7), 0))
        out.append(("tac", "shift-frac", True))
        for t in ("translation", "similarity", "affine", "tps", "pwa"):
            out.append(("warp_to_mask", t, 1))
        out.append(("warp_to_mask", "pwa", 0))
        # the same warp object used before with another target, then re-targeted (anything memoised on the transform
        # - its inverse, its containment cache - must follow the new target)
        out += [("warp_to_shape", "tps-reused", 1), ("warp_to_mask", "tps-reused", 1), ("warp_to_mask", "pwa-reused", 1)]
        # the same warp object asked, in between, for a template that leaves its domain: the request must be refused,
        # refused again when repeated, and the object must go on warping correctly afterwards
        out.append(("warp_to_mask", "pwa-refused", 1))
        return out

    def _letters_3d(self, st, reduced):
        S = st["img"].shape
        if min(S) < 4:
            return []
        out = [("crop", (1.0, 0.0, 1.0), (S[0] - 0.0, S[1] - 1.0, S[2] - 2.0)), ("crop", (0.4, 1.2, 0.9), (S[0] - 1.2, S[1] - 0.5, S[2] - 1.5))]
        out += [("crop_to_landmarks", "pc", 1)]
        out += [("rescale", 1.5, "ceil", 1), ("rescale", (1.3, 0.7, 2.0), "round", 1), ("rescale", 2, "floor", 0)]
        out += [("resize", (6, 4, 7)), ("zoom", 1.5)]
        out += [("mirror", 0, 1), ("mirror", 1, 1), ("mirror", 2, 0)]
        out += [("warp_to_shape", "translation", 1), ("warp_to_shape", "affine", 1), ("warp_to_shape", "affine", 0)]
        return out[:6] if reduced else out

    def _enabled(self, st, op):
        """letters whose preconditions (documented domain of the op) hold in this state"""
        img = st["img"]
        S = np.array(img.shape, dtype=float)
        if op[0] == "crop":
            return bool(np.all(np.ceil(np.minimum(op[2], S)) - np.floor(np.maximum(op[1], 0)) >= 2))
        if op[0] == "warp_window":
            return bool(np.all(S >= 6))
        if op[0] == "warp_to_mask" and op[1] in ("pwa", "pwa-reused", "pwa-refused"):
            # every landmark must lie inside the piecewise-affine target domain (inner quadrilateral of the image)
            lms = np.vstack([img.landmarks[g].points for g in img.landmarks])
            return bool(np.all(lms > 0.9) and np.all(lms < S - 1.9) and np.all(lms.max(axis=0) - lms.min(axis=0) > 1.0))
        if op[0] in ("crop_to_landmarks", "crop_to_pointcloud", "crop_to_landmarks_proportion", "crop_to_pointcloud_proportion"):
            p = img.landmarks[op[1]].points
            return bool(np.all(p.max(axis=0) - p.min(axis=0) >= 1.0) and np.all(p.min(axis=0) >= 0) and np.all(p.max(axis=0) <= S - 1))
        return True

    def ops(self, st, level):
        return [o for o in self._ops(st, level) if self._enabled(st, o)]

    def _ops(self, st, level):
        name = st["root"][0]
        if name in ("pyr", "pyrM"):
            if level > 0:
                return []
            return [("pyramid", 3, 2), ("pyramid", 3, 1.5), ("pyramid", 2, 3), ("gaussian_pyramid", 3, 2), ("gaussian_pyramid", 3, 1.5)]
        nd = st["img"].n_dims
        # second level (thorough): the full alphabet again on every 2-D kind, the reduced one in 3-D
        reduced = level > 0 and nd != 2
        out = self._letters_2d(st, reduced) if nd == 2 else self._letters_3d(st, reduced)
        if level == 0:
            s, n = st["root"][1], st["root"][2]
            out = [o for i, o in enumerate(out) if i % n == s]
        return out

    # ------------------------------------------------------------------ calling the real code
    def _affine_letter(self, name, nd, S_src, S_tpl):
        """a well-conditioned template->source transform whose image of the template overlaps the source"""
        import menpo.transform as mt

        r = rs(self.seed, "c01aff", name, nd)
        if name == "translation":
            return mt.Translation(0.3 + r.rand(nd) * 1.2)
        if name == "similarity":
            if nd == 2:
                th = np.deg2rad(12 + 10 * r.rand())
                R = np.array([[np.cos(th), -np.sin(th)], [np.sin(th), np.cos(th)]])
            else:
                R = np.eye(nd)
            h = np.eye(nd + 1)
            h[:nd, :nd] = (0.8 + 0.15 * r.rand()) * R
            h[:nd, nd] = 0.4 + r.rand(nd) * 1.5
            return mt.Similarity(h)
        h = np.eye(nd + 1)
        h[:nd, :nd] = np.diag(0.75 + 0.2 * r.rand(nd)) + 0.12 * (r.rand(nd, nd) - 0.3)
        h[:nd, nd] = 0.3 + r.rand(nd) * 1.0
        return mt.Affine(h)

    def _warp_letter(self, img, name, tpl_shape):
        """(transform template->source, template mask or None).  TPS / PWA are fitted so that the image's
        landmark points are control points (a TPS pseudoinverse is exact only there)."""
        import menpo.transform as mt
        from menpo.image import BooleanImage
        from menpo.shape import PointCloud, TriMesh

        nd = img.n_dims
        if name.endswith("-reused"):
            from menpo.shape import PointCloud as _PC

            t, dom = self._warp_letter(img, name[: -len("-reused")], tpl_shape)
            final = t.target.points.copy()
            r = rs(self.seed, "c01reuse", name)
            # first life of the object: another target, used for a complete warp (landmarks included)
            t.set_target(_PC(final + 0.3 * (r.rand(*final.shape) - 0.5)) if dom is None else type(t.target)(final + 0.15 * (r.rand(*final.shape) - 0.5), t.target.trilist))
            tm = BooleanImage(np.ones(tpl_shape, dtype=bool))
            try:
                if dom is None:
                    img.warp_to_shape(tpl_shape, t, warp_landmarks=True)
                else:
                    img.warp_to_mask(tm, t, warp_landmarks=True)
            except Exception as e:  # the first life is only there to warm the object up
                self.note("reuse:first-warp-raised-%s" % type(e).__name__)
            t.set_target(_PC(final) if dom is None else type(t.target)(final, t.target.trilist))
            self.note("reuse:%s" % name)
            return t, dom
        if name in ("affine-int", "similarity-int", "translation-int"):
            h = {
                "affine-int": [[1, 1, 0], [0, 2, 1], [0, 0, 1]],  # shear + anisotropic scale, template -> source
                "similarity-int": [[0, -2, 7], [2, 0, 0], [0, 0, 1]],  # quarter turn x 2
                "translation-int": [[1, 0, 1], [0, 1, 2], [0, 0, 1]],
            }[name]
            cls = {"affine-int": mt.Affine, "similarity-int": mt.Similarity, "translation-int": mt.Affine}[name]
            return cls(np.array(h, dtype=np.int64)), None
        if name in ("translation", "similarity", "affine"):
            return self._affine_letter(name, nd, img.shape, tpl_shape), None
        if name in ("alignment-affine", "alignment-similarity"):
            base = self._affine_letter(name[len("alignment-"):], nd, img.shape, tpl_shape)
            r = rs(self.seed, "c01align", name, nd)
            T_ = np.array(tpl_shape, dtype=float)
            P = r.rand(7, nd) * (T_ - 1)
            Q = base.apply(P) + 0.6 * (r.rand(7, nd) - 0.5)  # not exactly related: the fit has a residual
            cls = mt.AlignmentAffine if name == "alignment-affine" else mt.AlignmentSimilarity
            self.note("warp:%s" % name)
            return cls(PointCloud(P), PointCloud(Q)), None
        # control points in the source image = all landmark points + the 4 corners of an inner box
        S = np.array(img.shape, dtype=float)
        lms = np.vstack([img.landmarks[g].points for g in img.landmarks])
        if name == "tps":
            tgt = lms
            r = rs(self.seed, "c01tps")
            A = self._affine_letter("affine", nd, img.shape, tpl_shape)
            src = A.pseudoinverse().apply(tgt) + 0.25 * (r.rand(*tgt.shape) - 0.5)
            return mt.ThinPlateSplines(PointCloud(src), PointCloud(tgt)), None
        # piecewise affine: template points on INTEGER pixels of the template, target = source-image points
        r = rs(self.seed, "c01pwa")
        T = np.array(tpl_shape, dtype=float)
        tpl_pts = np.array([[0, 0], [0, T[1] - 1], [T[0] - 1, T[1] - 1], [T[0] - 1, 0], [np.floor(T[0] / 2), np.floor(T[1] / 2)]])
        # target quadrilateral = bounding box of all landmarks widened by 0.7 px (kept inside the image), so that every
        # landmark lies inside the piecewise-affine target domain whatever the payload
        lo = np.maximum(lms.min(axis=0) - 0.7, 0.05)
        hi = np.minimum(lms.max(axis=0) + 0.7, S - 1.05)
        mid = (lo + hi) / 2
        src_pts = np.array([[lo[0], lo[1]], [lo[0] + 0.2, hi[1]], [hi[0], hi[1] - 0.1], [hi[0] - 0.15, lo[1] + 0.1], [mid[0] - 0.3, mid[1] + 0.4]]) + 0.1 * (r.rand(5, 2) - 0.5)
        src_pts = np.clip(src_pts, 0.0, S - 1.0)
        tl = np.array([[0, 1, 4], [1, 2, 4], [2, 3, 4], [3, 0, 4]])
        pwa = mt.PiecewiseAffine(TriMesh(tpl_pts, tl), TriMesh(src_pts, tl))
        return pwa, "domain"

    def _call(self, img, op, rt):
        """run the op on the real image.  Returns (result, T or None, meta)"""
        import menpo.transform as mt
        from menpo.image import BooleanImage
        from menpo.shape import PointCloud

        k = op[0]
        kw = {"return_transform": True} if rt else {}
        meta = {"order": 1, "mask": True, "template_mask": None, "landmarks_inside_only": False}
        # documented boundary mode of each op: the rescale family, zoom and mirror replicate the edge, the others fill with cval=0
        meta["mode"] = "nearest" if k in ("rescale", "rescale_to_diagonal", "rescale_to_pointcloud", "rescale_landmarks_to_diagonal_range", "resize", "zoom", "mirror") else "constant"

        def unpack(res):
            return (res[0], res[1]) if rt else (res, None)

        if k == "crop":
            meta["order"] = 0
            return unpack(img.crop(np.array(op[1]), np.array(op[2]), **kw)) + (meta,)
        if k == "crop_to_landmarks":
            meta["order"] = 0
            return unpack(img.crop_to_landmarks(group=op[1], boundary=op[2], **kw)) + (meta,)
        if k == "crop_to_pointcloud":
            meta["order"] = 0
            pc = PointCloud(img.landmarks[op[1]].points.copy())
            return unpack(img.crop_to_pointcloud(pc, boundary=op[2], **kw)) + (meta,)
        if k == "crop_to_landmarks_proportion":
            meta["order"] = 0
            return unpack(img.crop_to_landmarks_proportion(op[2], group=op[1], minimum=op[3], **kw)) + (meta,)
        if k == "crop_to_pointcloud_proportion":
            meta["order"] = 0
            pc = PointCloud(img.landmarks[op[1]].points.copy())
            return unpack(img.crop_to_pointcloud_proportion(pc, op[2], minimum=op[3], **kw)) + (meta,)
        if k == "crop_to_true_mask":
            meta["order"] = 0
            return unpack(img.crop_to_true_mask(boundary=op[1], **kw)) + (meta,)
        if k == "rescale":
            meta["order"] = op[3]
            sc = op[1] if not isinstance(op[1], (tuple, list)) else list(op[1])
            return unpack(img.rescale(sc, round=op[2], order=op[3], **kw)) + (meta,)
        if k == "rescale_to_diagonal":
            return unpack(img.rescale_to_diagonal(op[1], round=op[2], **kw)) + (meta,)
        if k == "rescale_to_pointcloud":
            pc = PointCloud(img.landmarks[op[1]].points * op[2] + 3.0)
            return unpack(img.rescale_to_pointcloud(pc, group=op[1], **kw)) + (meta,)
        if k == "rescale_landmarks_to_diagonal_range":
            return unpack(img.rescale_landmarks_to_diagonal_range(op[2], group=op[1], **kw)) + (meta,)
        if k == "resize":
            return unpack(img.resize(tuple(op[1]), **kw)) + (meta,)
        if k == "zoom":
            return unpack(img.zoom(op[1], **kw)) + (meta,)
        if k == "rotate":
            th = float(op[1]) if op[2] == "deg" else float(np.deg2rad(op[1]))
            meta["order"] = op[4]
            extra = {"round": op[5]} if len(op) > 5 else {}
            return unpack(img.rotate_ccw_about_centre(th, degrees=op[2] == "deg", retain_shape=op[3], order=op[4], **extra, **kw)) + (meta,)
        if k == "mirror":
            meta["order"] = op[2]
            return unpack(img.mirror(axis=op[1], order=op[2], **kw)) + (meta,)
        if k == "tac":
            t = {
                "shear": lambda: mt.Affine.init_from_2d_shear(12, -8),
                "nus": lambda: mt.NonUniformScale([1.4, 0.8]),
                "rot": lambda: mt.Rotation.init_from_2d_ccw_angle(-20),
                "shift-frac": lambda: mt.Translation(np.array([-0.6, -0.7])),
                "sim": lambda: mt.Similarity(np.array([[0.9 * np.cos(0.3), -0.9 * np.sin(0.3), 0], [0.9 * np.sin(0.3), 0.9 * np.cos(0.3), 0], [0, 0, 1.0]])),
            }[op[1]]()
            return unpack(img.transform_about_centre(t, retain_shape=op[2], **kw)) + (meta,)
        if k == "warp_window":
            tpl = tuple(int(s) - 3 for s in img.shape)
            okw = {} if isinstance(img, BooleanImage) else {"order": op[2]}
            meta["order"] = op[2]
            return unpack(img.warp_to_shape(tpl, mt.Translation(np.array(op[1])), warp_landmarks=True, **okw, **kw)) + (meta,)
        if k == "warp_to_shape":
            nd = img.n_dims
            tpl = tuple(int(s) + (1 if i == 0 else -1) for i, s in enumerate(img.shape))
            t, _ = self._warp_letter(img, op[1], tpl)
            meta["order"] = op[2]
            okw = {} if isinstance(img, BooleanImage) else {"order": op[2]}
            return unpack(img.warp_to_shape(tpl, t, warp_landmarks=True, **okw, **kw)) + (meta,)
        if k == "warp_to_mask":
            tpl = tuple(int(s) + (0 if i == 0 else 1) for i, s in enumerate(img.shape))
            refused = op[1] == "pwa-refused"
            t, dom = self._warp_letter(img, "pwa" if refused else op[1], tpl)
            m = np.ones(tpl, dtype=bool)
            m[0, :] = False
            m[:, -1] = False
            m[2, 1] = False
            tm = BooleanImage(m)
            if dom == "domain":
                # a PWA is only defined inside its source triangulation: constrain the template mask to it
                tm = BooleanImage(np.ones(tpl, dtype=bool))
                tm.pixels[0, 2, 1] = False
            meta["order"] = op[2]
            meta["template_mask"] = tm.mask.copy() if hasattr(tm, "mask") else tm.pixels[0].copy()
            meta["landmarks_inside_only"] = dom == "domain"
            okw = {} if isinstance(img, BooleanImage) else {"order": op[2]}
            if refused:
                self._refused_protocol(img, t, tm, tpl, okw)
            return unpack(img.warp_to_mask(tm, t, warp_landmarks=True, **okw, **kw)) + (meta,)
        raise ValueError(op)

    def _refused_protocol(self, img, t, tm, tpl, okw):
        """valid warp, then twice the same request whose template leaves the domain of `t` (one row below the template
        triangulation; as many true pixels as the valid mask).  Deviations are kept in self._side_fails."""
        from menpo.image import BooleanImage
        from menpo.transform.piecewiseaffine.base import TriangleContainmentError

        img.warp_to_mask(tm, t, warp_landmarks=True, **okw)
        bad = np.ones((tpl[0] + 1, tpl[1]), dtype=bool)
        bad[0, :] = False
        bad[1, 1] = False
        bad = BooleanImage(bad)
        assert bad.n_true() == tm.n_true()
        for attempt in ("first", "repeated"):
            try:
                got = img.warp_to_mask(bad, t, warp_landmarks=True, **okw)
            except TriangleContainmentError:
                self.note("refused:%s" % attempt)
                continue
            except Exception as e:  # noqa
                self._side_fails.append(Failure("warp_to_mask-pwa-refused", "refusal-kind-changed", "the %s request outside the domain raised %s: %s instead of TriangleContainmentError" % (attempt, type(e).__name__, str(e)[:120])))
                continue
            self._side_fails.append(Failure("warp_to_mask-pwa-refused", "refusal-lost", "the %s request for a template leaving the warp's domain returned a %s of shape %r instead of being refused" % (attempt, type(got).__name__, got.shape)))

    # ------------------------------------------------------------------ transitions
    def apply(self, st, op, verify=True):
        if op[0] in ("pyramid", "gaussian_pyramid"):
            return self._apply_pyramid(st, op, verify)
        img = st["img"]
        before = observe(img) if verify else None
        self._side_fails = []
        res, T, meta = self._call(img, op, True)
        where = op[0] + ("-" + str(op[1]) if op[0] in ("warp_to_shape", "warp_to_mask", "tac") else "")
        cls = type(img).__name__
        fails = []
        self.note("%s:%s" % (op[0], cls))
        if verify:
            d = obs_diff(before, observe(img))
            if d:
                fails.append(Failure(where, "input-mutated", "%s: %s" % (cls, d)))
            fails += self._side_fails
            fails += self._oracle(img, res, T, meta, where, op, ramp_source=st["level"] == 0)
            if not fails:
                res2, _, _ = self._call(img, op, False)
                d = obs_diff(observe(res), observe(res2))
                if d:
                    fails.append(Failure(where, "return_transform-changes-result", d))
        if fails:
            return fails
        st["img"] = res
        st["level"] += 1
        return fails

    def _oracle(self, img, res, T, meta, where, op, ramp_source=True):
        from menpo.image import BooleanImage, MaskedImage

        fails = []
        cls = type(img).__name__
        nd = img.n_dims
        is_wtm = op[0] == "warp_to_mask"
        # (e) class / channels / dtype
        if not is_wtm and type(res) is not type(img):
            fails.append(Failure(where, "class", "%s -> %s" % (cls, type(res).__name__)))
            return fails
        if res.n_channels != img.n_channels:
            fails.append(Failure(where, "channels", "%d -> %d" % (img.n_channels, res.n_channels)))
            return fails
        # (the pixel dtype of the result is not part of the statement: warp_to_mask returns float64 for float32 input)
        if res.pixels.dtype != img.pixels.dtype:
            self.note("dtype-changed:%s" % op[0])
        if res.n_dims != nd or min(res.shape) < 1:
            fails.append(Failure(where, "shape", repr(res.shape)))
            return fails
        # result pixel grid and its image under T
        P = np.indices(res.shape).reshape(nd, -1).T.astype(float)
        try:
            TP = np.asarray(T.apply(P))
        except Exception as e:  # PWA: points of the grid outside the domain
            TP = None
        tm = meta["template_mask"]
        if TP is None:
            # evaluate T only where the template mask says pixels were sampled
            sel = tm.reshape(-1)
            TP = np.full(P.shape, -1e9)
            if sel.any():
                ok = self._safe_apply(T, P[sel])
                TP[np.nonzero(sel)[0][ok[1]]] = ok[0]
        src_px = img.pixels
        order = 0 if isinstance(img, BooleanImage) else meta["order"]
        if order == 0:
            exp, valid = ref_nearest(src_px, TP)
        else:
            exp, valid = ref_linear(src_px, TP)
        got = res.pixels.reshape(res.n_channels, -1)
        consider = valid.copy()
        if tm is not None:
            consider &= tm.reshape(-1)
        if isinstance(res, MaskedImage) and not is_wtm:
            consider &= res.mask.pixels.reshape(-1)
        self.note("pixels-compared", int(consider.sum()))
        # tolerances are relative to the magnitude of the SOURCE pixels (images of values ~1e-10 or ~1e7 are legal)
        mag = float(np.abs(src_px.astype(float)).max()) if src_px.dtype.kind == "f" and src_px.size else 1.0
        mag = mag if mag > 0 else 1.0
        if consider.any():
            g = got[:, consider].astype(float)
            e = exp[:, consider].astype(float)
            if src_px.dtype == np.uint8:
                tol = 1.0 + 1e-9
            elif src_px.dtype == np.float32:
                tol = 2e-4 * mag
            elif src_px.dtype == bool:
                tol = 0
            else:
                tol = 1e-9 * mag
            err = np.abs(g - e)
            if err.max() > tol:
                j = int(np.argmax(err.max(axis=0)))
                pj = P[consider][j]
                fails.append(Failure(where, "pixels-vs-transform", "%s %r: result pixel %s maps to source %s; expected %s got %s (max err %.3g over %d pixels)" % (cls, op, pj.tolist(), TP[consider][j].tolist(), e[:, j], g[:, j], err.max(), int(consider.sum()))))
        elif op[0] not in ("crop_to_landmarks", "crop_to_pointcloud"):
            self.note("no-comparable-pixel")
        # (a') result pixels that map outside the source frame follow the op's boundary mode: fill value 0 / False
        #      ('constant', compared when more than one pixel outside) or the replicated edge ('nearest')
        S_src = np.array(img.shape)
        outside = ~np.all((TP >= 0) & (TP <= S_src - 1), axis=1) & np.all(np.abs(TP) < 1e8, axis=1)
        far = outside & np.any((TP < -1.0) | (TP > S_src), axis=1)
        mode = meta.get("mode", "constant")
        sel_px = (far if mode == "constant" else outside).copy()
        if tm is not None:
            sel_px &= tm.reshape(-1)
        if isinstance(res, MaskedImage) and not is_wtm:
            sel_px &= res.mask.pixels.reshape(-1)
        if sel_px.any():
            self.note("outside-pixels-compared", int(sel_px.sum()))
            if mode == "constant":
                bad = np.any(got[:, sel_px] != 0, axis=0)
                if bad.any():
                    j = int(np.nonzero(bad)[0][0])
                    fails.append(Failure(where, "outside-not-fill-value", "%s %r: result pixel %s maps to %s outside the source but holds %s" % (cls, op, P[sel_px][j].tolist(), TP[sel_px][j].tolist(), got[:, sel_px][:, j])))
            else:
                clipped = np.clip(TP[sel_px], 0, S_src - 1)
                e2, v2 = (ref_nearest if order == 0 else ref_linear)(src_px, clipped)
                if v2.any():
                    g2 = got[:, sel_px][:, v2].astype(float)
                    tol2 = 1.0 + 1e-9 if src_px.dtype == np.uint8 else (0 if src_px.dtype == bool else (2e-4 if src_px.dtype == np.float32 else 1e-9) * mag)
                    if np.abs(g2 - e2[:, v2].astype(float)).max() > tol2:
                        fails.append(Failure(where, "outside-not-edge-replicated", "%s %r: pixels mapping outside the source are not the replicated edge (max err %.3g)" % (cls, op, np.abs(g2 - e2[:, v2].astype(float)).max())))
        # (d) mask carried by the same mapping
        if isinstance(img, MaskedImage) and not is_wtm:
            gm_all = res.mask.pixels.reshape(-1)
            if mode == "constant" and far.any():
                self.note("outside-mask-compared", int(far.sum()))
                if gm_all[far].any():
                    j = int(np.nonzero(gm_all[far])[0][0])
                    fails.append(Failure(where, "mask-true-outside-source", "%r: result pixel %s maps to %s outside the source frame but is masked True" % (op, P[far][j].tolist(), TP[far][j].tolist())))
            elif mode == "nearest" and outside.any():
                em, vm = ref_nearest(img.mask.pixels, np.clip(TP[outside], 0, S_src - 1))
                if vm.any() and np.any(gm_all[outside][vm] != em[0][vm]):
                    fails.append(Failure(where, "mask-outside-not-edge-replicated", "%r" % (op,)))
        if isinstance(img, MaskedImage) and not is_wtm:
            m_src = img.mask.pixels
            expm, validm = ref_nearest(m_src, TP)
            gm = res.mask.pixels.reshape(-1)
            if validm.any() and np.any(gm[validm] != expm[0][validm]):
                j = int(np.nonzero(gm[validm] != expm[0][validm])[0][0])
                fails.append(Failure(where, "mask-not-carried", "%r: result mask at %s is %s but source mask at %s is %s" % (op, P[validm][j].tolist(), gm[validm][j], TP[validm][j].tolist(), expm[0][validm][j])))
            self.note("mask-compared", int(validm.sum()))
        # (b) landmarks
        if not res.has_landmarks or list(res.landmarks.keys()) != list(img.landmarks.keys()):
            fails.append(Failure(where, "landmarks-lost", "%s: groups %s -> %s" % (cls, list(img.landmarks.keys()), list(res.landmarks.keys()) if res.has_landmarks else None)))
            return fails
        for g in img.landmarks:
            a, b = img.landmarks[g], res.landmarks[g]
            if type(a) is not type(b) or a.n_points != b.n_points:
                fails.append(Failure(where, "landmark-class", "%s: %s -> %s" % (g, type(a).__name__, type(b).__name__)))
                continue
            oa, ob = observe(a), observe(b)
            for key in ("edges", "labels", "masks"):
                if key in oa and obs_diff(oa[key], ob.get(key)):
                    fails.append(Failure(where, "landmark-structure", "%s.%s changed" % (g, key)))
            back, okm = self._safe_apply(T, b.points)
            scale = max(1.0, np.abs(a.points).max())
            tol = 1e-8 * scale
            if meta["landmarks_inside_only"]:
                cmp = okm
            else:
                cmp = np.ones(a.n_points, dtype=bool)
                if not okm.all():
                    fails.append(Failure(where, "landmarks-vs-transform", "%s: transform cannot map the returned landmarks back" % g))
                    continue
            if cmp.any():
                full = np.full(a.points.shape, np.nan)
                full[okm] = back
                err = np.abs(full[cmp] - a.points[cmp]).max()
                self.note("landmarks-compared", int(cmp.sum()))
                if not err <= tol:
                    fails.append(Failure(where, "landmarks-vs-transform", "%s %r group %s: T(result landmarks) differs from the source landmarks by %.3g" % (cls, op, g, err)))
                    continue
            # (c) sampling at the landmark (support-valid landmarks only)
            # (bilinear resampling commutes with the map only where the source content is affine: the ramp roots)
            if isinstance(img, BooleanImage) or meta["order"] == 0 or not ramp_source:
                continue
            lp = b.points
            Sres = np.array(res.shape)
            inside = np.all((lp >= 0) & (lp <= Sres - 1), axis=1) & cmp
            if not inside.any():
                continue
            # the 2^nd support of the landmark in the result must map inside the source and (masks) be sampled
            sup_ok = inside.copy()
            for corner in itertools.product((0, 1), repeat=nd):
                q = np.minimum(np.floor(lp).astype(int) + np.array(corner), Sres - 1)
                q = np.clip(q, 0, Sres - 1)
                flat = np.ravel_multi_index(tuple(q[:, k] for k in range(nd)), res.shape)
                sup_ok &= valid[flat]
                if tm is not None:
                    sup_ok &= tm.reshape(-1)[flat]
            if not sup_ok.any():
                continue
            s_res = res.sample(lp[sup_ok])
            s_src = img.sample(a.points[sup_ok])
            tols = 1.0 + 1e-9 if src_px.dtype == np.uint8 else (5e-4 if src_px.dtype == np.float32 else 1e-8) * mag
            self.note("samples-compared", int(sup_ok.sum()))
            if affine_like(T) and np.abs(np.asarray(s_res, dtype=float) - np.asarray(s_src, dtype=float)).max() > tols:
                fails.append(Failure(where, "sample-at-landmark", "%s %r group %s: result sampled at the returned landmarks differs from the source sampled at the original landmarks by %.3g" % (cls, op, g, np.abs(np.asarray(s_res, dtype=float) - np.asarray(s_src, dtype=float)).max())))
        return fails

    @staticmethod
    def _safe_apply(T, pts):
        """apply T; for domain-limited warps return (values of the points inside, boolean mask of those points)"""
        try:
            return np.asarray(T.apply(pts.copy())), np.ones(len(pts), dtype=bool)
        except Exception as e:
            out_mask = getattr(e, "points_outside_source_domain", None)
            if out_mask is None:
                raise
            ok = ~np.asarray(out_mask, dtype=bool)
            return (np.asarray(T.apply(pts[ok].copy())) if ok.any() else np.zeros((0, pts.shape[1]))), ok

    # ---- pyramids (no transform returned)
    def _apply_pyramid(self, st, op, verify):
        from menpo.feature import gaussian_filter

        img = st["img"]
        before = observe(img) if verify else None
        kind, n_levels, down = op
        levels = list(getattr(img, kind)(n_levels=n_levels, downscale=down))
        self.note("%s:levels" % kind, len(levels))
        fails = []
        if not verify:
            return fails
        d = obs_diff(before, observe(img))
        if d:
            fails.append(Failure(kind, "input-mutated", d))
        if len(levels) != n_levels:
            return [Failure(kind, "levels", "expected %d got %d" % (n_levels, len(levels)))]
        d = obs_diff(before, observe(levels[0]))
        if d:
            fails.append(Failure(kind, "first-level-is-not-the-image", d))
        for k in range(1, n_levels):
            prev, cur = levels[k - 1], levels[k]
            if type(cur) is not type(img):
                fails.append(Failure(kind, "class", type(cur).__name__))
                break
            base = prev if kind == "pyramid" else gaussian_filter(prev, down / 3.0)
            ref, T = base.rescale(1.0 / down, return_transform=True)
            d = obs_diff(observe(ref), observe(cur), atol=1e-12)
            if d:
                fails.append(Failure(kind, "level-vs-rescale", "level %d: %s" % (k + 1, d)))
                break
            # landmarks / pixels / samples of the level against the image it was rescaled from, through the level's transform
            meta = {"order": 1, "mask": True, "template_mask": None, "landmarks_inside_only": False, "mode": "nearest"}
            fails += self._oracle(base, cur, T, meta, kind, (kind, "level", k + 1), ramp_source=(kind == "pyramid" and k == 1))
            for g in prev.landmarks:
                if np.abs(base.landmarks[g].points - prev.landmarks[g].points).max() > 0:
                    fails.append(Failure(kind, "landmarks-vs-scale", "level %d group %s: smoothing moved the landmarks" % (k + 1, g)))
        return fails

    # ------------------------------------------------------------------ reporting
    def vacuity(self, notes, stats):
        need = ["pixels-compared", "outside-pixels-compared", "outside-mask-compared", "mask-compared", "landmarks-compared", "samples-compared", "pyramid:levels", "gaussian_pyramid:levels", "warp_to_mask:BooleanImage", "warp_to_shape:MaskedImage", "rotate:BooleanImage", "crop_to_true_mask:MaskedImage", "rescale:Image", "reuse:tps-reused", "reuse:pwa-reused", "refused:first", "refused:repeated", "warp:alignment-affine", "warp:alignment-similarity"]
        return ["outcome %s never produced" % n for n in need if not notes.get(n)]

    def rule(self):
        return (
            "every image kind (11 letters: 3 classes, 2-D 7x9 and 3-D 4x5x6, 1-4 channels, float64/float32/uint8/bool, all-true and "
            "sparse masks) x every geometry-op letter; the result becomes the next state (thorough: a second op from the reduced alphabet); "
            "each step is checked pixel-by-pixel against an independent multilinear / nearest reference driven by the returned transform"
        )

    def alphabet_sizes(self):
        from types import SimpleNamespace

        return {"image_kinds": len(KINDS), "pyramid_roots": 2}

    def assumptions(self):
        return [
            "continuous parameters (scales, angles, bounds, warps) are decided on the letter set only",
            "pixels whose interpolation support under the returned transform leaves the source are not compared (boundary mode is not part of the statement); order-0 comparisons skip points within 0.05 of a rounding tie",
            "TPS letters are fitted so that every landmark is a control point (a TPS pseudoinverse is an exact inverse only there); PWA letters are driven through warp_to_mask inside the source triangulation",
            "sampling-at-landmark equality is compared for transforms that are affine (bilinear interpolation commutes with affine maps only)",
            "only the scipy interpolation path exists in this image (no OpenCV)",
            "uint8 images are compared with a tolerance of one grey level, float32 with 2e-4 relative",
        ]


def affine_like(T):
    from menpo.transform import Homogeneous

    return isinstance(T, Homogeneous) and np.abs(T.h_matrix[-1, :-1]).max() == 0


CHECK = C01
