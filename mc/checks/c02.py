"""C02 - transforming a shape moves points and landmarks as one and mutates nothing.

Space   : roots = shape letters (8 classes x {2-D, 3-D} x {0, 1, 2} landmark groups of cycling classes, plus
          the variants below); ops = one generic instance of every transform class, each applied without and
          with batch_size=2 (does not divide 5).  Depth 2 (thorough) applies a second letter to the result.
          Root variants (one per branch visible in Shape / Landmarkable / LandmarkManager / AbstractPWA):
            plain    the shared letter; 2-D letters are rescaled into the piecewise-affine source domain
            touched  no group, but the (empty) landmark manager has been instantiated
            nested   the single landmark group carries a landmark group of its own
            out      2-D, last point of the shape outside the piecewise-affine domain (groups inside)
            lm-out   2-D, first point of the first landmark group outside the domain (shape inside)
Oracle  : r = t.apply(shape) is a new object of the same class; observe(r) equals observe(shape) with every
          point array (own, every group, nested groups) replaced by t.apply(<that bare array>) - bitwise,
          the same arithmetic - so connectivity, trilist, labels + masks, colours, tcoords, texture, root,
          group names / order / classes are carried over exactly; every such array also agrees with an
          independent numpy model of the map (matrix product, index slice, thin-plate-spline solve,
          barycentric map); observe(shape) (landmarks included) and observe(transform) are exactly what
          they were, also after t.apply(shape.points) on the shape's own array; writing into every buffer
          of the result leaves observe(shape) unchanged.  A point outside the piecewise-affine domain
          (decided by the model, margin 1e-9) must give TriangleContainmentError and leave everything intact.

Routes  : besides t.apply(shape[, batch_size]) every other public route of the anchored files that transforms a
          shape is a letter with the same oracle plus exact agreement with t.apply(shape) of an untouched twin:
            inplace    t.apply_inplace(c) on c = shape.copy() (deprecated public spelling of _apply_inplace)
            with_dims  shape.with_dims(dims), the shape-side convenience for WithDims(dims).apply(shape)
            manager    t.apply(shape.landmarks): the landmark manager is itself Transformable
          (TexturedTriMesh.tcoords_pixel_scaled applies a transform to the texture coordinates, not to the shape.)

Order   : the map is pointwise.  (i) after every successful call, for every coordinate array a and the three
          permutations reversed / rotated by one / fixed shuffle: t.apply(a[perm]) == t.apply(a)[perm] row for row
          (exact without batch_size; with batch_size the batch boundaries move with the permutation and BLAS
          sees other operand shapes: 1e-12 relative); (ii) a landmark group whose rows are a permutation of the
          shape's rows is, after the call, the same permutation of the result's rows (exact / 1e-12 likewise).
          "order" roots: every shape class x dims with its points in each of the three orders and two landmark
          groups holding the same points in the two other orders.
          "special" roots (transform letter, kind, first | last): the first / last point of the shape is special
          for the one transform letter the root is crossed with - origin; w1: homogeneous coordinate exactly 1
          under a projective bottom row while the other points have w != 1; fixed: a fixed point of the map;
          pwa-vertex / pwa-corner / pwa-edge: an interior vertex, a domain corner, the midpoint of an interior
          edge of the source triangulation; tps-control: a control point (kernel singularity r = 0).  The same
          points sit in two landmark groups in reversed and rotated order.

Scale   : every tolerance is relative to the magnitude of the data at hand (max |input|, |output| of the array,
          times the conditioning of the map there); no absolute epsilon anywhere.
          "scale" roots: 3 shape classes x dims with the payload re-expressed at another legal magnitude -
          coordinates x 1e-6, x 1e-9, x 1e6, and + a common offset of ~1e6 (offset / spread ~ 1e6) - crossed with
          every transform letter re-expressed likewise (conjugated by the scaling / translation, rebuilt through
          the public constructors from the scaled parameters; alignments are re-fitted to scaled source / target).
          Besides the normal oracle (model computed from the scaled transform's own parameters) the
          scale-equivariance clause: T_s(s x) == s T(x), T_c(x + c) == T(x) + c, relative 1e-9.
          "near" roots: two landmark groups whose points differ from the shape's by 1e-6 / 1e-7 relative;
          letters Affine-near-identity / Homogeneous-near-identity (identity + 1e-7 generic); sessions get two
          landmark-free arguments C and Cn = C (1 + 1e-9) (results compared exactly with a never-used twin).
          "large" roots: 200 points (PointCloud, TriMesh) with a 200-point landmark group; batch_size none / 64.

Second machine (roots ("session", transform letter, dims, argument set)) - refused calls on ONE live transform:
State   : one live transform t and live argument shapes A, B (valid), W (other dimensionality), and for the
          piecewise-affine letters O (a point outside the domain), LO (a landmark outside); the model state
          is the last call made on t (what a hidden memo could remember).  No observation ever calls t.
Ops     : ("v", arg, batch) a valid t.apply(arg); ("r", kind, arg, batch) a call the unchanged tree refuses:
          kind out / lm-out (TriangleContainmentError), wrong-dims (ValueError documented for thin plate
          splines, any exception elsewhere), bad-batch (batch_size=0), inplace-array (apply_inplace of a bare
          array, documented ValueError).  Depth 2 = every ordered pair.
Oracle  : refused call: (a) raises (documented type where there is one); (b) observe of every argument and the
          probe-free observation of t are what they were; (c) the immediate retry is refused in the same way
          (same type, same out-of-domain mask); (d) every valid call, whatever came before on this very object,
          returns exactly what an identically built transform that never saw anything returns, and agrees
          with the numpy model.
"""
import collections
import math

import numpy as np

from mc import letters as L
from mc.core import Check, Failure, HarnessError
from mc.observe import PROBE2, PROBE3, buffers, flip, obs_diff, obs_key, observe, unflip

REF_TOL = 1e-9  # relative to (1 + max |expected|) * conditioning of the map at these points
PWA_EPS = 1e-9  # barycentric slack below which a point is 'on the border' (either outcome accepted)
OUTSIDE = np.array([7.1, 6.3])  # well outside every pwa_layout square (corners <= 5.7)
VARIANTS = ("plain", "touched", "nested", "out", "lm-out", "order", "special")
SCALES = collections.OrderedDict([("x1e-6", ("mul", 1e-6)), ("x1e-9", ("mul", 1e-9)), ("x1e6", ("mul", 1e6)), ("offset1e6", ("add", (1.0e6, -2.0e6, 0.5e6)))])
SCALE_CLASSES = ("PointCloud", "TexturedTriMesh", "LabelledPointUndirectedGraph")
LARGE_N = 200
LARGE_BATCH = 64  # does not divide LARGE_N
# letters left out at a scale, with the reason (see assumptions())
SCALE_EXCLUDED = {}
for _n in ("ThinPlateSplines", "TPS-R2LogRRBF", "Chain-TPS"):
    for _s in ("x1e-6", "x1e-9", "x1e6"):
        SCALE_EXCLUDED[(_n, _s)] = "documented absolute threshold min_singular_val=1e-4: singular values of the spline system scale with the coordinates (x s^2 and x 1/s^2) and are truncated, the spline no longer interpolates"
    SCALE_EXCLUDED[(_n, "offset1e6")] = "control points with offset / spread ~1e6 make the spline system ill-conditioned (affine block columns of 1e6 next to kernel entries of 1e1; observed error 1e-9 relative): not a well-conditioned configuration"
for _n in ("AlignmentRotation", "AlignmentUniformScale"):
    SCALE_EXCLUDED[(_n, "offset1e6")] = "a rotation / scaling about the origin fitted to translated point sets is another map: the class is not translation-equivariant by definition"
SCALE_EXCLUDED[("AlignmentAffine", "offset1e6")] = "re-fitting to source / target with offset / spread ~1e6 is ill-conditioned (normal equations, cond ~1e24): not a well-conditioned configuration (reported)"


def mag(*arrays):
    """magnitude of the data at hand: tolerances are relative to it (never an absolute epsilon)."""
    return max([float(np.abs(np.asarray(a, dtype=float)).max()) for a in arrays if np.size(a)] + [0.0])


def rescale_points(skey, p):
    kind, val = SCALES[skey]
    p = np.asarray(p, dtype=float)
    return p * val if kind == "mul" else p + np.asarray(val)[: p.shape[1]]


ORDER_TOL = 1e-12  # permutation equivariance under batch_size (relative to (1 + max |y|) * conditioning)


def perms(n):
    """the three fixed re-orderings of n rows: reversed, rotated by one, a fixed shuffle."""
    idx = np.arange(n)
    return collections.OrderedDict([("rev", idx[::-1].copy()), ("rot1", np.roll(idx, -1)), ("shuffle", (2 + 3 * idx) % n if n % 3 else (1 + 2 * idx) % n if n % 2 else idx[::-1].copy())])



# =================================================================================================
# reference model of the maps: plain numpy on the public parameters of a twin of the transform
# =================================================================================================
class RefOutside(Exception):
    pass


class RefBorder(Exception):
    """a point is on an edge / vertex of the triangulation: refusing is acceptable, a value must be this one."""

    def __init__(self, y):
        Exception.__init__(self)
        self.y = y


def ref_map(t, x):
    """(expected image of x, conditioning factor).  Raises RefOutside / RefBorder for piecewise affine."""
    from menpo.transform import Homogeneous, ThinPlateSplines, TransformChain, WithDims
    from menpo.transform.piecewiseaffine.base import AbstractPWA

    x = np.array(x, dtype=float)
    if isinstance(t, TransformChain):
        cond = 1.0
        for m in t.transforms:
            x, c = ref_map(m, x)
            cond *= c
        return x, cond
    if isinstance(t, Homogeneous):
        h = np.array(t.h_matrix, dtype=float)
        d = h.shape[1] - 1
        y = np.empty((x.shape[0], h.shape[0] - 1))
        cond = 1.0
        for i in range(x.shape[0]):
            hy = [sum(h[r, c] * x[i, c] for c in range(d)) + h[r, d] for r in range(h.shape[0])]
            w = hy[-1]
            # cancellation in the projective denominator amplifies rounding by (sum of |terms|) / |w|
            cond = max(cond, (sum(abs(h[-1, c] * x[i, c]) for c in range(d)) + abs(h[-1, d])) / abs(w))
            y[i] = [v / w for v in hy[:-1]]
        return y, cond
    if isinstance(t, WithDims):
        return x[:, t.dims].reshape(x.shape[0], -1), 1.0
    if isinstance(t, ThinPlateSplines):
        src = np.array(t.source.points)
        tgt = np.array(t.target.points)
        halve = type(t.kernel).__name__ == "R2LogRRBF"

        def u(r):
            with np.errstate(divide="ignore", invalid="ignore"):
                v = r * r * np.log(r * r)
            v[r == 0] = 0.0
            return v * (0.5 if halve else 1.0)

        n = src.shape[0]
        k = u(np.sqrt(((src[:, None, :] - src[None, :, :]) ** 2).sum(-1)))
        p = np.hstack([np.ones((n, 1)), src])
        big = np.zeros((n + 3, n + 3))
        big[:n, :n] = k
        big[:n, n:] = p
        big[n:, :n] = p.T
        rhs = np.vstack([tgt, np.zeros((3, 2))])
        w = np.linalg.solve(big, rhs)
        kx = u(np.sqrt(((x[:, None, :] - src[None, :, :]) ** 2).sum(-1)))
        y = kx.dot(w[:n]) + np.hstack([np.ones((x.shape[0], 1)), x]).dot(w[n:])
        # cancellation between the kernel terms amplifies rounding by (sum of |terms|) / |result|
        cond = max(1.0, (np.abs(kx).dot(np.abs(w[:n])) + np.abs(np.hstack([np.ones((x.shape[0], 1)), x])).dot(np.abs(w[n:]))).max() / (1.0 + np.abs(y).max()))
        return y, cond
    if isinstance(t, AbstractPWA):
        src = np.array(t.source.points)
        tgt = np.array(t.target.points)
        tl = np.array(t.trilist)
        y = np.empty_like(x)
        worst = np.inf
        for i in range(x.shape[0]):
            best = None
            for tri in tl:
                a, b, c = src[tri]
                al, be = np.linalg.solve(np.array([b - a, c - a]).T, x[i] - a)
                slack = min(al, be, 1.0 - al - be)
                if best is None or slack > best[0]:
                    a2, b2, c2 = tgt[tri]
                    best = (slack, a2 + al * (b2 - a2) + be * (c2 - a2))
            worst = min(worst, best[0])
            y[i] = best[1]
        if worst < -PWA_EPS:
            raise RefOutside()
        if worst < PWA_EPS:
            raise RefBorder(y)
        return y, 1.0
    raise HarnessError("no reference map for %s" % type(t).__name__)


# =================================================================================================
# letters
# =================================================================================================
def into_domain(p):
    """generic points of [0.5, 5.5]^2 -> [1.2, 4.8]^2, strictly inside every pwa_layout / pwa_domain_points square."""
    return 1.2 + (np.asarray(p) - 0.5) * (3.6 / 5.0)


def place(obj, f):
    """replace every coordinate array (own, groups, nested groups) by f(array) - plain numpy, before any use."""
    obj.points = np.array(f(obj.points), dtype=float, order="C")
    if obj.has_landmarks:
        for g in obj.landmarks.keys():
            place(obj.landmarks[g], f)


def make_shape(root, seed):
    cls, d, k, variant = root[0], int(root[1]), int(root[2]), root[3]
    obj = L.shape((cls, d, k), seed)
    if variant in ("order", "special"):
        from menpo.shape import PointCloud, PointUndirectedGraph

        pts = into_domain(obj.points) if d == 2 else obj.points.copy()
        pm = perms(pts.shape[0])
        if variant == "special":
            kind, pos, tname = root[4], root[5], root[6]
            pts[0 if pos == "first" else -1] = special_point(make_transform((tname, d), seed), kind, d)[0]
            own, others = np.arange(pts.shape[0]), ["rev", "rot1"]
        else:
            own, others = pm[root[4]], [n for n in pm if n != root[4]]
        obj.points = np.array(pts[own], order="C")
        obj.landmarks["same." + others[0]] = PointCloud(pts[pm[others[0]]])
        obj.landmarks["same." + others[1]] = PointUndirectedGraph.init_from_edges(pts[pm[others[1]]], L.EDGES5)
        return obj
    if variant == "nested":
        g0 = list(obj.landmarks.keys())[0]
        obj.landmarks[g0].landmarks["inner"] = L.bare_shape("PointUndirectedGraph", d, seed, ("nested", cls))
    if variant == "touched":
        obj.landmarks  # instantiates the empty manager: `_landmarks is not None and n_groups == 0`
    if d == 2:
        place(obj, into_domain)
    if variant == "near":
        from menpo.shape import PointCloud, PointUndirectedGraph

        obj.landmarks["near.1e-6"] = PointCloud(obj.points * (1.0 + 1e-6))
        obj.landmarks["near.1e-7"] = PointUndirectedGraph.init_from_edges(obj.points * (1.0 - 1e-7), L.EDGES5)
    if variant == "large":
        from menpo.shape import PointCloud

        r = L.rs(seed, "large", cls, d)
        lo, hi = (1.2, 4.8) if d == 2 else (0.5, 5.5)
        obj.points = lo + (hi - lo) * r.rand(LARGE_N, d)  # TRILIST5 / EDGES5 keep addressing the first five
        obj.landmarks["large"] = PointCloud(lo + (hi - lo) * r.rand(LARGE_N, d))
    if variant == "scale":
        place(obj, lambda p: rescale_points(root[4], p))
    if variant in ("int", "f32"):
        def cast(a):
            return np.round(a).astype(np.int64) if variant == "int" else a.astype(np.float32)

        obj.points = cast(obj.points)
        for g in obj.landmarks:
            obj.landmarks[g].points = cast(obj.landmarks[g].points)
    if variant == "out":
        p = obj.points.copy()
        p[-1] = OUTSIDE
        obj.points = p
    if variant == "lm-out":
        g0 = list(obj.landmarks.keys())[0]
        p = obj.landmarks[g0].points.copy()
        p[0] = OUTSIDE
        obj.landmarks[g0].points = p
    return obj


# boundary letters of the homogeneous family: an AFFINE bottom row (0,...,0,w) with w != 1 (the same map as the matrix
# divided by w; also negative w), the identity, and a matrix scaled by a tiny / huge factor
# ... and a projective bottom row of small dyadic numbers: some points have homogeneous coordinate exactly 1, others not
BOUNDARY = ["Homogeneous-affine-w2", "Homogeneous-affine-wneg", "Homogeneous-affine-whalf", "Homogeneous-scaled-1e-3", "Homogeneous-dyadic-row", "Affine-near-identity", "Homogeneous-near-identity", "Identity-Affine", "Translation-zero", "UniformScale-one"]
DYADIC_ROW = [0.0625, -0.03125, 0.015625]
PROJECTIVE = ("Homogeneous", "Homogeneous-scaled-1e-3", "Homogeneous-dyadic-row")
TPS_LETTERS = ("ThinPlateSplines", "TPS-R2LogRRBF", "Chain-TPS")


def special_kinds(name):
    """which points are special for a transform letter (static)."""
    if is_pwa_letter(name):
        return ["pwa-vertex", "pwa-corner", "pwa-edge"]  # (the origin is outside the domain: a refusal, explored elsewhere)
    if name in TPS_LETTERS:
        return ["origin", "tps-control"]
    if name.startswith("WithDims") or name == "TransformChain":
        return ["origin"]
    kinds = ["origin"]
    if "Translation" not in name:
        kinds.append("fixed")
    if name in PROJECTIVE:
        kinds.append("w1")
    return kinds


def model_w(h, p):
    d = h.shape[1] - 1
    return sum(h[-1, c] * p[c] for c in range(d)) + h[-1, d]


def special_point(t, kind, d):
    """(point, outcome tag) from the public parameters of the transform."""
    if kind == "origin":
        return np.zeros(d), "origin"
    if kind == "w1":
        h = np.array(t.h_matrix, dtype=float)
        p = None
        for rest in ([1.0, 2.0], [2.0, 1.0], [0.5, 1.5], [3.0, 1.0], [1.5, 2.5]):
            p = np.array([0.0] + rest[: d - 1])
            p[0] = (1.0 - h[-1, d] - sum(h[-1, c] * p[c] for c in range(1, d))) / h[-1, 0]
            if model_w(h, p) == 1.0:
                return p, "exact"
        return p, "inexact"
    if kind == "fixed":
        h = np.array(t.h_matrix, dtype=float)
        vals, vecs = np.linalg.eig(h)
        for i in np.argsort(-np.abs(vecs[-1, :]) / np.linalg.norm(vecs, axis=0)):
            v = vecs[:, i]
            if abs(vals[i].imag) < 1e-12 and abs(v[-1]) > 1e-6 * np.linalg.norm(v):
                p = (v[:-1] / v[-1]).real
                y, _ = ref_map(t, p[None, :])
                if np.abs(y[0] - p).max() <= 1e-9 * (1.0 + np.abs(p).max()):
                    return p, "found"
        return np.zeros(d), "none"  # (e.g. a 3-D screw motion has no finite fixed point) -> the origin stands in
    src = np.array((t.transforms[0] if hasattr(t, "transforms") else t).source.points, dtype=float)
    if kind == "tps-control":
        return src[2].copy(), "control"
    if kind == "pwa-vertex":
        return src[4].copy(), "interior-vertex"
    if kind == "pwa-corner":
        return src[0].copy(), "corner"
    if kind == "pwa-edge":
        return 0.5 * (src[0] + src[4]), "interior-edge"
    raise HarnessError("unknown special kind %r" % (kind,))

EXTRA_2D = [("WithDims-slice", 2), ("Chain-TPS", 2)] + [(b, 2) for b in BOUNDARY]
EXTRA_3D = [("WithDims-slice", 3), ("WithDims-int", 3)] + [(b, 3) for b in BOUNDARY]


def transform_letters(d):
    if d == 2:
        return L.transform_specs(2) + EXTRA_2D
    if d == 3:
        return L.transform_specs(3) + EXTRA_3D
    return []  # 1-D results (WithDims-int) are terminal: no transform letter exists for them


def make_transform(spec, seed):
    import menpo.transform as mt

    name, d = spec[0], int(spec[1])
    if len(spec) > 2 and spec[2] in SCALES:
        return scaled_transform(make_transform(spec[:2], seed), spec[2], d)
    if name == "WithDims-slice":
        # a slice on the dimension axis gives a *view* of the input before WithDims copies it
        return mt.WithDims(slice(None, None, -1) if d == 2 else slice(0, 2))
    if name == "WithDims-int":
        return mt.WithDims(1)  # a single number: the dimension axis must be restored by the reshape
    if name in BOUNDARY:
        base = np.array(L.transform(("Affine", d, 7), seed).h_matrix, dtype=float)
        if name.startswith("Homogeneous-affine-w"):
            w = {"w2": 2.0, "wneg": -1.0, "whalf": 0.5}[name.rsplit("-", 1)[1]]
            return mt.Homogeneous(base * w)
        if name == "Homogeneous-scaled-1e-3":
            full = np.array(L.transform(("Homogeneous", d, 7), seed).h_matrix, dtype=float)
            return mt.Homogeneous(full * 1e-3)
        if name == "Homogeneous-dyadic-row":
            full = np.array(L.transform(("Homogeneous", d, 8), seed).h_matrix, dtype=float)
            full[-1, :d] = DYADIC_ROW[:d]
            full[-1, d] = 1.0
            return mt.Homogeneous(full)
        if name == "Affine-near-identity":
            return mt.Affine(np.eye(d + 1) + 1e-7 * (base - np.eye(d + 1)))
        if name == "Homogeneous-near-identity":
            full = np.array(L.transform(("Homogeneous", d, 7), seed).h_matrix, dtype=float)
            return mt.Homogeneous(np.eye(d + 1) + 1e-7 * (full - np.eye(d + 1)))
        if name == "Identity-Affine":
            return mt.Affine(np.eye(d + 1))
        if name == "Translation-zero":
            return mt.Translation(np.zeros(d))
        return mt.UniformScale(1.0, d)
    if name == "Chain-TPS":
        return mt.TransformChain([L.transform(("ThinPlateSplines", 2, 5), seed), L.transform(("Rotation", 2, 6), seed), mt.WithDims([1, 0])])
    return L.transform(spec, seed)


def scaled_transform(t, skey, d):
    """the transform conjugated by the scaling / translation of `skey`, rebuilt through public constructors."""
    import menpo.transform as mt
    from menpo.shape import PointCloud, TriMesh
    from menpo.transform.base.alignment import Alignment
    from menpo.transform.piecewiseaffine.base import AbstractPWA

    kind, val = SCALES[skey]
    if isinstance(t, mt.TransformChain):
        return mt.TransformChain([scaled_transform(m, skey, d) for m in t.transforms])
    if isinstance(t, mt.WithDims):
        return mt.WithDims(t.dims)
    if isinstance(t, AbstractPWA):
        return type(t)(TriMesh(rescale_points(skey, t.source.points), np.array(t.trilist)), TriMesh(rescale_points(skey, t.target.points), np.array(t.trilist)))
    if isinstance(t, mt.ThinPlateSplines):
        src = rescale_points(skey, t.source.points)
        kernel = type(t.kernel)(src)
        return mt.ThinPlateSplines(PointCloud(src), PointCloud(rescale_points(skey, t.target.points)), kernel=kernel)
    if isinstance(t, Alignment):
        return type(t)(PointCloud(rescale_points(skey, t.source.points)), PointCloud(rescale_points(skey, t.target.points)))
    h = np.array(t.h_matrix, dtype=float)
    n = h.shape[0] - 1
    if kind == "mul":
        if type(t) in (mt.Rotation, mt.UniformScale, mt.NonUniformScale):
            return t  # linear maps commute with a uniform scaling
        if type(t) is mt.Translation:
            return mt.Translation(h[:n, n] * val)
        hs = h.copy()
        hs[:n, n] *= val
        hs[n, :n] /= val
        return type(t)(hs)
    c = np.asarray(val)[:n]
    fwd, back = np.eye(n + 1), np.eye(n + 1)
    fwd[:n, n], back[:n, n] = c, -c
    hc = fwd.dot(h).dot(back)
    if isinstance(t, mt.Similarity):
        hc[n, :] = h[n, :]
        return mt.Translation(hc[:n, n]) if type(t) is mt.Translation else mt.Similarity(hc)
    if isinstance(t, mt.Affine):
        hc[n, :] = h[n, :]
        return mt.Affine(hc)
    return mt.Homogeneous(hc)


def offset_image(skey, t, d):
    """where the common offset goes under the (unconjugated) letter: c itself, or its retained dimensions."""
    c = np.asarray(SCALES[skey][1], dtype=float)[:d]
    if type(t).__name__ == "WithDims":
        return c[None, :][:, t.dims].reshape(1, -1)[0]
    return c


def obs_transform(t):
    d = observe(t)
    if type(t).__name__ == "WithDims":
        d["dims"] = repr(t.dims)
        d["probe2"] = np.asarray(t.apply(PROBE2.copy()))
        d["probe3"] = np.asarray(t.apply(PROBE3.copy()))
    return d


def is_pwa_letter(name):
    return name in ("PythonPWA", "CachedPWA", "PiecewiseAffine")


def obs_quiet(t):
    """observation of a transform that never calls it (a call would overwrite what a hidden memo remembers)."""
    d = observe(t, probe=False)
    if type(t).__name__ == "WithDims":
        d["dims"] = repr(t.dims)
    return d


# argument classes of a session: (class of A and of the out-of-domain letter O / wrong-dims letter W, class of B and LO)
ARGSETS = [
    ("PointCloud", "TexturedTriMesh"),
    ("TriMesh", "PointTree"),
    ("ColouredTriMesh", "LabelledPointUndirectedGraph"),
    ("PointUndirectedGraph", "PointDirectedGraph"),
]
REFUSAL_KINDS = ("out", "lm-out", "wrong-dims", "bad-batch", "inplace-array")


def call(t, x, inplace=False, **kw):
    try:
        return (t.apply_inplace(x) if inplace else t.apply(x, **kw)), None
    except Exception as e:  # noqa - refusals of every kind are compared with the model by the caller
        return None, e


# =================================================================================================
# expected observation
# =================================================================================================
def point_arrays(o, path="shape", out=None):
    """[(path, live ndarray)] of the shape's own coordinates and of every (nested) landmark group."""
    if out is None:
        out = []
    out.append((path, o.points))
    if o.has_landmarks:
        for g in o.landmarks.keys():
            point_arrays(o.landmarks[g], path + ".landmarks[%s]" % g, out)
    return out


def substitute(obs, images, path="shape"):
    """observation of the input with every coordinate array replaced by its image; everything else kept."""
    e = collections.OrderedDict(obs)
    e["points"] = images[path]
    if "landmarks" in e:
        e["landmarks"] = substitute_manager(e["landmarks"], images, path)
    return e


def substitute_manager(lm_obs, images, path="shape"):
    lm = collections.OrderedDict(lm_obs)
    lm["values"] = [substitute(v, images, path + ".landmarks[%s]" % g) for g, v in zip(lm["groups"], lm["values"])]
    lm["n_dims"] = int(lm["values"][0]["points"].shape[1]) if lm["values"] else lm_obs["n_dims"]
    return lm


class C02(Check):
    id = "C02"
    title = "transforming a shape moves points and landmarks as one and mutates nothing"

    def depth(self):
        # the cross product is explored to depth 1 (quick) / 2 (thorough) - see ops(); sessions always to depth 2
        return 2

    # ------------------------------------------------------------------ roots
    def roots(self):
        out = [s + ("plain",) for s in L.shape_specs()]
        for cls in L.SHAPE_CLASSES:
            for d in (2, 3):
                out.append((cls, d, 0, "touched"))
                out.append((cls, d, 1, "nested"))
            out.append((cls, 2, 2, "out"))
            out.append((cls, 2, 2, "lm-out"))
        # coordinate dtypes other than float64 (PointCloud keeps what it is given): integer and single precision
        for cls in ("PointCloud", "TriMesh", "PointUndirectedGraph", "LabelledPointUndirectedGraph", "PointTree"):
            for d in (2, 3):
                out.append((cls, d, 1, "int"))
                out.append((cls, d, 1, "f32"))
        return out + self.order_roots() + self.special_roots() + self.scale_roots() + self.session_roots()

    def scale_roots(self):
        out = [(cls, d, 2, "scale", sk) for sk in SCALES for cls in SCALE_CLASSES for d in (2, 3)]
        out += [(cls, d, 0, "near") for cls in SCALE_CLASSES for d in (2, 3)]
        out += [(cls, d, 0, "large") for cls in ("PointCloud", "TriMesh") for d in (2, 3)]
        return out

    def order_roots(self):
        return [(cls, d, 0, "order", pn) for cls in L.SHAPE_CLASSES for d in (2, 3) for pn in perms(5)]

    def special_roots(self):
        classes = L.SHAPE_CLASSES if self.tier == "thorough" else ["PointCloud", "TriMesh"]
        out = []
        for d in (2, 3):
            for spec in transform_letters(d):
                for i, kind in enumerate(special_kinds(spec[0])):
                    for j, pos in enumerate(("first", "last")):
                        for cls in classes:
                            out.append((cls, d, 0, "special", kind, pos, spec[0]))
        return out

    def session_roots(self):
        out = []
        for d in (2, 3):
            for spec in transform_letters(d):
                n_sets = len(ARGSETS) if (self.tier == "thorough" or is_pwa_letter(spec[0])) else 1
                out.extend(("session", spec[0], d, i) for i in range(n_sets))
        return out

    def build(self, root):
        if root[0] == "session":
            return self.build_session(root)
        st = {"machine": "cross", "shape": make_shape(root, self.seed), "variant": root[3], "only": None}
        if root[3] == "special":
            st["only"] = (root[6], int(root[1]))
            st["special"] = (root[4], root[5])
        if root[3] == "scale":
            st["scale"] = root[4]
            st["base"] = dict((p, a.copy()) for p, a in point_arrays(make_shape(root[:3] + ("plain",), self.seed)))
        return st

    def build_session(self, root):
        name, d, (cls_a, cls_b) = root[1], int(root[2]), ARGSETS[root[3]]
        args = collections.OrderedDict()
        args["A"] = make_shape((cls_a, d, 2, "plain"), self.seed)
        args["B"] = make_shape((cls_b, d, 1, "plain"), self.seed)
        args["W"] = make_shape((cls_a, 5 - d, 1, "plain"), self.seed)
        # two landmark-free arguments that are nearly, not exactly, equal (relative 1e-9: 1e7 x rounding), so that
        # consecutive calls hand the transform nearly equal arrays
        args["C"] = make_shape((cls_a, d, 0, "plain"), self.seed)
        args["Cn"] = make_shape((cls_a, d, 0, "plain"), self.seed)
        place(args["Cn"], lambda p: p * (1.0 + 1e-9))
        if is_pwa_letter(name):
            args["O"] = make_shape((cls_a, 2, 2, "out"), self.seed)
            args["LO"] = make_shape((cls_b, 2, 2, "lm-out"), self.seed)
        return {
            "machine": "session",
            "spec": (name, d),
            "t": make_transform((name, d), self.seed),
            "args": args,
            "obs_args": {k: observe(v) for k, v in args.items()},
            "last": None,
        }

    def canon(self, st):
        if st["machine"] == "session":
            return (obs_key(obs_quiet(st["t"])), st["last"])
        key = obs_key(observe(st["shape"]))
        if st.get("scale"):
            # rounding to 1e-9 means nothing at other magnitudes: the exact coordinates join the key
            key = (key, tuple(a.tobytes() for _, a in point_arrays(st["shape"])))
        return key

    def ops(self, st, level):
        if st["machine"] == "session":
            name = st["spec"][0]
            out = [("v", a, b) for b in (0, 2) for a in ("A", "B")] + [("v", "C", 0), ("v", "Cn", 0)]
            if not name.startswith("WithDims"):  # WithDims is not dimension specific: nothing to refuse
                out.append(("r", "wrong-dims", "W", 0))
            out.append(("r", "bad-batch", "A", 0))
            out.append(("r", "inplace-array", "A", 0))  # apply_inplace of a bare array: documented ValueError
            if is_pwa_letter(name):
                out += [("r", k, a, b) for b in (0, 2) for k, a in (("out", "O"), ("lm-out", "LO"))]
            return out
        if level >= (1 if self.tier == "quick" else 2):
            return []
        d = st["shape"].n_dims
        if st["only"] is not None:
            # a shape whose first / last point is special for one transform letter meets that letter only
            letters = [st["only"]] if level == 0 else []
        elif st.get("scale"):
            # payload at another magnitude meets every letter re-expressed at that magnitude; not transformed again
            letters = [spec + (st["scale"],) for spec in transform_letters(d) if (spec[0], st["scale"]) not in SCALE_EXCLUDED] if level == 0 else []
        elif st["variant"] == "large" and level > 0:
            letters = []
        else:
            letters = transform_letters(d)
        plain_routes_only = bool(st.get("scale"))  # the magnitude of the payload is orthogonal to the route
        out = [spec + (b,) for b in ((0, LARGE_BATCH) if st["variant"] == "large" else (0, 2)) for spec in letters]
        # the other public routes (all of them from the enumerated inputs; on results only the shape-side one)
        out += [spec + ("with_dims",) for spec in letters if spec[0].startswith("WithDims")]
        if level == 0 and not plain_routes_only:
            out += [spec + ("inplace",) for spec in letters]
            if st["shape"].has_landmarks:
                out += [spec + ("manager",) for spec in letters]
        return out

    # ------------------------------------------------------------------ session step
    def apply_session(self, st, op, verify):
        from menpo.transform.piecewiseaffine import TriangleContainmentError

        t, name = st["t"], st["spec"][0]
        if op[0] == "v":
            kind, aid, batch = "valid", op[1], (op[2] or None)
            kw = {"batch_size": batch}
        else:
            kind, aid = op[1], op[2]
            kw = {"batch_size": 0 if kind == "bad-batch" else (op[3] or None)}
        x = st["args"][aid]
        if kind == "inplace-array":
            x, kw = x.points, {"inplace": True}
        before = st["last"]
        st["last"] = op
        if not verify:
            call(t, x, **kw)
            if kind != "valid":
                call(t, x, **kw)
            return []

        fails = []
        ctx = "%s, %s call on %s %s, previous call on this transform: %r" % (name, kind, type(x).__name__, kw, before)
        twin = make_transform(st["spec"], self.seed)
        seq = ("first" if before is None else "after-valid" if before[0] == "v" else "after-refusal")

        def untouched():
            for k, v in st["args"].items():
                d1 = obs_diff(st["obs_args"][k], observe(v))
                if d1:
                    fails.append(Failure(name, "call-modified-argument" if kind == "valid" else "refused-call-modified-argument", "%s: argument %s: %s" % (ctx, k, d1)))
            d2 = obs_diff(obs_quiet(twin), obs_quiet(t))
            if d2:
                fails.append(Failure(name, "transform-modified" if kind == "valid" else "refused-call-modified-transform", "%s: %s" % (ctx, d2)))

        if kind == "valid":
            r, exc = call(t, x, **kw)
            self.note("session:valid-%s" % seq)
            if before is not None and before[0] == "v" and sorted((aid, before[1])) == ["C", "Cn"]:
                self.note("session:valid-near-argument")
            if exc is not None:
                fails.append(Failure(name, "valid-call-raised-after-history", "%s: raised %r" % (ctx, exc)))
                return fails
            r2 = twin.apply(x, **kw)
            d = obs_diff(observe(r2), observe(r))
            if d:
                fails.append(Failure(name, "result-depends-on-call-history", "%s: differs from the result of a transform that never saw another call at %s" % (ctx, d)))
            for (p, got), (_, src) in zip(point_arrays(r), point_arrays(x)):
                y, cond = ref_map(twin, src)
                tol = REF_TOL * mag(y, src) * max(1.0, cond)
                if got.shape != y.shape or not np.abs(got - y).max() <= tol:
                    fails.append(Failure(name, "map-value", "%s: %s is off the model (tolerance %.3g)" % (ctx, p, tol)))
            untouched()
            return fails

        # ---- a call that must be refused, and its immediate retry
        r1, e1 = call(t, x, **kw)
        r2, e2 = call(t, x, **kw)
        self.note("session:refusal-%s" % seq)
        documented = TriangleContainmentError if kind in ("out", "lm-out") else ValueError if ("TPS" in name or name == "ThinPlateSplines" or kind == "inplace-array") else Exception
        if e1 is None:
            fails.append(Failure(name, "refused-call-accepted", "%s: returned %s" % (ctx, type(r1).__name__)))
        elif not isinstance(e1, documented):
            fails.append(Failure(name, "refused-call-wrong-exception", "%s: expected %s, raised %r" % (ctx, documented.__name__, e1)))
        else:
            self.note("refusal:%s:%s" % (kind, type(e1).__name__))
        if e1 is not None:
            if e2 is None:
                fails.append(Failure(name, "retry-of-refused-call-accepted", "%s: the same call again returned %s" % (ctx, type(r2).__name__)))
            elif type(e2) is not type(e1):
                fails.append(Failure(name, "retry-of-refused-call-differs", "%s: first %r, then %r" % (ctx, e1, e2)))
            elif isinstance(e1, TriangleContainmentError) and not np.array_equal(e1.points_outside_source_domain, e2.points_outside_source_domain):
                fails.append(Failure(name, "retry-of-refused-call-differs", "%s: out-of-domain mask %r, then %r" % (ctx, e1.points_outside_source_domain, e2.points_outside_source_domain)))
        untouched()
        return fails

    # ------------------------------------------------------------------ step
    def apply(self, st, op, verify=True):
        from menpo.transform.piecewiseaffine import TriangleContainmentError

        if st["machine"] == "session":
            return self.apply_session(st, op, verify)
        spec = tuple(op[:-1])
        route, batch = (op[-1], None) if isinstance(op[-1], str) else ("apply", op[-1] or None)
        name = spec[0]
        shape = st["shape"]
        t = make_transform(spec, self.seed)

        def by_route():
            if route == "apply":
                return t.apply(shape, batch_size=batch)
            if route == "inplace":
                c = shape.copy()
                t.apply_inplace(c)
                return c
            if route == "with_dims":
                return shape.with_dims(t.dims)
            if route == "manager":
                return t.apply(shape.landmarks)
            raise HarnessError("unknown route %r" % (route,))

        if not verify:
            try:
                r = by_route()
                if route != "manager":
                    st["shape"] = r
            except TriangleContainmentError:
                pass
            return []

        fails = []
        cls = type(shape).__name__
        ctx = "%s%s%s on %s %dD %s" % (name, " re-expressed at " + spec[2] if len(spec) > 2 else "", "" if route == "apply" else " by route " + route, cls, shape.n_dims, st["variant"])
        twin = make_transform(spec, self.seed)  # same construction: what the transform looks like untouched
        obs_t0 = obs_transform(twin)
        obs_in = observe(shape)
        arrays = point_arrays(shape)
        if route == "manager":
            arrays = arrays[1:]  # the shape's own coordinates are not involved
        saved = [(p, a.copy()) for p, a in arrays]

        # ---- model: where must every coordinate array go, and may the map refuse?
        ref = {}
        status = "inside"
        for p, a in saved:
            try:
                ref[p] = ref_map(twin, a)
            except RefOutside:
                status = "outside"
            except RefBorder as e:
                ref[p] = (e.y, 1.0)
                if status == "inside":
                    status = "border"

        # ---- the call under test, on a pristine transform
        raised = None
        try:
            r = by_route()
        except TriangleContainmentError as e:
            raised, r = e, None

        def intact(when):
            d1 = obs_diff(obs_in, observe(shape))
            if d1:
                fails.append(Failure(name, "input-shape-modified", "%s, %s: %s" % (ctx, when, d1)))
            d2 = obs_diff(obs_t0, obs_transform(t))
            if d2:
                fails.append(Failure(name, "transform-modified", "%s, %s: %s" % (ctx, when, d2)))
            return not (d1 or d2)

        intact("after apply(shape)")
        if route == "apply":
            self.note("batch:%s" % ({None: "none", 2: 2}.get(batch, "large")))
        self.note("variant:%s" % st["variant"])

        if status == "outside" or (status == "border" and raised is not None):
            self.note("%s:raised-outside" % name if status == "outside" else "%s:border" % name)
            if raised is None:
                fails.append(Failure(name, "outside-domain-accepted", "%s: a point lies outside the source triangulation but apply returned %s" % (ctx, type(r).__name__)))
            return fails
        if raised is not None:
            fails.append(Failure(name, "raised", "%s: every point is inside the domain (model) but apply raised %r" % (ctx, raised)))
            return fails
        self.note("%s:ok" % name)
        if status == "border":
            self.note("%s:border" % name)

        # ---- a new object of the same class
        receiver = shape.landmarks if route == "manager" else shape
        if type(r) is not type(receiver):
            fails.append(Failure(name, "result-class", "%s: got %s" % (ctx, type(r).__name__)))
            return fails
        if r is receiver:
            fails.append(Failure(name, "result-is-input", ctx))
            return fails

        # ---- the same numbers as on the bare arrays (the shape's own live arrays, then detached copies)
        images = {}
        for (p, live), (_, keep) in zip(arrays, saved):
            a = t.apply(live, batch_size=batch)
            if a is live or np.shares_memory(a, live):
                # not a violation by itself (nothing has been modified, the numbers are compared below)
                self.note("array-result:aliases-argument")
                a = np.array(a)
            if not np.array_equal(live, keep):
                fails.append(Failure(name, "array-argument-modified", "%s: apply(%s array) wrote into its argument (max %.3g)" % (ctx, p, np.abs(live - keep).max())))
                live[...] = keep
            c = keep.copy()
            a2 = t.apply(c, batch_size=batch)
            if not np.array_equal(c, keep):
                fails.append(Failure(name, "array-argument-modified", "%s: apply(copy of %s array) wrote into its argument" % (ctx, p)))
            if a2.shape != a.shape or not np.array_equal(a2, a):
                fails.append(Failure(name, "array-apply-not-repeatable", "%s: two applications to the %s coordinates differ" % (ctx, p)))
            images[p] = np.array(a2)
        if fails:
            return fails

        # ---- the map is pointwise: re-ordering the rows re-orders the images
        for p, keep in saved:
            y = images[p]
            for pn, pm in perms(keep.shape[0]).items():
                yp = np.asarray(t.apply(keep[pm].copy(), batch_size=batch))
                if yp.shape != y.shape:
                    fails.append(Failure(name, "permutation-equivariance", "%s: %s rows in order %s give shape %s" % (ctx, p, pn, yp.shape)))
                    continue
                if batch is None:
                    ok = np.array_equal(yp, y[pm])
                else:
                    cond = ref[p][1] if p in ref else 1.0
                    ok = bool(np.all(np.abs(yp - y[pm]) <= ORDER_TOL * mag(y, keep) * max(1.0, cond)))
                if not ok:
                    fails.append(Failure(name, "permutation-equivariance", "%s: apply(%s rows in order %s) differs from the re-ordered apply(%s rows) by %.3g" % (ctx, p, pn, p, np.abs(yp - y[pm]).max())))
                else:
                    self.note("order:array-%s" % pn)
        if fails:
            return fails
        intact("after apply(bare arrays)")

        # ---- moved as one, everything else carried over: exact comparison of complete observations
        obs_r = observe(r)
        expected = substitute_manager(obs_in["landmarks"], images) if route == "manager" else substitute(obs_in, images)
        d = obs_diff(expected, obs_r)
        if d:
            clause = "points" if d.startswith(".points") else "landmarks" if (d.startswith(".landmarks") or route == "manager") else "structure"
            fails.append(Failure(name, clause, "%s: result differs from (input structure + transformed coordinate arrays) at %s" % (ctx, d)))
        n_groups = len(point_arrays(shape)) - 1
        self.note("groups:%d" % n_groups)
        self.note("dims:%d->%d" % (shape.n_dims, r.n_dims))
        if route != "manager":
            # groups holding the shape's points in another order still do so afterwards
            got = dict(point_arrays(r))
            rows = {row.tobytes(): i for i, row in enumerate(np.ascontiguousarray(saved[0][1]))}
            for p, keep in saved[1:]:
                if keep.shape == saved[0][1].shape and len(rows) == keep.shape[0] and all(row.tobytes() in rows for row in np.ascontiguousarray(keep)):
                    pm = np.array([rows[row.tobytes()] for row in np.ascontiguousarray(keep)])
                    want = got["shape"][pm]
                    if batch is None:
                        same = p in got and got[p].shape == want.shape and np.array_equal(got[p], want)
                    else:  # batches are cut at other rows: ulp-level differences (see ORDER_TOL)
                        same = p in got and got[p].shape == want.shape and bool(np.all(np.abs(got[p] - want) <= ORDER_TOL * mag(want, keep) * max(1.0, ref[p][1] if p in ref else 1.0)))
                    if not same:
                        fails.append(Failure(name, "points-and-permuted-landmarks-disagree", "%s: %s held the shape's points in order %s; afterwards it is not the result's points in that order" % (ctx, p, pm.tolist())))
                    else:
                        self.note("order:group-is-permutation-of-points")
        if st.get("special"):
            kind, pos = st["special"]
            tag = special_point(twin, kind, shape.n_dims)[1]
            self.note("special:%s:%s:%s" % (kind, pos, tag))
            if isinstance(getattr(twin, "h_matrix", None), np.ndarray) and name in PROJECTIVE:
                w = [model_w(np.array(twin.h_matrix, dtype=float), q) for q in saved[0][1]]
                i = 0 if pos == "first" else -1
                if w[i] == 1.0 and all(v != 1.0 for k, v in enumerate(w) if k != i % len(w)):
                    self.note("special:%s point has w == 1 exactly, others not" % pos)
        if route != "apply":
            # route agreement: exactly what the general call gives on an identically built transform
            try:
                general = twin.apply(shape)
            except TriangleContainmentError:
                # only the manager route can get here: the shape's own point is outside, its landmarks are not
                if route != "manager":
                    raise
                general = None
                self.note("route:manager:general-call-refused")
            d = general is not None and obs_diff(observe(general.landmarks if route == "manager" else general), obs_r)
            if d:
                fails.append(Failure(name, "route-disagrees-with-apply", "%s: differs from Transform.apply(shape) at %s" % (ctx, d)))
            self.note("route:%s:%s" % (route, "with-landmarks" if n_groups else "no-landmarks"))
            if route == "with_dims" and n_groups and r.n_dims != shape.n_dims:
                self.note("route:with_dims:landmarks-change-dims")

        # ---- ... and those numbers are the map (independent model)
        for p, (y, cond) in ref.items():
            got = images[p]
            tol = REF_TOL * mag(y, dict(saved)[p]) * max(1.0, cond)
            if got.shape != y.shape:
                fails.append(Failure(name, "map-shape", "%s: %s has shape %s, model %s" % (ctx, p, got.shape, y.shape)))
                continue
            err = np.abs(got - y).max() if y.size else 0.0
            if not err <= tol:
                fails.append(Failure(name, "map-value", "%s: %s is off the model by %.3g (tolerance %.3g)" % (ctx, p, err, tol)))
            else:
                self.note("ref-error/tolerance:%s" % ("0" if err == 0 else "<=1e%d" % min(0, int(math.ceil(math.log10(err / tol))))))

        # ---- the same payload at another magnitude: T_s(s x) == s T(x), T_c(x + c) == T(x) + c
        if st.get("scale"):
            skey = st["scale"]
            base_t = make_transform(spec[:2], self.seed)
            for p, _ in saved:
                y0 = np.asarray(base_t.apply(st["base"][p].copy()), dtype=float)
                want = y0 * SCALES[skey][1] if SCALES[skey][0] == "mul" else y0 + offset_image(skey, base_t, shape.n_dims)
                cond = ref[p][1] if p in ref else 1.0
                tol = REF_TOL * mag(want, dict(saved)[p]) * max(1.0, cond)
                err = np.abs(images[p] - want).max() if images[p].shape == want.shape else np.inf
                if not err <= tol:
                    fails.append(Failure(name, "scale-equivariance", "%s: %s differs from the re-scaled image of the unscaled payload under the unscaled letter by %.3g (tolerance %.3g)" % (ctx, p, err, tol)))
                else:
                    self.note("scale-equivariance:%s" % skey)
            self.note("scale:%s:%s" % (skey, name))

        # ---- no buffer of the result is observably shared with the input
        if not fails:
            # (index arrays of sparse matrices are not written to - scipy reads them unchecked, a shared and
            # corrupted one could crash the worker; for them shared memory with the input is the criterion)
            structural = [(pth, b) for pth, b in buffers(r) if pth.endswith(".indices") or pth.endswith(".indptr")]
            shared = [pth for pth, b in structural for _, b_in in buffers(shape) if b.size and b_in.size and np.shares_memory(b, b_in)]
            toks = [(b, flip(b, i)) for i, (pth, b) in enumerate(buffers(r)) if not (pth.endswith(".indices") or pth.endswith(".indptr"))]
            try:
                d3 = obs_diff(obs_in, observe(shape))
            except Exception as e:  # noqa - the input was broken by a write into the result
                d3 = "observe(input) raises %s" % type(e).__name__
            for b, tok in reversed(toks):
                unflip(b, tok)
            if shared and not d3:
                d3 = "sparse index array %s of the result is the input's" % shared[0]
            self.note("write-through:%d-buffers" % (len(toks) + len(structural)))
            if d3:
                fails.append(Failure(name, "result-shares-buffer-with-input", "%s: writing into the result's arrays changed the input at %s" % (ctx, d3)))
            elif obs_diff(obs_r, observe(r)) is not None:
                raise HarnessError("write-through test did not restore the result")
        if not fails and route != "manager":
            st["shape"] = r
        return fails

    # ------------------------------------------------------------------ reporting
    def vacuity(self, notes, stats):
        out = []
        names = set(s[0] for d in (2, 3) for s in transform_letters(d))
        for n in sorted(names):
            if not notes.get("%s:ok" % n):
                out.append("transform letter %s never applied successfully" % n)
        for n in ("PythonPWA", "CachedPWA"):
            if not notes.get("%s:raised-outside" % n):
                out.append("%s never refused a point outside its domain" % n)
        for n in ["groups:0", "groups:1", "groups:2", "dims:3->2", "dims:3->1", "dims:2->2", "dims:3->3", "batch:2", "batch:none"] + ["variant:%s" % v for v in VARIANTS]:
            if not notes.get(n):
                out.append("outcome %s never produced" % n)
        for n in ("route:inplace:with-landmarks", "route:inplace:no-landmarks", "route:manager:with-landmarks", "route:with_dims:with-landmarks", "route:with_dims:no-landmarks", "route:with_dims:landmarks-change-dims"):
            if not notes.get(n):
                out.append("outcome %s never produced" % n)
        for n in ["order:array-rev", "order:array-rot1", "order:array-shuffle", "order:group-is-permutation-of-points", "special:first point has w == 1 exactly, others not", "special:last point has w == 1 exactly, others not"]:
            if not notes.get(n):
                out.append("outcome %s never produced" % n)
        for kind, tag in (("origin", "origin"), ("w1", "exact"), ("fixed", "found"), ("tps-control", "control"), ("pwa-vertex", "interior-vertex"), ("pwa-corner", "corner"), ("pwa-edge", "interior-edge")):
            for pos in ("first", "last"):
                if not notes.get("special:%s:%s:%s" % (kind, pos, tag)):
                    out.append("no successful call on a shape whose %s point is special (%s)" % (pos, kind))
        for sk in SCALES:
            if not notes.get("scale-equivariance:%s" % sk):
                out.append("scale letter %s never passed the equivariance clause" % sk)
            for n in ("CachedPWA", "PythonPWA", "Homogeneous", "AlignmentAffine", "TransformChain", "WithDims"):
                if (n, sk) not in SCALE_EXCLUDED and not notes.get("scale:%s:%s" % (sk, n)):
                    out.append("transform letter %s never applied at scale %s" % (n, sk))
        for n in ("variant:near", "variant:large", "variant:scale", "Affine-near-identity:ok", "Homogeneous-near-identity:ok", "session:valid-near-argument"):
            if not notes.get(n):
                out.append("outcome %s never produced" % n)
        for kind in REFUSAL_KINDS:
            if not any(k.startswith("refusal:%s:" % kind) for k in notes):
                out.append("no call of refusal kind %s was ever refused" % kind)
        for n in ("session:valid-first", "session:valid-after-valid", "session:valid-after-refusal", "session:refusal-first", "session:refusal-after-valid", "session:refusal-after-refusal"):
            if not notes.get(n):
                out.append("outcome %s never produced" % n)
        if not any(k.startswith("write-through:") for k in notes):
            out.append("write-through test never ran")
        if not any(k.startswith("ref-error/tolerance:") for k in notes):
            out.append("model comparison never ran")
        return out

    def rule(self):
        return (
            "every shape letter (class x dims x landmark groups x variant) crossed with every transform letter "
            "(x batch_size none / 2), breadth first; thorough applies every letter again to every distinct result; "
            "plus, per transform letter, every ordered pair of valid / refused calls on one live transform object"
        )

    def alphabet_sizes(self):
        return {
            "roots": len(self.roots()),
            "shape_classes": len(L.SHAPE_CLASSES),
            "variants": list(VARIANTS),
            "transform_letters_2d": len(transform_letters(2)),
            "transform_letters_3d": len(transform_letters(3)),
            "batch_sizes": ["none", 2],
            "routes": ["apply", "apply+batch_size", "inplace", "with_dims", "manager"],
            "scale_roots": len(self.scale_roots()),
            "scales": list(SCALES.keys()),
            "scale_letters_left_out": ["%s at %s: %s" % (k[0], k[1], v) for k, v in SCALE_EXCLUDED.items()],
            "order_roots": len(self.order_roots()),
            "special_roots": len(self.special_roots()),
            "permutations": list(perms(5).keys()),
            "order_tolerance_batched": ORDER_TOL,
            "session_roots": len(self.session_roots()),
            "refusal_kinds": list(REFUSAL_KINDS),
            "session_argument_sets": len(ARGSETS),
            "ref_tolerance": REF_TOL,
            "pwa_border_margin": PWA_EPS,
            "general_position": {"min_dist": L.MIN_DIST, "min_area": L.MIN_AREA},
        }

    def assumptions(self):
        return [
            "one generic (seeded, general-position) instance per transform class; 'all finite parameter values' is decided on these letters only",
            "shapes have 5 points, landmark groups 5 points, at most 2 groups and one level of nesting",
            "1-D results (WithDims with a single number) are not transformed again",
            "2-D shape letters are rescaled into the piecewise-affine source domain; out-of-domain behaviour is explored by the out / lm-out variants and at depth 2",
            "routes: private hooks (_apply, _apply_inplace, _transform, _transform_inplace) are reached through the public ones only; the inplace and manager routes are taken from the enumerated inputs (level 0) only; TexturedTriMesh.tcoords_pixel_scaled (a transform applied to texture coordinates) is not a shape transformation",
            "scale roots: 3 shape classes, 2 landmark groups, every transform letter re-expressed at the same magnitude; not transformed again; tolerances relative to max(|input|, |output|) x conditioning",
            "special-point roots meet the one transform letter they are special for (all routes, both batch sizes) and are not transformed again; quick uses 2 shape classes for them, thorough all 8",
            "a point on a vertex / edge of the piecewise-affine source triangulation (model slack < 1e-9) may be refused or mapped; if mapped the value must be the model's",
            "sessions: sequences of at most 2 calls on one transform object (a refused call counts with its immediate retry); refusal kinds out-of-domain point / landmark, wrong dimensionality, batch_size=0, apply_inplace of a bare array; WithDims letters have no wrong-dimensionality refusal",
            "the transform's 'before' observation is taken on an identically constructed twin so that the call under test runs on a pristine transform",
        ]


CHECK = C02
