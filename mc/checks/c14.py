"""C14 - graphs, trees and their queries agree with the edges they were built from.

Space   : every undirected simple graph on n <= 5 vertices and every digraph on n <= 4 vertices, every labelled
          rooted tree on n <= 5 (thorough) / 4 (quick) vertices, each built through every construction letter
          (edge array, reversed / doubled / duplicated edges, python list, dense and csr weighted adjacency),
          abstract and point-carrying; deterministic families up to 40 vertices (chains, cycles, stars,
          complete graphs, grids, binary trees, empty graphs) through the predefined constructors and
          through weighted adjacency matrices.  Argument forms (kind X roots): on chains, cycles, stars,
          complete graphs and binary trees of 9 and 40 vertices the same payload is presented, one argument
          kind at a time, in every form the unchanged tree accepts - edge arrays of all integer dtypes,
          Fortran-ordered / strided / read-only, lists of tuples / arrays / numpy scalars; dense and csr
          adjacency of float32 / int / uint8 / bool, Fortran / read-only / 64-bit indices; float32 / integer /
          strided / read-only points; numpy-scalar vertex numbers and n_vertices; read-only / strided masks.
Ops     : static queries, every (start, end) pair for find_path / find_all_paths / find_shortest_path, every
          MST root, every Tree(root) reading of a digraph, every vertex mask (structured masks for the
          families); thorough repeats all of this on the *result* of every mask (depth 2).
Oracle  : the set-based reference of mc/refs/c14_graphref.py (colouring DFS, union-find, Floyd-Warshall,
          Kruskal, BFS).  All weights are small distinct integers, so every comparison is exact.
Known   : D11 (cost = sum of cumulative distances) and D23 (start == end answers "no path") are tagged only
          when their footprint predicate matches the very answer that was returned.
"""
import numpy as np

from mc.core import Check, Failure
from mc.letters import rs
from mc.observe import obs_key, observe
from mc.refs.c14_graphref import INF, RefGraph, dir_pairs, orient_from_root, prufer_tree, und_pairs

U_VARIANTS = ["el", "er", "eb", "ls", "ad", "ac"]
D_VARIANTS = ["el", "ed", "ls", "ad", "ac"]
T_VARIANTS = ["el", "ep", "ac"]
FULL_VARIANTS = ("el", "ac")  # construction letters that get the whole operation alphabet
WEIGHTED = ("ad", "ac", "az", "az1", "an", "at", "zop")

# boundary letters (kind B roots), one per boundary visible in the anchored code:
#   az  : csr adjacency in which EVERY position (diagonal included) is stored, non-edges as explicit zeros
#   az1 : csr adjacency with one explicitly stored zero (first non-adjacent pair, else the diagonal)
#   zop : built from a weighted csr, then edges are removed one at a time by assigning 0 into adjacency_matrix
#   an  : weights of both signs (every other edge negative)          at : all weights equal (2.0): ties everywhere
# plus, on every root: vertex numbers -1 and n (just outside [0, n-1]) and masks of length n-1 and n+1.
B_VARIANTS = ["az", "az1", "zop", "an", "at"]

# scale letters (kind S roots): the weighted payload of a graph re-expressed at other legal magnitudes
#   x1e-6 / x1e-9 / x1e6 : every weight (and point) multiplied by the factor       mixed : every other weight x 1e-9
#   offset : a large common offset (offset / spread ~ 1e6)       near : nearly equal weights 1 + k * 1e-9
SCALE_LETTERS = ["x1e-6", "x1e-9", "x1e6", "mixed", "offset", "near"]
SCALE_FACTOR = {"x1e-6": 1e-6, "x1e-9": 1e-9, "x1e6": 1e6}
LARGE_SIZE = 300  # one large-size letter (the recursive cycle test of menpo reaches python's recursion limit near 1000 vertices)

# option letters: every documented keyword option of a public call under the property is crossed with every other
SP_ALGORITHMS = ["auto", "FW", "D", "BF", "J"]  # scipy's names (the names in menpo's docstring are rejected by scipy)
SP_PRODUCT = [(a, u, k) for a in SP_ALGORITHMS for u in (False, True) for k in (False, True)]  # algorithm x unweighted x skip_checks
# all PAIRS of option values (10 calls): every (algorithm, unweighted), (algorithm, skip_checks), (unweighted, skip_checks)
SP_PAIRS = [(a, u, bool((i + j) % 2)) for i, a in enumerate(SP_ALGORITHMS) for j, u in enumerate((False, True))]
PATH_PRODUCT = [(mth, k) for mth in ("bfs", "dfs") for k in (False, True)]  # method x skip_checks
CTOR_OPTIONS = [(c, k) for c in (True, False) for k in (False, True)]  # copy x skip_checks
GRID_OPTIONS = [(sp, adj, k) for sp in ("none", "2", "2x3") for adj in (False, True) for k in (False, True)]  # spacing x adjacency given x skip_checks
# A stored zero is documented as a non-edge.  Construction letters (az, az1): since the fix D35 the constructor drops
# explicitly stored zeros, so every query - also those menpo delegates to scipy.csgraph, which would read a stored
# zero as a zero-weight edge - is asked there (revert-D35 must be caught).
ZERO_WEIGHT_CSGRAPH_OPS = True
# 'zop' letters assign 0 into the public adjacency_matrix AFTER construction: that changes a public attribute behind
# the object's back and is outside the property; they keep only the queries that never reach csgraph (static
# queries, cycle / tree tests, masks of graphs).
ZOP_CSGRAPH_OPS = False

# "argument form" letters: the same payload presented in every form the unchanged tree accepts (probed on /repo:
# an outer tuple of edges, float vertex numbers, float16 / non-csr / list adjacency, list points, integer or list
# masks are rejected or documented as unsupported and therefore are not letters)
E_FORMS = ["int64", "int32", "int16", "int8", "uint8", "uint16", "uint32", "uint64", "F", "nc", "ro", "list-of-tuples", "list-of-arrays", "list-of-npint"]
A_FORMS = ["dense:float32", "dense:int64", "dense:int32", "dense:int16", "dense:uint8", "dense:bool", "dense:F", "dense:ro",
           "csr:float32", "csr:int32", "csr:uint8", "csr:bool", "csr:idx64", "csr:ro"]
P_FORMS = ["float32", "int64", "F", "nc", "ro"]
V_FORMS = ["int64", "int32", "int8", "uint8", "uint16", "intp"]
M_FORMS = ["ro", "nc"]
N_FORMS = ["int64", "int32", "uint8"]
FORM_FACTORS = {"edges": E_FORMS, "adj": A_FORMS, "points": P_FORMS, "vertex": V_FORMS, "mask": M_FORMS, "nvert": N_FORMS}
FORM_FAMILIES = [("chain", "U"), ("chain", "D"), ("chain", "T"), ("cycle", "U"), ("cycle", "D"), ("star", "U"), ("star", "D"), ("star", "T"),
                 ("complete", "U"), ("complete", "D"), ("binary", "T")]
FORM_SIZES = [9, 40]  # 40: beyond the range of 8-bit products / sums of vertex numbers


def _bits(mask_bits, n):
    return np.array([(mask_bits >> i) & 1 for i in range(n)], dtype=bool)


def _ints(seq):
    return [int(v) for v in seq]


class C14(Check):
    id = "C14"
    title = "graphs, trees and their queries agree with their edges"

    def __init__(self, tier, seed):
        super(C14, self).__init__(tier, seed)
        self._opt_product = False  # True while the ("static",) / ("tree",) letters run: option cross products of the queries
        self._dist_ok = True  # False on stored-zero letters while ZERO_WEIGHT_CSGRAPH_OPS is off
        self._vc = int  # how vertex arguments are presented to menpo (argument-form letter of the current state)
        self._reported = set()  # (root, finding id): an open finding is returned as a Failure once per root

    def depth(self):
        return 1 if self.tier == "quick" else 2

    # ------------------------------------------------------------------------------------------ roots
    def roots(self):
        quick = self.tier == "quick"
        out = []
        n_full_u = 4 if quick else 5
        n_full_d = 3 if quick else 4
        n_tree = 4 if quick else 5
        # undirected small scope
        for n in range(1, 6):
            for bits in range(2 ** len(und_pairs(n))):
                if n <= n_full_u:
                    variants = U_VARIANTS if n <= 4 else list(FULL_VARIANTS)
                    for cls in ("A", "P"):
                        for v in variants:
                            if bits == 0 and v == "eb":
                                continue
                            if n == 5 and cls == "P" and v != "ac":
                                continue
                            out.append(("U", n, bits, cls, v, "full" if v in FULL_VARIANTS else "lite"))
                else:  # quick, n = 5: every graph, static queries only
                    out.append(("U", n, bits, "A", "el", "static"))
                    out.append(("U", n, bits, "P", "ac", "static"))
        # directed small scope
        for n in range(1, 5):
            for bits in range(2 ** len(dir_pairs(n))):
                if n <= n_full_d:
                    variants = D_VARIANTS if n <= 3 else list(FULL_VARIANTS)
                    for cls in ("A", "P"):
                        for v in variants:
                            if bits == 0 and v == "ed":
                                continue
                            if n == 4 and cls == "P" and v != "ac":
                                continue
                            out.append(("D", n, bits, cls, v, "full" if v in FULL_VARIANTS else "lite"))
                else:  # quick, n = 4
                    out.append(("D", n, bits, "A", "el", "static"))
        # labelled rooted trees
        for n in range(2, n_tree + 1):
            for code in range(1 if n == 2 else n ** (n - 2)):
                for r in range(n):
                    for cls in ("A", "P"):
                        for v in T_VARIANTS if n <= 4 else ("el", "ac"):
                            out.append(("T", n, code, r, cls, v, "full"))
        if quick:
            # every rooted tree on 5 vertices as a point tree: construction, tree relations and every mask (no path
            # queries) - masks of trees whose root is not vertex 0 need 5 vertices to show re-indexing errors
            for code in range(5 ** 3):
                for r in range(5):
                    out.append(("T", 5, code, r, "P", "el", "lite"))
        # the family roots are the expensive ones (seconds each): spread them evenly through the list so that
        # the contiguous chunks handed to the worker processes each get a few of them
        out.extend(self._boundary_roots())
        out.extend(self._option_roots())
        out.extend(self._scale_roots())
        fam = self._family_roots() + self._form_roots()
        stride = max(1, len(out) // max(1, len(fam)))
        mixed = []
        for i, r in enumerate(out):
            if i % stride == 0 and i // stride < len(fam):
                mixed.append(fam[i // stride])
            mixed.append(r)
        mixed.extend(fam[(len(out) - 1) // stride + 1:] if out else fam)
        return mixed

    def _family_roots(self):
        quick = self.tier == "quick"
        big = [9] if quick else [9, 40]
        out = []
        for n in [1, 2, 3] + big:  # 1, 2, 3: the smallest members (a one-vertex tree exists only through these constructors)
            for cls in ("A", "P"):
                for kind in ("U", "D", "T"):
                    out.append(("F", "chain", n, 0, kind, cls, "pre", "full"))
                    for r in sorted(set((0, n // 2, n - 1))):
                        out.append(("F", "star", n, r, kind, cls, "pre", "full"))
                for kind in ("U", "D"):
                    if n >= 2:  # a closed chain on one vertex is a self loop (outside the simple-graph scope)
                        out.append(("F", "cycle", n, 0, kind, cls, "pre", "full"))
                    if n <= 3:
                        out.append(("F", "complete", n, 0, kind, cls, "pre", "full"))
                out.append(("F", "empty", n, 0, "U", cls, "pre", "lite"))
            for kind in ("U", "D"):
                out.append(("F", "chain", n, 0, kind, "P", "ac", "full"))
                if n >= 2:
                    out.append(("F", "cycle", n, 0, kind, "P", "ac", "full"))
                out.append(("F", "star", n, n // 2, kind, "P", "ac", "full"))
        for n in ([6] if quick else [6, 12, 40]):
            for cls in ("A", "P"):
                for kind in ("U", "D"):
                    out.append(("F", "complete", n, 0, kind, cls, "pre", "lite" if n > 12 else "full"))
            out.append(("F", "complete", n, 0, "U", "P", "ac", "full"))
            out.append(("F", "complete", n, 0, "D", "P", "ac", "full"))
        for shape in ([(3, 4)] if quick else [(3, 4), (5, 8)]):
            code = shape[0] * 100 + shape[1]
            for kind in ("U", "D"):
                out.append(("F", "grid", code, 0, kind, "P", "pre", "full"))
                out.append(("F", "grid", code, 0, kind, "P", "ac", "full"))
        for name, kind, cls in (("chain", "U", "A"), ("chain", "D", "P"), ("star", "U", "P"), ("binary", "T", "A"), ("binary", "T", "P")):
            out.append(("F", name, LARGE_SIZE, LARGE_SIZE // 2 if name == "star" else 0, kind, cls, "ac", "form"))
        for oi in range(len(GRID_OPTIONS)):  # init_2d_grid: spacing x adjacency_matrix given x skip_checks
            for kind in ("U", "D"):
                out.append(("F", "grid", 304, oi, kind, "P", "gopt", "lite"))
        for shape in [(1, 1), (1, 4), (4, 1), (2, 2)]:  # degenerate grids: one vertex, one row, one column, one cell
            for kind in ("U", "D"):
                out.append(("F", "grid", shape[0] * 100 + shape[1], 0, kind, "P", "pre", "full"))
        for n in ([15] if quick else [15, 40]):
            for cls in ("A", "P"):
                out.append(("F", "binary", n, 0, "T", cls, "el", "full"))
            out.append(("F", "binary", n, 0, "U", "P", "ac", "full"))
        return out

    def _boundary_roots(self):
        out = []
        zmode = "full" if ZERO_WEIGHT_CSGRAPH_OPS else "lite"
        modes = {"az": zmode, "az1": zmode, "zop": "full" if ZOP_CSGRAPH_OPS else "lite", "an": "full", "at": "full"}
        for n in range(1, 5):
            for bits in range(2 ** len(und_pairs(n))):
                for cls in ("A", "P"):
                    for v in B_VARIANTS:
                        if bits == 0 and v in ("zop", "an"):
                            continue
                        out.append(("B", "U", n, bits, 0, cls, v, modes[v]))
        for n in range(1, 4):
            for bits in range(2 ** len(dir_pairs(n))):
                for cls in ("A", "P"):
                    for v in B_VARIANTS:
                        if bits == 0 and v in ("zop", "an"):
                            continue
                        out.append(("B", "D", n, bits, 0, cls, v, modes[v]))
        for n in range(2, 5):
            for code in range(1 if n == 2 else n ** (n - 2)):
                for r in range(n):
                    for cls in ("A", "P"):
                        for v in ("an", "at") + (("az", "az1") if ZERO_WEIGHT_CSGRAPH_OPS else ()):
                            out.append(("B", "T", n, code, r, cls, v, "full"))
        return out

    def _scale_roots(self):
        out = []
        graphs = [("U", 4, bits, 0) for bits in range(2 ** 6)] + [("D", 3, bits, 0) for bits in range(2 ** 6)]
        graphs += [("T", 4, code, r) for code in range(16) for r in range(4)]
        for sub, n, code, r in graphs:
            if sub != "T" and code == 0:
                continue  # no edge, no weight
            for letter in SCALE_LETTERS:
                out.append(("S", sub, n, code, r, "A", letter, "full"))
                out.append(("S", sub, n, code, r, "P", letter, "lite"))
        return out

    def _option_roots(self):
        """constructor options copy x skip_checks, each given explicitly, for every construction kind."""
        out = []
        quick = self.tier == "quick"
        graphs = []
        for n in range(1, 4 if quick else 5):
            graphs += [("U", n, bits, 0) for bits in range(2 ** len(und_pairs(n)))]
        for n in range(1, 4):
            graphs += [("D", n, bits, 0) for bits in range(2 ** len(dir_pairs(n)))]
        for n in range(2, 5):
            graphs += [("T", n, code, r) for code in range(1 if n == 2 else n ** (n - 2)) for r in range(n)]
        for sub, n, code, r in graphs:
            for cls in ("A", "P"):
                for v in ("el", "ad", "ac"):
                    for oi, (c, k) in enumerate(CTOR_OPTIONS):
                        if v == "el" and cls == "A" and sub != "T" and not c:
                            continue  # UndirectedGraph / DirectedGraph.init_from_edges have no copy option
                        out.append(("O", sub, n, code, r, cls, v, oi, "lite"))
        return out

    def _form_roots(self):
        """one factor at a time: every form of one argument kind, all other arguments in their base form."""
        out = []
        for n in FORM_SIZES:
            for name, kind in FORM_FAMILIES:
                extra = n // 2 if name == "star" else 0
                for cls in ("A", "P"):
                    for factor, forms in FORM_FACTORS.items():
                        if (factor in ("points", "mask") and cls != "P") or (factor == "nvert" and cls != "A"):
                            continue
                        for form in forms:
                            out.append(("X", name, n, extra, kind, cls, factor, form, "form"))
        return out

    # ------------------------------------------------------------------------------------------ payload
    def _points(self, n, salt, d=2):
        return rs(self.seed, "c14pts", salt, n, d).rand(n, d) * 5.0

    def _weights(self, edges, salt):
        """distinct positive integer weights (as floats), one per edge of the canonical edge list."""
        m = len(edges)
        perm = rs(self.seed, "c14w", salt, m).permutation(np.arange(1, 3 * m + 5))[:m]
        return {e: float(w) for e, w in zip(edges, perm)}

    # ------------------------------------------------------------------------------------------ build
    def build(self, root):
        kind = root[0]
        if kind in ("U", "D"):
            _, n, bits, cls, variant, mode = root
            pairs = und_pairs(n) if kind == "U" else dir_pairs(n)
            edges = [p for i, p in enumerate(pairs) if (bits >> i) & 1]
            troot = None
            directed = kind == "D"
            salt = (kind, n, bits)
        elif kind == "T":
            _, n, code, troot, cls, variant, mode = root
            edges = orient_from_root(n, prufer_tree(n, code), troot)
            directed = True
            salt = (kind, n, code, troot)
        elif kind == "B":
            _, sub, n, code, troot, cls, variant, mode = root
            if sub == "T":
                edges = orient_from_root(n, prufer_tree(n, code), troot)
                directed = True
            else:
                pairs = und_pairs(n) if sub == "U" else dir_pairs(n)
                edges = [p for i, p in enumerate(pairs) if (code >> i) & 1]
                troot = None
                directed = sub == "D"
            salt = ("B", sub, n, code, troot)
        elif kind == "S":
            _, sub, n, code, troot, cls, letter, mode = root
            if sub == "T":
                edges = orient_from_root(n, prufer_tree(n, code), troot)
                directed = True
            else:
                pairs = und_pairs(n) if sub == "U" else dir_pairs(n)
                edges = [p for i, p in enumerate(pairs) if (code >> i) & 1]
                troot = None
                directed = sub == "D"
            salt = ("S", sub, n, code, troot)
            base = self._weights(edges, salt)
            m_edges = len(edges)
            if letter in SCALE_FACTOR:
                weights = {e: w * SCALE_FACTOR[letter] for e, w in base.items()}
            elif letter == "mixed":
                weights = {e: (w * 1e-9 if i % 2 == 0 else w) for i, (e, w) in enumerate(sorted(base.items()))}
            elif letter == "offset":
                weights = {e: 1e6 * (3 * m_edges + 5) + w for e, w in base.items()}
            else:  # near
                weights = {e: 1.0 + w * 1e-9 for e, w in base.items()}
            pts = None
            if cls == "P":
                pts = self._points(n, salt)
                pts = pts * SCALE_FACTOR[letter] if letter in SCALE_FACTOR else pts + 1e6 if letter == "offset" else pts[0] + pts * 1e-7 if letter == "near" else pts
            st = self._construct(root, directed, troot, cls, "ac" if cls == "A" else "ad", n, edges, weights, pts, mode)
            st["scale"] = (letter, base)
            return st
        elif kind == "O":
            _, sub, n, code, troot, cls, variant, oi, mode = root
            if sub == "T":
                edges = orient_from_root(n, prufer_tree(n, code), troot)
                directed = True
            else:
                pairs = und_pairs(n) if sub == "U" else dir_pairs(n)
                edges = [p for i, p in enumerate(pairs) if (code >> i) & 1]
                troot = None
                directed = sub == "D"
            salt = ("O", sub, n, code, troot)
            pts = self._points(n, salt) if cls == "P" else None
            weights = self._weights(edges, salt) if variant in WEIGHTED else None
            c, k = CTOR_OPTIONS[oi]
            opts = {"skip_checks": k}
            if not (variant == "el" and cls == "A" and sub != "T"):
                opts["copy"] = c
            st = self._construct(root, directed, troot, cls, variant, n, edges, weights, pts, mode, opts)
            st["ctor"] = None  # Tree(root) readings are asked on the plain construction letters
            return st
        elif kind == "X":
            return self._build_form(root)
        else:
            return self._build_family(root)
        pts = self._points(n, salt) if cls == "P" else None
        weights = self._weights(edges, salt) if variant in WEIGHTED else None
        if variant == "an":  # every other edge negative
            weights = {e: (-w if i % 2 == 0 else w) for i, (e, w) in enumerate(sorted(weights.items()))}
        elif variant == "at":
            weights = {e: 2.0 for e in weights}
        return self._construct(root, directed, troot, cls, variant, n, edges, weights, pts, mode)

    def _classes(self, directed, troot, cls):
        import menpo.shape as ms

        if troot is not None:
            return ms.PointTree if cls == "P" else ms.Tree
        if directed:
            return ms.PointDirectedGraph if cls == "P" else ms.DirectedGraph
        return ms.PointUndirectedGraph if cls == "P" else ms.UndirectedGraph

    def _ctor_args(self, directed, variant, n, edges, weights):
        """('edges', array-or-list-or-None) or ('adj', matrix) for a construction letter."""
        from scipy.sparse import csr_matrix

        if variant == "el":
            return "edges", np.array(edges, dtype=int).reshape(-1, 2)
        if variant == "er":  # undirected: opposite orientation, opposite order; no edges -> None
            if not edges:
                return "edges", None
            return "edges", np.array([(b, a) for (a, b) in reversed(edges)], dtype=int)
        if variant == "eb":  # undirected: both orientations (as in the docstrings) and one edge a third time
            return "edges", np.array(list(edges) + [(b, a) for (a, b) in edges] + [edges[0]], dtype=int)
        if variant == "ed":  # directed: first edge listed twice
            return "edges", np.array(list(edges) + [edges[0]], dtype=int)
        if variant == "ls":
            return "edges", [list(e) for e in edges]
        if variant == "ep":  # tree: deepest edges first
            return "edges", np.array(list(reversed(edges)), dtype=int).reshape(-1, 2)
        dense = np.zeros((n, n))
        for (a, b) in edges:
            dense[a, b] = weights[(a, b)]
            if not directed:
                dense[b, a] = weights[(a, b)]
        if variant == "ad":
            return "adj", dense
        if variant in ("az", "az1"):
            pat = dense != 0
            if variant == "az":
                stored = np.ones((n, n), dtype=bool)
            else:
                stored = pat.copy()
                free = [(a, b) for a in range(n) for b in range(n) if a != b and not pat[a, b] and not pat[b, a]]
                a, b = free[0] if free else (0, 0)
                stored[a, b] = True
                if not directed:
                    stored[b, a] = True
            r, c = np.nonzero(stored)
            mat = csr_matrix((dense[r, c], (r, c)), shape=(n, n))
            assert mat.nnz == int(stored.sum()) and mat.nnz > int(pat.sum()), "no explicitly stored zero"
            return "adj", mat
        if variant in ("ac", "an", "at", "zop"):
            r, c = np.nonzero(dense)
            r, c = r[::-1], c[::-1]
            return "adj", csr_matrix((dense[r, c], (r, c)), shape=(n, n))
        raise ValueError(variant)

    def _instantiate(self, klass, how, arg, n, pts, troot, raw=False, opts=None):
        """raw: hand the arguments over exactly as they are (argument-form letters must not be copied away).
        opts: keyword options (copy, skip_checks) given explicitly."""
        kw = dict(opts or {})
        point = pts is not None
        p = pts if (raw or not point) else pts.copy()
        if how == "edges":
            if point:
                return klass.init_from_edges(p, arg, troot, **kw) if troot is not None else klass.init_from_edges(p, arg, **kw)
            return klass.init_from_edges(arg, n, troot, **kw) if troot is not None else klass.init_from_edges(arg, n, **kw)
        a = arg if raw else arg.copy()
        if point:
            return klass(p, a, troot, **kw) if troot is not None else klass(p, a, **kw)
        return klass(a, troot, **kw) if troot is not None else klass(a, **kw)

    # ---- argument forms
    @staticmethod
    def _edge_form(edges, form):
        base = np.array(edges, dtype=np.int64).reshape(-1, 2)
        if form in ("int64", "int32", "int16", "int8", "uint8", "uint16", "uint32", "uint64"):
            return base.astype(form)
        if form == "F":
            return np.asfortranarray(base)
        if form == "nc":
            big = np.full((2 * len(base), 4), -7, dtype=np.int64)
            big[::2, ::2] = base
            return big[::2, ::2]
        if form == "ro":
            a = base.copy()
            a.flags.writeable = False
            return a
        if form == "list-of-tuples":
            return [tuple(int(x) for x in e) for e in base]
        if form == "list-of-arrays":
            return [np.array(e) for e in base]
        if form == "list-of-npint":
            return [[np.int64(a), np.int32(b)] for a, b in base]
        raise ValueError(form)

    def _adj_form(self, directed, n, edges, form, salt):
        """(matrix in the requested form, weights as float64 values actually representable in that form)."""
        from scipy.sparse import csr_matrix

        container, what = form.split(":")
        w = self._weights(edges, salt)
        if what == "bool":
            w = {e: 1.0 for e in w}
        elif what == "uint8":
            w = {e: float((int(v) - 1) % 200 + 1) for e, v in w.items()}
        dense = np.zeros((n, n))
        for (a, b) in edges:
            dense[a, b] = w[(a, b)]
            if not directed:
                dense[b, a] = w[(a, b)]
        dtype = what if what in ("float32", "int64", "int32", "int16", "uint8", "bool") else "float64"
        typed = (dense != 0) if dtype == "bool" else dense.astype(dtype)
        assert np.array_equal(typed.astype(np.float64), dense), "weights not representable in %s" % dtype
        if container == "dense":
            if what == "F":
                typed = np.asfortranarray(typed)
            elif what == "ro":
                typed.flags.writeable = False
            return typed, w
        mat = csr_matrix(typed)
        if what == "idx64":
            mat.indices = mat.indices.astype(np.int64)
            mat.indptr = mat.indptr.astype(np.int64)
        elif what == "ro":
            for a in (mat.data, mat.indices, mat.indptr):
                a.flags.writeable = False
        return mat, w

    @staticmethod
    def _point_form(pts64, form):
        if form == "float32":
            return pts64.astype(np.float32)
        if form == "int64":
            return np.round(pts64 * 10).astype(np.int64)
        if form == "F":
            return np.asfortranarray(pts64.copy())
        if form == "nc":
            big = np.zeros((pts64.shape[0], 2 * pts64.shape[1]))
            big[:, ::2] = pts64
            return big[:, ::2]
        if form == "ro":
            a = pts64.copy()
            a.flags.writeable = False
            return a
        raise ValueError(form)

    @staticmethod
    def _mask_form(mask, form):
        if form is None:
            return mask.copy()
        if form == "ro":
            a = mask.copy()
            a.flags.writeable = False
            return a
        if form == "nc":
            big = np.zeros(2 * len(mask), dtype=bool)
            big[::2] = mask
            return big[::2]
        raise ValueError(form)

    def _build_form(self, root):
        _, name, size, extra, kind, cls, factor, form, mode = root
        n, edges = self._family_edges(name, size, extra, kind)
        directed = kind in ("D", "T")
        troot = (extra if name == "star" else 0) if kind == "T" else None
        klass = self._classes(directed, troot, cls)
        pts_live = self._points(n, ("X", name, size), d=3 if name == "binary" else 2) if cls == "P" else None
        vc, mform, n_arg, how, weights = int, None, n, "edges", None
        if factor == "edges":
            arg = self._edge_form(edges, form)
        elif factor == "adj":
            how = "adj"
            arg, weights = self._adj_form(directed, n, edges, form, ("X", name, size, kind))
        else:
            arg = np.array(edges, dtype=np.int64).reshape(-1, 2)
        if factor == "points":
            pts_live = self._point_form(pts_live, form)
        elif factor == "vertex":
            vc = getattr(np, form)
        elif factor == "mask":
            mform = form
        elif factor == "nvert":
            n_arg = getattr(np, form)(n)
        # the expectation is computed in float64 from the values that are handed over
        pts_ref = np.array(pts_live, dtype=np.float64, copy=True) if pts_live is not None else None
        refused = None
        try:
            g = self._instantiate(klass, how, arg, n_arg, pts_live, None if troot is None else vc(troot), raw=True)
        except ValueError as ex:
            if troot is None:
                raise
            g, refused = None, ex
        return {
            "root": root,
            "g": g,
            "refused": refused,
            "m": self._model(directed, n, edges, weights, "form"),
            "pts": pts_ref,
            "cls": klass.__name__,
            "troot": troot,
            "mode": mode,
            "ctor": (how, arg, cls),
            "family": True,
            "vc": vc,
            "mform": mform,
            "raw": (n_arg, pts_live),
        }

    def _model(self, directed, n, edges, weights, variant):
        arcs = {}
        for e in edges:
            w = weights[e] if weights is not None else 1
            arcs[e] = w
            if not directed:
                arcs[(e[1], e[0])] = w
        return RefGraph(n, directed, arcs, weights_defined=(variant != "ed"))

    def _construct(self, root, directed, troot, cls, variant, n, edges, weights, pts, mode, opts=None):
        klass = self._classes(directed, troot, cls)
        how, arg = self._ctor_args(directed, variant, n, edges, weights)
        refused = None
        try:
            g = self._instantiate(klass, how, arg, n, pts, troot, opts=opts)
        except ValueError as ex:
            if troot is None:
                raise
            g, refused = None, ex  # reported by the ("built",) letter
        return {
            "root": root,
            "g": g,
            "refused": refused,
            "m": self._model(directed, n, edges, weights, variant),
            "pts": pts,
            "cls": klass.__name__,
            "troot": troot,
            "mode": mode,
            "ctor": (how, arg, cls),
            "family": False,
            "zeros": "built" if variant in ("az", "az1") else None,
        }

    # ---- families
    @staticmethod
    def _family_edges(name, size, extra, kind):
        """canonical edge list (arcs for D / T) of a family member and its vertex count."""
        if name == "grid":
            R, C = size // 100, size % 100
            n = R * C
            e = []
            for i in range(R):
                for j in range(C):
                    v = i * C + j
                    if j + 1 < C:
                        e.append((v, v + 1))
                    if i + 1 < R:
                        e.append((v, v + C))
            if kind == "D":
                e = e + [(b, a) for (a, b) in e]
            return n, sorted(e)
        n = size
        if name == "chain":
            e = [(i, i + 1) for i in range(n - 1)]
        elif name == "cycle":
            e = [(i, i + 1) for i in range(n - 1)] + [(n - 1, 0)]
            if kind == "U":
                e = sorted(set((min(a, b), max(a, b)) for (a, b) in e))
        elif name == "star":
            e = [(extra, v) for v in range(n) if v != extra]
            if kind == "U":
                e = [(min(a, b), max(a, b)) for (a, b) in e]
        elif name == "complete":
            e = [(i, j) for i in range(n) for j in range(i + 1, n)]
        elif name == "empty":
            e = []
        elif name == "binary":
            e = [((i - 1) // 2, i) for i in range(1, n)]
        else:
            raise ValueError(name)
        return n, sorted(e)

    def _build_family(self, root):
        import menpo.shape as ms

        _, name, size, extra, kind, cls, variant, mode = root
        n, edges = self._family_edges(name, size, extra, kind)
        directed = kind in ("D", "T")
        troot = (extra if name == "star" else 0) if kind == "T" else None
        pts = self._points(n, ("F", name, size), d=3 if name in ("star", "binary") else 2)
        klass = self._classes(directed, troot, cls)
        if variant == "gopt":
            from scipy.sparse import csr_matrix

            sp, adj, k = GRID_OPTIONS[extra]
            lattice = np.zeros((n, n))
            for (a, b) in edges:
                lattice[a, b] = lattice[b, a] = 1
            g = klass.init_2d_grid(
                (size // 100, size % 100),
                spacing={"none": None, "2": 2, "2x3": (2, 3)}[sp],
                adjacency_matrix=csr_matrix(lattice) if adj else None,
                skip_checks=k,
            )
            return {
                "root": root, "g": g, "m": self._model(directed, n, edges, None, variant), "pts": np.array(g.points, copy=True),
                "cls": klass.__name__, "troot": None, "mode": mode, "ctor": None, "family": True, "refused": None,
            }
        if variant == "pre":
            shape = ms.PointCloud(pts.copy())
            if name == "chain":
                g = ms.chain_graph(shape, klass, closed=False)
            elif name == "cycle":
                g = ms.chain_graph(shape, klass, closed=True)
            elif name == "star":
                g = ms.star_graph(shape, extra, klass)
            elif name == "complete":
                g = ms.complete_graph(shape, klass)
            elif name == "empty":
                g = ms.empty_graph(shape, return_pointgraph=(cls == "P"))
            elif name == "grid":
                g = klass.init_2d_grid((size // 100, size % 100))
                pts = np.array(g.points, copy=True)  # the grid coordinates are C20's business, the graph is ours
            else:
                raise ValueError(root)
            st = {
                "root": root,
                "g": g,
                "m": self._model(directed, n, edges, None, variant),
                "pts": pts if cls == "P" else None,
                "cls": klass.__name__,
                "troot": troot,
                "mode": mode,
                "ctor": None,
                "family": True,
                "refused": None,
            }
            return st
        weights = self._weights(edges, ("F", name, size, kind)) if variant in WEIGHTED else None
        st = self._construct(root, directed, troot, cls, variant, n, edges, weights, pts if cls == "P" else None, mode)
        st["family"] = True
        return st

    # ------------------------------------------------------------------------------------------ canon
    def canon(self, st):
        if st["g"] is None:
            return (st["cls"], st["m"].key(), st["troot"], "refused")
        return (st["cls"], st["m"].key(), st["troot"], obs_key(observe(st["g"])))

    def is_query(self, op):
        return op[0] not in ("mask", "zero")

    # ------------------------------------------------------------------------------------------ alphabet
    @staticmethod
    def _tol(m, unweighted=False):
        """absolute tolerance for sums of weights of this graph: 0 (exact) for integer-valued weights and hop counts,
        else 1e-12 x the sum of the magnitudes (>= 1000 x the rounding of such sums, relative to the data)."""
        if unweighted:
            return 0.0
        vals = [abs(float(w)) for w in m.w.values()]
        if all(v == int(v) and v < 2.0 ** 40 for v in vals):
            return 0.0
        return 1e-12 * sum(vals)

    @staticmethod
    def _eq(a, b, tol):
        return a == b or abs(a - b) <= tol

    @staticmethod
    def _meq(A, B, tol):
        A, B = np.asarray(A, dtype=float), np.asarray(B, dtype=float)
        if tol == 0:
            return np.array_equal(A, B)
        if A.shape != B.shape or not np.array_equal(np.isinf(A), np.isinf(B)):
            return False
        fin = ~np.isinf(A)
        return bool(np.all(np.abs(A[fin] - B[fin]) <= tol))

    @staticmethod
    def _wsp_ok(m):
        """weighted shortest paths are defined: no negative weight, or a digraph without any cycle (an undirected
        negative edge, or a negative weight on a directed cycle, may make the distance unbounded)."""
        return m.weights_defined and (all(w > 0 for w in m.w.values()) or (m.directed and not m.has_cycle()))

    def _csgraph_ok(self, st):
        z = st.get("zeros")
        if z == "assigned":
            return ZOP_CSGRAPH_OPS
        if z == "built":
            return ZERO_WEIGHT_CSGRAPH_OPS
        return True

    def _sp_letters(self, st):
        """(algorithm, unweighted, skip_checks) letters of find_shortest_path for this state.
        Full cross product on the weighted letters of the small scope (abstract classes); all PAIRS of option values elsewhere
        (unit-weight letters, families, argument-form roots, the largest thorough scope)."""
        m = st["m"]
        small = st["root"][0] in ("U", "D", "T", "B") and not self._largest_scope(st)
        weighted = st["root"][-2] in WEIGHTED
        abstract = not st["cls"].startswith("Point")  # the point-carrying classes inherit the method unchanged
        letters = SP_PRODUCT if (small and weighted and abstract) else SP_PAIRS
        if st["root"][0] == "X":
            letters = [("auto", False, False), ("auto", True, False)]  # argument forms vary one argument, options stay at their defaults
        wok = self._wsp_ok(m)
        neg = any(w < 0 for w in m.w.values())
        out = []
        for (a, u, k) in letters:
            if not u and (not wok or (neg and a == "D")):
                continue  # weighted distances undefined here / Dijkstra is not defined for negative weights
            out.append((a, u, k))
        return out

    @staticmethod
    def _largest_scope(st):
        """roots of the largest small-scope size (undirected n = 5, directed n = 4, trees n = 5): their second
        level is reduced (see ops) and they use the default shortest-path algorithm letter only."""
        r = st["root"]
        return (r[0] == "U" and r[1] == 5) or (r[0] == "D" and r[1] == 4) or (r[0] == "T" and r[1] == 5)

    def _mst_roots(self, st):
        n = st["m"].n
        if not st["family"] or n <= 12:
            return list(range(n))
        return sorted(set([0, 1, n // 3, n // 2, n - 2, n - 1]))

    def _mask_letters(self, st):
        n = st["m"].n
        if not st["family"] or n <= 5:
            return list(range(2 ** n))
        full = 2 ** n - 1
        out = [full, 0]
        out += [full & ~(1 << v) for v in range(n)]  # drop each single vertex
        even = sum(1 << v for v in range(0, n, 2))
        out += [even, full & ~even]
        half = 2 ** (n // 2) - 1
        out += [half, full & ~half]
        out += [sum(1 << v for v in range(n) if v % 3 != 1), 1, 1 << (n - 1), 0b11 << (n // 2)]
        seen, res = set(), []
        for b in out:
            if b not in seen:
                seen.add(b)
                res.append(b)
        return res

    def ops(self, st, level):
        m = st["m"]
        n = m.n
        mode = st["mode"]
        is_tree_obj = st["troot"] is not None
        if st["g"] is None:
            return [("built",)]
        out = [("built",), ("static",)]
        if is_tree_obj:
            out.append(("tree",))
        if mode == "full" and not self._csgraph_ok(st):
            mode = "lite"
        astree = m.directed and not is_tree_obj and level == 0 and n >= 2 and st["ctor"] is not None and self._csgraph_ok(st)
        if level == 0 and mode != "static" and st.get("vc", int) is int:
            # just outside the vertex range [0, n-1] and the mask length n
            out += [("oor", -1), ("oor", n)]
            if st["cls"].startswith("Point"):
                out += [("masklen", n - 1), ("masklen", n + 1)]
        if level == 0 and st["root"][0] == "F" and st["root"][1] == "chain" and st["root"][6] == "pre" and is_tree_obj:
            out.append(("closed-tree",))  # chain_graph: graph_cls x closed - the documented refusal of the combination
        if level == 0 and st["root"][0] == "B" and st["root"][6] == "zop":
            out += [("zero", a, b) for (a, b) in m.edge_list()]
        second_mask = True
        if level >= 1 and (self._largest_scope(st) or (st["family"] and st["root"][2] > 12)):
            # reduced second level for the largest scopes: the queries are repeated on the results that lost
            # exactly one vertex (every graph one size smaller is among them), weighted-csr letter only,
            # and no mask of a mask (both are explored completely from the next smaller scope)
            n0 = st["root"][1] if not st["family"] else None
            if st["family"] or st["root"][-2] != "ac" or n != n0 - 1:
                return out
            second_mask = False
        if mode == "form":
            if level >= 1:
                return out
            few = list(range(n)) if n <= 5 else sorted(set([0, n // 2, n - 1]))
            if n <= 5:
                pairs = [(s, e) for s in range(n) for e in range(n)]
            else:
                pairs = [(0, n - 1), (n - 1, 0), (0, 1), (n // 2, n // 2), (1, n // 3), (n // 3, n - 2), (n - 2, n // 2), (n // 2, 0), (7, n - 3), (n - 1, n - 1)]
            for s, e in pairs:
                out.append(("path", s, e))
                for alg, unw, k in self._sp_letters(st):
                    out.append(("sp", s, e, alg, unw, k))
            if not m.directed:
                for r in few:
                    out.append(("mst", r))
            if astree:
                for r in few:
                    out.append(("astree", r))
            if st["cls"].startswith("Point"):
                full = 2 ** n - 1
                even = sum(1 << v for v in range(0, n, 2))
                for b in [full, full & ~1, full & ~(1 << (n - 1)), full & ~(1 << (n // 2)), even, 2 ** (n // 2 + 1) - 1]:
                    out.append(("mask", b))
            return out
        if mode == "full":
            pairs = [(s, e) for s in range(n) for e in range(n)]
            # find_path / find_shortest_path are inherited unchanged by the point-carrying classes: at the largest
            # scope they are explored on the abstract class of every graph and, for the point-carrying class, on
            # the results of its masks (second level) only
            if not (level == 0 and self.tier == "thorough" and self._largest_scope(st) and st["root"][0] != "T" and st["cls"].startswith("Point")):
                for s, e in pairs:
                    out.append(("path", s, e))
                for alg, unw, k in self._sp_letters(st):
                    for s, e in pairs:
                        out.append(("sp", s, e, alg, unw, k))
            if not m.directed:
                for r in self._mst_roots(st):
                    out.append(("mst", r))
        if astree:
            for r in range(n):
                out.append(("astree", r))
        if mode != "static" and second_mask and st["cls"].startswith("Point"):
            for b in self._mask_letters(st):
                out.append(("mask", b))
        return out

    # ------------------------------------------------------------------------------------------ step
    def apply(self, st, op, verify=True):
        k = op[0]
        self._vc = st.get("vc", int)
        self._dist_ok = self._csgraph_ok(st)
        self._opt_product = k in ("static", "tree") and self._dist_ok and st["root"][0] != "X" and st["m"].n <= 12
        if k == "mask":
            return self._op_mask(st, op[1], verify)
        if k == "zero":
            return self._op_zero(st, op[1], op[2], verify)
        if not verify:
            return []
        if k == "closed-tree":
            import menpo.shape as ms

            klass = ms.PointTree if st["cls"] == "PointTree" else ms.Tree
            try:
                t = ms.chain_graph(ms.PointCloud(self._points(st["m"].n, "closed-tree")), klass, closed=True)
            except ValueError:
                self.note("closed-tree:refused")
                return []
            return [Failure("chain_graph", "closed-chain-as-tree", "chain_graph(%d points, %s, closed=True) returned %r" % (st["m"].n, klass.__name__, t))]
        if k == "oor":
            return self._op_oor(st, op[1])
        if k == "masklen":
            return self._op_masklen(st, op[1])
        if k == "built":
            return self._op_built(st)
        if k == "static":
            f = self._static(st["g"], st["m"], st["pts"], st["cls"], "queries")
            self.note("static:%s" % ("ok" if not f else "fail"))
            if st.get("scale") and st["ctor"] is not None:
                f = f + self._scale_equivariance(st)
                if not f:
                    self.note("scale-ok:%s:%s" % (st["scale"][0], st["root"][1]))
            if st["root"][0] == "F" and st["m"].n == LARGE_SIZE and not f:
                self.note("large-size:%s:ok" % st["cls"])
            if st["root"][0] == "O" and not f:
                c, k2 = CTOR_OPTIONS[st["root"][7]]
                self.note("ctor-opt:%s:%s:%s:copy=%s:skip_checks=%s" % (st["root"][1], st["root"][5], st["root"][6], c, k2))
            if st["root"][0] == "F" and st["root"][6] == "gopt" and not f:
                self.note("grid-opt:%s:%s:%s:%s" % ((st["root"][4],) + tuple(str(x) for x in GRID_OPTIONS[st["root"][3]])))
            if st["root"][0] == "B" and not f:
                self.note("bnd-ok:%s:%s" % (st["root"][6], st["root"][1]))
            if st["root"][0] == "F" and not f and st["m"].n == 1:
                self.note("bnd-ok:one-vertex-family:%s" % st["cls"])
            if st["root"][0] == "X" and not f:
                self.note("form-ok:%s:%s:%s" % (st["root"][6], st["root"][7], "n>12" if st["m"].n > 12 else "small"))
            return f
        if k == "tree":
            return self._tree(st["g"], st["m"], st["troot"], "tree-queries")
        if k == "path":
            return self._op_path(st, op[1], op[2])
        if k == "sp":
            return self._op_sp(st, op[1], op[2], op[3], op[4], op[5] if len(op) > 5 else False)
        if k == "mst":
            return self._op_mst(st, op[1])
        if k == "astree":
            return self._op_astree(st, op[1])
        raise ValueError(op)

    def _known(self, st, fid, where, clause, detail):
        """an open finding whose footprint matched: returned as a Failure the first time per root (the
        explorer keeps only a few failures per root; the rest are counted in the notes)."""
        self.note("known:%s" % fid)
        key = (st["root"], fid)
        if key in self._reported:
            return []
        self._reported.add(key)
        return [Failure(where, clause, detail, finding=fid)]

    def _refused_tree(self, st, where, ctx, exc):
        """a valid rooted tree was refused by the (checked) Tree / PointTree constructor: always a failure."""
        return [Failure(where, "refused-tree", "%s is a tree rooted there but was refused: %r" % (ctx, exc))]

    def _op_built(self, st):
        if st["refused"] is None:
            self.note("built:ok")
            if st["root"][0] == "X":
                self.note("form-built:%s:%s" % (st["root"][6], st["root"][7]))
            return []
        m = st["m"]
        ctx = "%s(n=%d, arcs %r, root %d) [letter %s]" % (st["cls"], m.n, m.edge_list(), st["troot"], st["root"][-2])
        return self._refused_tree(st, "Tree-constructor", ctx, st["refused"])

    # ---- static consistency of every query with the edge set
    def _static(self, g, m, pts, cls_name, where):
        F = []
        n = m.n

        def bad(clause, detail):
            F.append(Failure(where, clause, "%s %s" % (cls_name, detail)))

        if type(g).__name__ != cls_name:
            bad("class", "result is a %s" % type(g).__name__)
            return F
        if int(g.n_vertices) != n or _ints(g.vertices) != list(range(n)):
            bad("vertices", "expected %d vertices, n_vertices=%r vertices=%r" % (n, g.n_vertices, list(g.vertices)))
            return F
        # edges: exactly the edge set, each (undirected) edge once
        E = np.asarray(g.edges)
        exp = m.edge_list()
        if E.ndim != 2 or E.shape[1] != 2:
            bad("edges", "edges has shape %r" % (E.shape,))
            return F
        got = [(int(a), int(b)) for a, b in E]
        norm = sorted(got) if m.directed else sorted((min(a, b), max(a, b)) for a, b in got)
        if norm != exp:
            bad("edges", "edges %r, expected exactly %r" % (got, exp))
        if int(g.n_edges) != len(exp):
            bad("n_edges", "n_edges %r, expected %d" % (g.n_edges, len(exp)))
        if len(got) > len(set(norm)):
            self.note("static:edge-reported-twice")
        # adjacency matrix: pattern (and weights), symmetric for undirected graphs
        A = np.asarray(g.adjacency_matrix.todense())
        if A.shape != (n, n):
            bad("adjacency", "adjacency matrix has shape %r" % (A.shape,))
            return F
        pattern = sorted((int(a), int(b)) for a, b in zip(*np.nonzero(A)))
        if pattern != sorted(m.w):
            bad("adjacency", "non-zeros %r, expected %r" % (pattern, sorted(m.w)))
        elif m.weights_defined and any(A[a, b] != w for (a, b), w in m.w.items()):
            bad("adjacency-weights", "weights %r, expected %r" % (A.tolist(), sorted(m.w.items())))
        if not m.directed and not np.array_equal(A, A.T):
            bad("adjacency-symmetry", "adjacency of an undirected graph is not symmetric: %r" % (A.tolist(),))
        # per-vertex relations
        for v in range(n):
            if m.directed:
                ch = _ints(g.children(self._vc(v)))
                pa = _ints(g.parents(self._vc(v)))
                if sorted(ch) != m.out[v] or len(ch) != len(m.out[v]):
                    bad("children", "children(%d)=%r expected %r" % (v, ch, m.out[v]))
                if sorted(pa) != m.inn[v] or len(pa) != len(m.inn[v]):
                    bad("parents", "parents(%d)=%r expected %r" % (v, pa, m.inn[v]))
                if g.n_children(self._vc(v)) != len(m.out[v]) or g.n_parents(self._vc(v)) != len(m.inn[v]):
                    bad("n_children/n_parents", "vertex %d: %r/%r expected %d/%d" % (v, g.n_children(self._vc(v)), g.n_parents(self._vc(v)), len(m.out[v]), len(m.inn[v])))
            else:
                nb = _ints(g.neighbours(self._vc(v)))
                if sorted(nb) != m.out[v] or len(nb) != len(m.out[v]):
                    bad("neighbours", "neighbours(%d)=%r expected %r" % (v, nb, m.out[v]))
                if g.n_neighbours(self._vc(v)) != len(m.out[v]):
                    bad("n_neighbours", "n_neighbours(%d)=%r expected %d" % (v, g.n_neighbours(self._vc(v)), len(m.out[v])))
        iso = sorted(_ints(g.isolated_vertices()))
        if iso != m.isolated() or bool(g.has_isolated_vertices()) != bool(m.isolated()):
            bad("isolated", "isolated_vertices %r (has=%r) expected %r" % (iso, g.has_isolated_vertices(), m.isolated()))
        self.note("static:isolated-%s" % ("some" if m.isolated() else "none"))
        al = g.get_adjacency_list()
        if len(al) != n or any(sorted(_ints(al[v])) != m.out[v] or len(al[v]) != len(m.out[v]) for v in range(min(n, len(al)))):
            bad("adjacency_list", "adjacency list %r expected %r" % ([_ints(x) for x in al], m.out))
        for a in range(n):
            for b in range(n):
                if bool(g.is_edge(self._vc(a), self._vc(b))) != ((a, b) in m.w):
                    bad("is_edge", "is_edge(%d, %d)=%r expected %r" % (a, b, bool(g.is_edge(self._vc(a), self._vc(b))), (a, b) in m.w))
        # cycle and tree tests
        cyc = m.has_cycle()
        got_c = bool(g.has_cycles())
        self.note("has_cycles:%s" % cyc)
        if got_c != cyc:
            bad("has_cycles", "has_cycles()=%r, colouring DFS says %r (edges %r)" % (got_c, cyc, exp))
        got_t = bool(g.is_tree())
        if not m.directed:
            ref_t = m.underlying_is_tree()
            self.note("is_tree:undirected-%s" % ref_t)
            if got_t != ref_t:
                bad("is_tree", "is_tree()=%r on an undirected graph that is %sa tree (edges %r)" % (got_t, "" if ref_t else "not ", exp))
        else:
            # [interp] flagged only if it contradicts every textbook reading
            if got_t and not m.underlying_is_tree():
                bad("is_tree", "is_tree()=True although the underlying undirected graph is not a tree (n=%d arcs %r)" % (n, exp))
            elif not got_t and m.arborescence_roots():
                bad("is_tree", "is_tree()=False on an arborescence (n=%d arcs %r)" % (n, exp))
            else:
                if m.arborescence_roots():
                    tag = "arborescence-True"
                elif m.underlying_is_tree():
                    tag = "polytree-%s-tolerated" % got_t
                else:
                    tag = "nontree-False"
                self.note("is_tree:directed-%s" % tag)
        # all-pairs distances
        if not self._dist_ok:
            return self._static_points(g, m, pts, F, bad)
        if self._wsp_ok(m):
            D = np.asarray(g.find_all_shortest_paths()[0], dtype=float)
            if not self._meq(D, m.dist(False), self._tol(m)):
                bad("all-shortest-distances", "distance matrix %r expected %r" % (D.tolist(), m.dist(False).tolist()))
        Du = np.asarray(g.find_all_shortest_paths(unweighted=True)[0], dtype=float)
        if not np.array_equal(Du, m.dist(True)):
            bad("all-shortest-distances", "unweighted distance matrix %r expected %r" % (Du.tolist(), m.dist(True).tolist()))
        if self._opt_product:
            self._static_options(g, m, bad)
        return self._static_points(g, m, pts, F, bad)

    def _static_options(self, g, m, bad):
        """option cross products of the read-only queries: find_all_shortest_paths(algorithm x unweighted), each
        option given explicitly, with the predecessor matrix; every per-vertex query with skip_checks=True."""
        n = m.n
        V = self._vc
        neg = any(w < 0 for w in m.w.values())
        for alg in SP_ALGORITHMS:
            for unw in (False, True):
                if not unw and (not self._wsp_ok(m) or (neg and alg == "D")):
                    continue
                dist, pred = g.find_all_shortest_paths(algorithm=alg, unweighted=unw)
                ref = m.dist(unw)
                self.note("allsp-letter:%s:%s" % (alg, "unweighted" if unw else "weighted"))
                if not self._meq(dist, ref, self._tol(m, unw)):
                    bad("all-shortest-distances", "find_all_shortest_paths(algorithm=%r, unweighted=%r) distances %r expected %r (weights %r)" % (alg, unw, np.asarray(dist).tolist(), ref.tolist(), sorted(m.w.items())))
                    continue
                if n > 12:
                    continue
                for s_ in range(n):
                    for e_ in range(n):
                        if s_ == e_ or ref[s_, e_] == INF:
                            if int(pred[s_, e_]) >= 0:
                                bad("all-shortest-predecessors", "find_all_shortest_paths(%r, unweighted=%r): predecessor[%d, %d] = %r for %s" % (alg, unw, s_, e_, pred[s_, e_], "start == end" if s_ == e_ else "an unreachable end"))
                            continue
                        route, guard = [e_], 0
                        while route[-1] != s_ and guard <= n:
                            route.append(int(pred[s_, route[-1]]))
                            guard += 1
                        route.reverse()
                        prob = m.route_problem(route, s_, e_)
                        if prob or not self._eq(m.route_length(route, unw), ref[s_, e_], self._tol(m, unw)):
                            bad("all-shortest-predecessors", "find_all_shortest_paths(%r, unweighted=%r): predecessors give route %r from %d to %d (%s), distance %r (weights %r)" % (alg, unw, route, s_, e_, prob or "not shortest", ref[s_, e_], sorted(m.w.items())))
        for v in range(n):
            if m.directed:
                if sorted(_ints(g.children(V(v), skip_checks=True))) != m.out[v] or sorted(_ints(g.parents(V(v), skip_checks=True))) != m.inn[v]:
                    bad("children", "children / parents(%d, skip_checks=True) = %r / %r expected %r / %r" % (v, g.children(V(v), skip_checks=True), g.parents(V(v), skip_checks=True), m.out[v], m.inn[v]))
                if g.n_children(V(v), skip_checks=True) != len(m.out[v]) or g.n_parents(V(v), skip_checks=True) != len(m.inn[v]):
                    bad("n_children/n_parents", "vertex %d with skip_checks=True" % v)
            else:
                if sorted(_ints(g.neighbours(V(v), skip_checks=True))) != m.out[v] or g.n_neighbours(V(v), skip_checks=True) != len(m.out[v]):
                    bad("neighbours", "neighbours(%d, skip_checks=True) = %r expected %r" % (v, g.neighbours(V(v), skip_checks=True), m.out[v]))
            for b in range(n):
                if bool(g.is_edge(V(v), V(b), skip_checks=True)) != ((v, b) in m.w):
                    bad("is_edge", "is_edge(%d, %d, skip_checks=True) = %r" % (v, b, bool(g.is_edge(V(v), V(b), skip_checks=True))))
        self.note("skip-checks-queries:done")

    @staticmethod
    def _static_points(g, m, pts, F, bad):
        n = m.n
        # points travel with the vertices
        if pts is not None:
            P = np.asarray(g.points)
            if P.shape != pts.shape or not np.array_equal(P, pts):
                bad("points", "points %r expected %r" % (P.tolist(), pts.tolist()))
            if int(g.n_points) != n:
                bad("points", "n_points %r expected %d" % (g.n_points, n))
        return F

    # ---- rooted-tree relations against the reference BFS
    def _tree(self, t, m, troot, where):
        F = []

        def bad(clause, detail):
            F.append(Failure(where, clause, "%s root %r arcs %r: %s" % (type(t).__name__, troot, m.edge_list(), detail)))

        n = m.n
        if int(t.root_vertex) != troot:
            bad("root", "root_vertex %r" % (t.root_vertex,))
            return F
        parent, depth = m.bfs(troot)
        if any(d is None for d in depth) or len(m.w) != n - 1:
            bad("not-a-rooted-tree", "the edges do not form a tree rooted there")
            return F
        children = [sorted(c for c in range(n) if parent[c] == v) for v in range(n)]
        for v in range(n):
            p = t.parent(self._vc(v))
            p = None if p is None else int(p)
            if p != parent[v]:
                bad("parent", "parent(%d)=%r expected %r" % (v, p, parent[v]))
            ps = _ints(t.parents(self._vc(v)))
            if ps != ([] if parent[v] is None else [parent[v]]):
                bad("parent", "parents(%d)=%r expected %r" % (v, ps, parent[v]))
            ch = sorted(_ints(t.children(self._vc(v))))
            if ch != children[v]:
                bad("children", "children(%d)=%r expected %r" % (v, ch, children[v]))
            for c in ch:
                pc = t.parent(self._vc(c))
                if pc is None or int(pc) != v:
                    bad("parent-children-inverse", "%d is a child of %d but parent(%d)=%r" % (c, v, c, pc))
            if int(t.depth_of_vertex(self._vc(v))) != depth[v]:
                bad("depth", "depth_of_vertex(%d)=%r expected %d" % (v, t.depth_of_vertex(self._vc(v)), depth[v]))
            if bool(t.is_leaf(self._vc(v))) != (not children[v]):
                bad("leaf", "is_leaf(%d)=%r but children %r" % (v, t.is_leaf(self._vc(v)), children[v]))
            if self._opt_product:
                ps = t.parent(self._vc(v), skip_checks=True)
                if (None if ps is None else int(ps)) != parent[v] or int(t.depth_of_vertex(self._vc(v), skip_checks=True)) != depth[v] or bool(t.is_leaf(self._vc(v), skip_checks=True)) != (not children[v]):
                    bad("skip_checks", "parent / depth_of_vertex / is_leaf(%d, skip_checks=True) = %r / %r / %r" % (v, ps, t.depth_of_vertex(self._vc(v), skip_checks=True), t.is_leaf(self._vc(v), skip_checks=True)))
        pl = [None if p is None else int(p) for p in t.predecessors_list]
        if pl != parent:
            bad("parent", "predecessors_list %r expected %r" % (pl, parent))
        leaves = [v for v in range(n) if not children[v]]
        if sorted(_ints(t.leaves)) != leaves or int(t.n_leaves) != len(leaves):
            bad("leaf", "leaves %r (n_leaves %r) expected %r" % (_ints(t.leaves), t.n_leaves, leaves))
        maxd = max(depth)
        if int(t.maximum_depth) != maxd:
            bad("depth", "maximum_depth %r expected %d" % (t.maximum_depth, maxd))
        for d in range(maxd + 2):
            ref = [v for v in range(n) if depth[v] == d]
            got = sorted(_ints(t.vertices_at_depth(d)))
            if got != ref or int(t.n_vertices_at_depth(d)) != len(ref):
                bad("depth", "vertices_at_depth(%d)=%r (n=%r) expected %r" % (d, got, t.n_vertices_at_depth(d), ref))
        self.note("tree:%s-depth%s" % ("ok" if not F else "fail", min(maxd, 3)))
        return F

    # ---- paths
    def _op_path(self, st, s, e):
        g, m = st["g"], st["m"]
        F = []
        reach = m.dist(True)[s, e] < INF
        for method, skip in PATH_PRODUCT:
            route = _ints(g.find_path(self._vc(s), self._vc(e), method=method, skip_checks=skip))
            self.note("path-letter:%s:%s" % (method, "skip" if skip else "checked"))
            if s == e:
                if route == [s]:
                    self.note("find_path:start==end-trivial")
                elif route == []:
                    F += self._known(st, "D23", "find_path+find_shortest_path", "start==end", "find_path(%d, %d, %s) = [] although every vertex reaches itself" % (s, e, method))
                else:
                    F.append(Failure("find_path", "start==end-wrong-answer", "find_path(%d, %d, %s) = %r" % (s, e, method, route)))
            elif not reach:
                self.note("find_path:unreachable")
                if route != []:
                    F.append(Failure("find_path", "path-to-unreachable", "%s arcs %r: find_path(%d, %d, %s) = %r but %d is not reachable" % (st["cls"], m.edge_list(), s, e, method, route, e)))
            else:
                self.note("find_path:reachable")
                prob = "no path returned" if not route else m.route_problem(route, s, e)
                if prob:
                    F.append(Failure("find_path", "invalid-path", "%s arcs %r: find_path(%d, %d, %s) = %r: %s" % (st["cls"], m.edge_list(), s, e, method, route, prob)))
        # every simple path (only where the enumeration is small)
        if m.n <= 5 or len(m.pairs()) <= m.n:
            ref = m.simple_paths(s, e)
            for label, kw in (("omitted", {}), ("empty", {"path": []}), ("none", {"path": None})):  # the optional path prefix, given explicitly
                got = [tuple(_ints(p)) for p in g.find_all_paths(self._vc(s), self._vc(e), **kw)]
                if sorted(got) != ref:
                    F.append(Failure("find_all_paths", "simple-paths", "%s arcs %r: find_all_paths(%d, %d, path %s) = %r expected %r" % (st["cls"], m.edge_list(), s, e, label, got, ref)))
            if int(g.n_paths(self._vc(s), self._vc(e))) != len(ref):
                F.append(Failure("find_all_paths", "n_paths", "n_paths(%d, %d) = %r expected %d" % (s, e, g.n_paths(self._vc(s), self._vc(e)), len(ref))))
            self.note("find_all_paths:%s" % ("none" if not ref else "one" if len(ref) == 1 else "several"))
        return F

    def _op_sp(self, st, s, e, alg, unw, skip=False):
        g, m = st["g"], st["m"]
        res = g.find_shortest_path(self._vc(s), self._vc(e), algorithm=alg, unweighted=unw, skip_checks=skip)
        route, cost = _ints(res[0]), float(res[1])
        D = m.dist(unw)  # the reference takes the same options: unweighted selects the metric, the algorithm and skip_checks must not matter
        self.note("sp-letter:%s:%s:%s" % (alg, "unweighted" if unw else "weighted", "skip" if skip else "checked"))
        ctx = "%s arcs %r: find_shortest_path(%d, %d, algorithm=%r, unweighted=%r, skip_checks=%r) = (%r, %r)" % (
            st["cls"], sorted(m.w.items()), s, e, alg, unw, skip, route, cost)
        if s == e:
            if route == [s] and cost == 0:
                self.note("sp:start==end-trivial")
                return []
            if route == [] and cost == INF:
                return self._known(st, "D23", "find_path+find_shortest_path", "start==end", ctx + " although every vertex reaches itself at cost 0")
            return [Failure("find_shortest_path", "start==end-wrong-answer", ctx)]
        if D[s, e] == INF:
            self.note("sp:unreachable")
            if route != [] or cost != INF:
                return [Failure("find_shortest_path", "path-to-unreachable", ctx + " but the end is unreachable")]
            return []
        prob = "no route returned" if not route else m.route_problem(route, s, e)
        if prob:
            return [Failure("find_shortest_path", "invalid-route", ctx + ": " + prob)]
        length = m.route_length(route, unw)
        tol = self._tol(m, unw)
        if not self._eq(length, D[s, e], tol):
            return [Failure("find_shortest_path", "route-not-shortest", ctx + ": the route weighs %r, Floyd-Warshall distance is %r" % (length, D[s, e]))]
        hops = min(len(route) - 1, 4)
        if st.get("scale") and not unw:
            self.note("scale-sp:%s" % st["scale"][0])
        if unw and self._wsp_ok(m) and m.route_length(route, False) > m.dist(False)[s, e] + self._tol(m):
            self.note("sp:fewest-edges-route-is-not-the-lightest:%s" % alg)
        if st.get("zeros") == "built":
            self.note("sp:stored-zero-letter")
        if not unw and any(w < 0 for w in m.w.values()):
            self.note("sp:negative-weights-%s" % ("negative-distance" if D[s, e] < 0 else "other"))
        if self._eq(cost, D[s, e], tol):
            self.note("sp:cost-ok-%dedges" % hops)
            return []
        # D11 footprint: the returned cost is the sum over the route (end excluded: the loop of the real code
        # adds dist(start, v) for every predecessor v it walks through) of the distances from the start
        defect = float(sum(D[s, v] for v in route[:-1]))
        if self._eq(cost, defect, tol):
            self.note("sp:cost-D11-%dedges" % hops)
            return self._known(st, "D11", "find_shortest_path", "cost", ctx + ": cost should be %r (sum of cumulative distances returned)" % (D[s, e],))
        return [Failure("find_shortest_path", "cost", ctx + ": cost should be %r" % (D[s, e],))]

    # ---- minimum spanning tree
    def _op_mst(self, st, r):
        g, m = st["g"], st["m"]
        n = m.n
        try:
            t, exc = g.minimum_spanning_tree(self._vc(r)), None
        except ValueError as ex:
            t, exc = None, ex
        if n == 1 or m.n_components() != 1:
            # [interp] a spanning tree exists only for connected graphs; a single vertex cannot be a menpo Tree
            self.note("mst:not-judged-%s-%s" % ("single-vertex" if n == 1 else "isolated" if m.isolated() else "disconnected", "raised" if exc else "returned"))
            return []
        where = "minimum_spanning_tree"
        ctx = "%s edges %r root %d" % (st["cls"], sorted((a, b, w) for (a, b), w in m.w.items() if a < b), r)
        if exc is not None:
            return [Failure(where, "raised-on-connected-graph", "%s: %r" % (ctx, exc))]
        want = "PointTree" if st["cls"].startswith("Point") else "Tree"
        if type(t).__name__ != want:
            return [Failure(where, "class", "%s: returned a %s" % (ctx, type(t).__name__))]
        E = [(int(a), int(b)) for a, b in np.asarray(t.edges).reshape(-1, 2)]
        F = []
        if int(t.n_vertices) != n or len(E) != n - 1 or len(set(E)) != len(E):
            return [Failure(where, "not-spanning", "%s: tree has %r vertices and edges %r" % (ctx, t.n_vertices, E))]
        if any((a, b) not in m.w for a, b in E):
            return [Failure(where, "edge-not-in-graph", "%s: tree edges %r" % (ctx, E))]
        tm = RefGraph(n, True, {e: m.w[e] for e in E})
        if int(t.root_vertex) != r or not tm.is_arborescence(r):
            return [Failure(where, "not-a-tree-rooted-there", "%s: root_vertex %r, tree edges %r" % (ctx, t.root_vertex, E))]
        total = float(sum(m.w[e] for e in E))
        ref_total, cnt = m.kruskal()
        assert cnt == n - 1
        if not self._eq(total, ref_total, self._tol(m)):
            F.append(Failure(where, "weight", "%s: tree edges %r weigh %r, Kruskal %r" % (ctx, E, total, ref_total)))
        F += self._static(t, tm, st["pts"], want, where)
        F += self._tree(t, tm, r, where)
        self.note("mst:%s" % ("ok" if not F else "fail"))
        if not F and st.get("scale"):
            self.note("scale-mst:%s" % st["scale"][0])
        if not F and st.get("zeros") == "built":
            self.note("mst:stored-zero-letter")
        if not F and any(w < 0 for w in m.w.values()):
            self.note("mst:negative-weights-ok")
        if not F and len(set(m.w.values())) == 1 and len(m.w) > 2 * (n - 1):
            self.note("mst:all-weights-tied-ok")
        return F

    # ---- Tree(adjacency, root) on a digraph
    def _op_astree(self, st, r):
        import menpo.shape as ms

        m = st["m"]
        how, arg, cls = st["ctor"]
        klass = ms.PointTree if cls == "P" else ms.Tree
        try:
            if st.get("raw") is not None:
                t, exc = self._instantiate(klass, how, arg, st["raw"][0], st["raw"][1], self._vc(r), raw=True), None
            else:
                t, exc = self._instantiate(klass, how, arg, m.n, st["pts"], r), None
        except ValueError as ex:
            t, exc = None, ex
        ok = m.is_arborescence(r)
        ctx = "%s(n=%d, arcs %r, root %d)" % (klass.__name__, m.n, m.edge_list(), r)
        if not ok:
            # what the constructor does with edges that are not a tree rooted there is input validation,
            # which the property does not talk about: counted, not judged
            self.note("astree:non-tree-%s" % ("refused" if exc is not None else "accepted-not-judged"))
            return []
        if exc is not None:
            return self._refused_tree(st, "Tree-constructor", ctx, exc)
        self.note("astree:accepted")
        return self._static(t, m, st["pts"], klass.__name__, "Tree-constructor") + self._tree(t, m, r, "Tree-constructor")

    # ---- scale letters
    def _scale_equivariance(self, st):
        """distances of the graph with weights s * w are s * (distances for w): the base distances are computed
        exactly from the integer base weights, the comparison is relative to the magnitude of the scaled data."""
        letter, base = st["scale"]
        if letter not in SCALE_FACTOR:
            return []
        g, m = st["g"], st["m"]
        f = SCALE_FACTOR[letter]
        arcs = {}
        for e, w in base.items():
            arcs[e] = w
            if not m.directed:
                arcs[(e[1], e[0])] = w
        ref = RefGraph(m.n, m.directed, arcs).dist(False) * f
        got = np.asarray(g.find_all_shortest_paths()[0], dtype=float)
        self.note("scale-equivariance:%s" % letter)
        if not self._meq(got, ref, 1e-12 * f * sum(abs(w) for w in arcs.values())):
            return [Failure("queries", "scale-equivariance", "%s weights %r: distances %r are not %g x the distances %r of the base weights" % (st["cls"], sorted(m.w.items()), got.tolist(), f, (ref / f).tolist()))]
        return []

    # ---- boundary letters
    def _op_zero(self, st, a, b, verify):
        """remove the edge (a, b) by assigning 0 into the public adjacency matrix (documented: zero = non-edge)."""
        g, m = st["g"], st["m"]
        g.adjacency_matrix[a, b] = 0
        if not m.directed:
            g.adjacency_matrix[b, a] = 0
        arcs = {e: w for e, w in m.w.items() if e != (a, b) and (m.directed or e != (b, a))}
        m2 = RefGraph(m.n, m.directed, arcs, m.weights_defined)
        st.update(m=m2, zeros="assigned", ctor=None)
        if not verify:
            return []
        self._dist_ok = self._csgraph_ok(st)
        F = self._static(g, m2, st["pts"], st["cls"], "after-zero-assignment")
        self.note("zero-op:%s" % ("ok" if not F else "fail"))
        return F

    def _op_oor(self, st, v):
        """vertex numbers just outside [0, n-1]: every method documented to raise ValueError for them must do so."""
        g, m = st["g"], st["m"]
        V = self._vc
        inside = 0
        calls = [("is_edge-1", lambda: g.is_edge(V(v), V(inside))), ("is_edge-2", lambda: g.is_edge(V(inside), V(v))),
                 ("find_path-start", lambda: g.find_path(V(v), V(inside))), ("find_path-end", lambda: g.find_path(V(inside), V(v))),
                 ("find_shortest_path-start", lambda: g.find_shortest_path(V(v), V(inside))),
                 ("find_shortest_path-end", lambda: g.find_shortest_path(V(inside), V(v)))]
        if m.directed:
            calls += [("children", lambda: g.children(V(v))), ("parents", lambda: g.parents(V(v))),
                      ("n_children", lambda: g.n_children(V(v))), ("n_parents", lambda: g.n_parents(V(v)))]
        else:
            calls += [("neighbours", lambda: g.neighbours(V(v))), ("n_neighbours", lambda: g.n_neighbours(V(v)))]
        if st["troot"] is not None:
            calls += [("parent", lambda: g.parent(V(v))), ("depth_of_vertex", lambda: g.depth_of_vertex(V(v))), ("is_leaf", lambda: g.is_leaf(V(v)))]
        F = []
        for name, fn in calls:
            try:
                got = fn()
            except ValueError:
                continue
            F.append(Failure("vertex-out-of-range", name, "%s with %d vertices: %s with vertex %d returned %r instead of raising ValueError" % (st["cls"], m.n, name, v, got)))
        # find_all_paths documents no refusal: there is simply no path from / to a vertex that does not exist
        small = m.n <= 5 or len(m.pairs()) <= m.n  # towards a missing end the real code enumerates every simple path
        for s_, e_ in ((v, inside), (inside, v)) if small else ((v, inside),):
            got = g.find_all_paths(V(s_), V(e_))
            if len(got) != 0 or int(g.n_paths(V(s_), V(e_))) != 0:
                F.append(Failure("vertex-out-of-range", "find_all_paths", "%s with %d vertices: find_all_paths(%d, %d) = %r" % (st["cls"], m.n, s_, e_, got)))
        self.note("oor:%s:%s" % ("below" if v < 0 else "above", "refused" if not F else "fail"))
        return F

    def _op_masklen(self, st, length):
        g = st["g"]
        try:
            h = g.from_mask(np.ones(length, dtype=bool))
        except ValueError:
            self.note("masklen:%s:refused" % ("short" if length < st["m"].n else "long"))
            return []
        return [Failure("from_mask/%s" % st["cls"], "wrong-length-mask-accepted", "%d vertices, mask of length %d gave %r vertices" % (st["m"].n, length, h.n_vertices))]

    # ---- masking
    def _op_mask(self, st, bits, verify):
        g, m = st["g"], st["m"]
        n = m.n
        mask = _bits(bits, n)
        troot = st["troot"]
        where = "from_mask/%s" % st["cls"]
        try:
            h, exc = g.from_mask(self._mask_form(mask, st.get("mform"))), None
        except ValueError as ex:
            h, exc = None, ex
        ctx = "%s(n=%d, edges %r%s).from_mask(%r)" % (st["cls"], n, m.edge_list(), "" if troot is None else ", root %d" % troot, mask.astype(int).tolist())
        if not mask.any():
            # nothing survives: refused (a graph needs a vertex) or an empty graph
            if exc is None and int(h.n_vertices) != 0:
                return [Failure(where, "all-false-mask", "%s returned %d vertices" % (ctx, h.n_vertices))] if verify else []
            if verify:
                self.note("mask:all-false-%s" % ("raised" if exc else "empty"))
            return []
        if troot is not None and not mask[troot]:
            if exc is None:
                return [Failure(where, "root-removed-accepted", "%s returned a tree although its root was masked out" % ctx)] if verify else []
            if verify:
                self.note("mask:root-removed-raised")
            return []
        if troot is None:
            m2, keep = m.induced(mask)
            r2 = None
        else:
            m2, keep, r2 = m.tree_masked(mask, troot)
            if m2.n == 1:
                # [interp] only the root survives: menpo cannot represent a one-vertex tree
                if verify:
                    self.note("mask:tree-root-only-%s" % ("raised" if exc else "returned"))
                if exc is not None:
                    return []
            if verify:
                self.note("mask:tree-%s" % ("pruned" if len(keep) < int(mask.sum()) else "whole"))
        if exc is not None:
            if not verify:
                return []
            if troot is not None:
                return self._refused_tree(st, where, ctx + " (expected arcs %r root %d)" % (m2.edge_list(), r2), exc)
            return [Failure(where, "raised", "%s raised %r" % (ctx, exc))]
        pts2 = st["pts"][keep] if st["pts"] is not None else None
        F = []
        if verify:
            self.note("mask:%s" % ("all-true" if mask.all() else "proper"))
            if st.get("scale") and m2.w:
                self.note("scale-mask:%s" % st["scale"][0])
            F += self._static(h, m2, pts2, st["cls"], where)
            if r2 is not None and not F:
                F += self._tree(h, m2, r2, where)
        if not F:
            st.update(g=h, m=m2, pts=pts2, troot=r2, ctor=None)
        return F

    # ------------------------------------------------------------------------------------------ reporting
    def vacuity(self, notes, stats):
        need = [
            "static:ok",
            "static:isolated-some",
            "static:isolated-none",
            "has_cycles:True",
            "has_cycles:False",
            "is_tree:undirected-True",
            "is_tree:undirected-False",
            "is_tree:directed-arborescence-True",
            "is_tree:directed-nontree-False",
            "find_path:unreachable",
            "find_path:reachable",
            "find_all_paths:none",
            "find_all_paths:several",
            "sp:unreachable",
            "mst:ok",
            "mst:not-judged-isolated-raised",
            "astree:accepted",
            "astree:non-tree-refused",
            "built:ok",
            "tree:ok-depth1",
            "tree:ok-depth3",
            "mask:proper",
            "mask:all-true",
            "mask:root-removed-raised",
            "mask:tree-pruned",
            "mask:tree-whole",
        ]
        out = ["outcome %s never produced" % n for n in need if not notes.get(n)]
        for tag in (
            ["bnd-ok:%s:%s" % (v, k) for v in B_VARIANTS for k in ("U", "D")]
            + (["bnd-ok:az:T", "bnd-ok:az1:T", "sp:stored-zero-letter", "mst:stored-zero-letter"] if ZERO_WEIGHT_CSGRAPH_OPS else [])
            + ["bnd-ok:an:T", "bnd-ok:at:T", "zero-op:ok", "oor:below:refused", "oor:above:refused", "masklen:short:refused", "masklen:long:refused"]
            + ["sp:negative-weights-negative-distance", "mst:negative-weights-ok", "mst:all-weights-tied-ok"]
            + ["bnd-ok:one-vertex-family:%s" % c for c in ("UndirectedGraph", "DirectedGraph", "Tree", "PointUndirectedGraph", "PointDirectedGraph", "PointTree")]
        ):
            if not notes.get(tag):
                out.append("boundary outcome %s never produced" % tag)
        want0 = ["scale-ok:%s:%s" % (l, k) for l in SCALE_LETTERS for k in ("U", "D", "T")]
        want0 += ["scale-%s:%s" % (q, l) for q in ("sp", "mst", "mask") for l in SCALE_LETTERS] + ["scale-equivariance:%s" % l for l in SCALE_FACTOR]
        want0 += ["large-size:%s:ok" % c for c in ("UndirectedGraph", "PointDirectedGraph", "PointUndirectedGraph", "Tree", "PointTree")]
        out += ["scale letter outcome %s never produced" % w for w in want0 if not notes.get(w)]
        want = ["sp-letter:%s:%s:%s" % (a, "unweighted" if u else "weighted", "skip" if k else "checked") for (a, u, k) in SP_PRODUCT]
        want += ["sp:fewest-edges-route-is-not-the-lightest:%s" % a for a in SP_ALGORITHMS]
        want += ["allsp-letter:%s:%s" % (a, u) for a in SP_ALGORITHMS for u in ("weighted", "unweighted")]
        want += ["path-letter:%s:%s" % (mth, "skip" if k else "checked") for (mth, k) in PATH_PRODUCT]
        want += ["skip-checks-queries:done", "closed-tree:refused"]
        for sub in ("U", "D", "T"):
            for cls in ("A", "P"):
                for v in ("el", "ad", "ac"):
                    for (c, k) in CTOR_OPTIONS:
                        if not (v == "el" and cls == "A" and sub != "T" and not c):
                            want.append("ctor-opt:%s:%s:%s:copy=%s:skip_checks=%s" % (sub, cls, v, c, k))
        want += ["grid-opt:%s:%s:%s:%s" % ((kind,) + tuple(str(x) for x in o)) for kind in ("U", "D") for o in GRID_OPTIONS]
        out += ["option letter %s never exercised" % w for w in want if not notes.get(w)]
        for factor, forms in FORM_FACTORS.items():
            for form in forms:
                for size in ("small", "n>12"):
                    if not notes.get("form-ok:%s:%s:%s" % (factor, form, size)):
                        out.append("argument form %s=%s was never exercised with a passing static check (%s)" % (factor, form, size))
        if not any(k.startswith("mask:all-false") for k in notes):
            out.append("no all-false mask was applied")
        # routes of one, two, three and more edges must have been priced (right, or with the D11 footprint)
        for h in (1, 2, 3, 4):
            if not (notes.get("sp:cost-ok-%dedges" % h) or notes.get("sp:cost-D11-%dedges" % h)):
                out.append("no shortest route with %d%s edges was priced" % (h, "+" if h == 4 else ""))
        if not (notes.get("sp:start==end-trivial") or notes.get("known:D23")):
            out.append("start == end was never queried")
        return out

    def rule(self):
        return (
            "every graph of the small scope (all simple undirected graphs n<=5, all digraphs n<=4, all labelled rooted "
            "trees) x construction letter x class is an initial state; transitions are the public queries with every "
            "vertex / pair / root / mask argument; from_mask moves to the masked graph, which thorough explores again"
        )

    def alphabet_sizes(self):
        roots = self.roots()
        kinds = {}
        for r in roots:
            kinds[r[0]] = kinds.get(r[0], 0) + 1
        return {
            "roots": len(roots),
            "roots_by_kind": kinds,
            "undirected_variants": U_VARIANTS,
            "directed_variants": D_VARIANTS,
            "tree_variants": T_VARIANTS,
            "full_alphabet_variants": list(FULL_VARIANTS),
            "option_products": {
                "find_shortest_path": "algorithm(5) x unweighted(2) x skip_checks(2): full product on weighted small-scope letters of the abstract classes, all pairs (10 calls) elsewhere",
                "find_all_shortest_paths": "algorithm(5) x unweighted(2), distances and predecessors",
                "find_path": "method(2) x skip_checks(2)",
                "find_all_paths": "path omitted / [] / None",
                "per-vertex queries": "skip_checks(2)",
                "constructors": "copy(2) x skip_checks(2) x {edges, dense adjacency, csr adjacency} x {abstract, point} x {undirected, directed, tree}",
                "init_2d_grid": "spacing(3) x adjacency_matrix given(2) x skip_checks(2)",
                "chain_graph": "graph_cls(6) x closed(2)",
            },
            "scale_letters": SCALE_LETTERS,
            "large_size": LARGE_SIZE,
            "boundary_variants": B_VARIANTS,
            "zero_weight_csgraph_ops": ZERO_WEIGHT_CSGRAPH_OPS,
            "zop_csgraph_ops": ZOP_CSGRAPH_OPS,
            "argument_forms": FORM_FACTORS,
            "argument_form_families": ["%s/%s" % f for f in FORM_FAMILIES],
            "argument_form_sizes": FORM_SIZES,
            "sp_letters": "auto x {weighted, unweighted}" + (" + FW/D/BF/J (abstract classes, below the largest scope)" if self.tier == "thorough" else ""),
        }

    def assumptions(self):
        return [
            "argument forms (kind X roots): one argument kind at a time (edge array dtype/container/layout, adjacency dtype/container/layout, point dtype/layout, numpy-scalar vertex numbers, read-only / strided masks, numpy n_vertices) on chains, cycles, stars, complete graphs and binary trees of 9 and 40 vertices, abstract and point-carrying; only forms the unchanged tree accepts (outer tuples, float vertex numbers, float16 / non-csr / list adjacency, list points, integer masks are not letters); expectations are float64 values of the payload",
            "boundary letters (kind B roots, every undirected graph n<=4, digraph n<=3, rooted tree n<=4, abstract and point-carrying): csr adjacency with every position stored (non-edges as explicit zeros) / with one stored zero; edges removed by assigning 0 into adjacency_matrix; weights of both signs; all weights equal; on every root vertex numbers -1 and n (documented ValueError) and masks of length n-1 / n+1; predefined families on 1, 2, 3 vertices and 1x1 / 1x4 / 4x1 / 2x2 grids",
            "a stored zero is a non-edge (documented).  Construction letters az / az1 get the whole alphabet (paths, shortest paths, distances, MST, Tree construction, tree masks included; ZERO_WEIGHT_CSGRAPH_OPS=%r).  The 'zop' letters assign 0 into the public adjacency_matrix AFTER construction: that mutates a public attribute behind the object's back and is outside the property, so they are asked only the queries that never reach scipy.csgraph (ZOP_CSGRAPH_OPS=%r)" % (ZERO_WEIGHT_CSGRAPH_OPS, ZOP_CSGRAPH_OPS),
            "[interp] weighted shortest paths are judged only where they are defined (no negative weight, or an acyclic digraph); minimum_spanning_tree with a root outside [0, n-1] and PointTree.init_2d_grid on one-row / one-column grids are not judged",
            "option cross products (every documented keyword option given explicitly, the reference taking the same options): find_shortest_path algorithm x unweighted x skip_checks - the FULL product (20 calls per start/end pair) on every weighted letter of the small scope for the abstract classes in both tiers, all PAIRS of option values (10 calls: every algorithm with every unweighted value, skip_checks alternating) on the point-carrying classes (which inherit the method), unit-weight letters, families and the largest thorough scope (argument-form roots keep the default options: they vary one argument at a time); find_all_shortest_paths algorithm x unweighted (distances and predecessor routes), find_path method x skip_checks, find_all_paths path omitted/[]/None, every per-vertex query with skip_checks=True (graphs of at most 12 vertices), constructors copy x skip_checks (kind O roots: undirected n<=3 (thorough 4), directed n<=3, trees n<=4; edge array, dense and csr adjacency; abstract and point-carrying), init_2d_grid spacing x adjacency_matrix x skip_checks, chain_graph graph_cls x closed",
            "weighted algorithm letters are left out only where the textbook answer is undefined: algorithm 'D' (Dijkstra) with negative weights, and every weighted letter on graphs with a possible negative cycle; skip_checks=True is only combined with valid vertex numbers",
            "scale letters (kind S roots: every undirected graph on 4 vertices, digraph on 3, rooted tree on 4; abstract from csr, point-carrying from dense adjacency): all weights x 1e-6 / x 1e-9 / x 1e6, every other weight x 1e-9, a common offset (offset / spread ~ 1e6), nearly equal weights 1 + k*1e-9; point coordinates scaled / offset / nearly coincident alike; the reference is computed in float64 from the scaled input itself; sums of non-integer weights are compared with the tolerance 1e-12 x sum|w| (relative to the data, no fixed epsilon), integer-valued weights and hop counts exactly; scale-equivariance clause: distances for s*w equal s x the exact distances for the integer base weights",
            "one large-size letter: chains, a star and binary trees on %d vertices (structured pairs / roots / masks); menpo's recursive cycle test and find_all_paths raise RecursionError from about 1000 vertices on a chain (outside the property's sizes, reported, not a letter)" % LARGE_SIZE,
            "simple graphs only (no self loops); weights are distinct positive integers stored as floats, so all sums are exact",
            (
                "quick: every mask/pair/root for undirected n<=4, directed n<=3, trees n<=4; undirected n=5 and directed n=4 get the static queries (and Tree(root) readings) only"
                if self.tier == "quick"
                else "thorough: every mask/pair/root for undirected n<=5, directed n<=4, trees n<=5; second level (ops on the result of a mask): whole alphabet again for undirected n<=4, directed n<=3, trees n<=4 and families <= 12 vertices; for the largest scope only the queries on results that lost exactly one vertex (weighted csr letter), no mask of a mask; extra shortest-path algorithm letters only below the largest scope"
            ),
            "construction letters other than 'el' (edge array) and 'ac' (weighted csr) get static queries, Tree(root) readings and masks only",
            "[interp] is_tree on a digraph is flagged only if True while the underlying undirected graph is not a tree, or False on an arborescence",
            "[interp] minimum_spanning_tree is judged on connected graphs with >= 2 vertices only",
            "[interp] a duplicated edge in a directed edge list leaves the weight of that edge undefined (weighted clauses skipped for that letter)",
            "[interp] an all-false mask may be refused (ValueError) or give an empty graph",
            "[interp] a tree mask that leaves only the root may be refused (menpo has no one-vertex tree)",
            "[interp] what the Tree constructor does with edges that are NOT a tree rooted at the given root is not judged (Tree([[0,1]], root 1) is accepted)",
            "every rooted tree is built through the checked constructors (skip_checks is never passed by the check); a refused valid tree is a failure",
            "families (chains, cycles, stars, complete graphs, grids, binary trees, <= 40 vertices) replace 'random graphs'; beyond 12 vertices they use structured masks and 6 MST roots, not every mask / root",
            "largest scope (undirected n=5, directed n=4): the point-carrying class is built from the weighted csr letter only and its inherited find_path / find_shortest_path are explored on mask results only (they are explored on the abstract class of every graph)",
            "shortest-path algorithm letters use scipy's names (FW, D, BF, J): the names in menpo's docstring are rejected by the installed scipy",
            "find_all_paths is compared only where the enumeration is small (n <= 5 or at most n edges)",
            "D11 footprint: cost == sum of dist(start, v) over the route without its end; D23 footprint: start == end answered [] / ([], inf)",
        ]


CHECK = C14
