"""C04 - pseudoinverse really inverts; alignment inverses swap source and target.

State   : one live invertible transform `t` + its reference model (plain numpy):
            homogeneous family ('H' plain, 'A' alignment, 'TC' tcoords helper): forward matrix H and its inverse,
              for alignments also the source / target point arrays;
            piecewise affine ('PWA'): source points, target points, triangle list (the map is barycentric);
            thin plate splines ('TPS'): source points, target points, kernel letter (reference = spline fitted by
              an exact linear solve).
Ops     : ('pinv',)       t := t.pseudoinverse()            -- model: forward and inverse exchanged
          ('retarget', k, cold|warm)  t.set_target(letter k)  -- produces non-initial alignments; PWA/TPS model gets the
                                                                new target, homogeneous alignments are re-baselined
                                                                from the re-fitted h_matrix (the fit itself is C07/C08);
                                                                'warm' = t.pseudoinverse() was called once before the
                                                                target moved (an inverse remembered by t would be stale)
          ('compose', before|after, operand)  t.compose_*_inplace(operand letter) -- homogeneous family only; produces
                                                                transforms whose matrix was composed in place (whether
                                                                the operand is accepted is C03's question)
          ('pinv_vec',)    query: VInvertible.pseudoinverse_vector
          ('tc_pair',)     query: image_coords_to_tcoords(shape) inverts tcoords_to_image_coords(shape)
          ('refuse', kind) query: a call the tree legitimately refuses (apply with the wrong dimension / outside the PWA
                           domain, pseudoinverse_vector with a wrong-size or a SINGULAR vector, compose in place with a
                           foreign transform, set_target / constructor with mismatched landmarks): it raises, receiver and
                           arguments are observed unchanged, the retry raises the same exception, kept relatives intact;
                           all refused calls are also replayed on the live object before every pinv / retarget / compose
          ('apply_forms',) query: probe points handed to apply() as int64/int32/float32/read-only/strided/Fortran arrays
Roots   : besides the parameter letters, 'argument form' letters (root suffix ('form', coordinate form, source container,
          target container)): one representative letter per class x every dtype / sequence / view / container form that
          the unchanged tree accepts; the model is computed in float64 from the values that were handed over
Oracle  : p = t.pseudoinverse():  p(t(X)) == X and t(p(X')) == X' on probe points of the respective domains, p equals
          the reference inverse map, p is an honest member of a homogeneous-family class (or the same warp class),
          alignments: source/target exchanged exactly and p.h_matrix . t.h_matrix == I, warps: every target landmark is
          sent back onto its source landmark, the TPS inverse equals the spline fitted in the reverse direction and its
          kernel is centred on its own source, has_true_inverse is a constant of the class, the receiver is unchanged.
          Independence: every inverse that was returned (by 'pinv', by a warm retarget, before every in-place
          composition) and every original whose inverse became the current object stay alive in the state with their
          observation; after every later operation on a relative (set_target, compose in place, another pseudoinverse)
          each of them must be observed unchanged and still be the map it was (an inverse: the exact inverse of the
          map its original had when it was taken).
          Chaining 'pinv' (depth >= 2) checks the inverse of the inverse against the ORIGINAL reference map.
"""
import numpy as np

from mc.core import Check, Failure, HarnessError
from mc.letters import MIN_AREA, generic_points, pwa_layout, rs
from mc.observe import obs_diff, obs_key, observe

# ----------------------------------------------------------------------------------------------
# tolerances (see assumptions()): errors measured on the unchanged tree, seeds 0..9, are printed by
# `python -m mc.checks.c04 stats`; every tolerance keeps a >= 100x margin above them
# ----------------------------------------------------------------------------------------------
RTOL_MAP = 1e-9  # x cond(H) x coordinate scale : maps compared on probe points (homogeneous family, PWA)
RTOL_HPROD = 1e-10  # x cond(H)                   : p.h_matrix . t.h_matrix == I
RTOL_HONEST = 1e-10  # x scale of the linear part  : class honesty predicates
RTOL_TPS = 1e-8  # x coordinate scale          : TPS interpolation / reverse fit (cond(L) up to 3e5)

MAXR = {}  # clause -> largest error/tolerance ratio seen (diagnostics only)
TAG_SUFFIX = [""]  # diagnostics: float32 letters are tallied apart
MAXR_WHO = {}
CUR_ROOT = [None]


def _err(a, b):
    a = np.asarray(a, dtype=float)
    b = np.asarray(b, dtype=float)
    if a.shape != b.shape:
        return np.inf
    if a.size == 0:
        return 0.0
    d = np.abs(a - b)
    if not np.all(np.isfinite(d)):
        return np.inf
    return float(d.max())


def _close(tag, a, b, tol):
    e = _err(a, b)
    r = e / tol if tol > 0 else (0.0 if e == 0 else np.inf)
    tag = tag + TAG_SUFFIX[0]
    if r > MAXR.get(tag, 0.0):
        MAXR[tag] = r
        MAXR_WHO[tag] = CUR_ROOT[0]
    return e <= tol, e


# ----------------------------------------------------------------------------------------------
# reference maps (independent of menpo)
# ----------------------------------------------------------------------------------------------
def h_apply(H, X):
    Xh = np.hstack([X, np.ones((X.shape[0], 1))])
    Yh = Xh.dot(H.T)
    return Yh[:, :-1] / Yh[:, -1:]


def rot2(deg):
    t = np.deg2rad(deg)
    return np.array([[np.cos(t), -np.sin(t)], [np.sin(t), np.cos(t)]])


def rodrigues(axis, deg):
    a = np.asarray(axis, dtype=float)
    a = a / np.linalg.norm(a)
    t = np.deg2rad(deg)
    K = np.array([[0, -a[2], a[1]], [a[2], 0, -a[0]], [-a[1], a[0], 0]])
    return np.eye(3) + np.sin(t) * K + (1 - np.cos(t)) * K.dot(K)


def homog(L, t=None):
    d = L.shape[0]
    H = np.eye(d + 1)
    H[:d, :d] = L
    if t is not None:
        H[:d, d] = t
    return H


def _cdist(a, b):
    return np.sqrt(((a[:, None, :] - b[None, :, :]) ** 2).sum(-1))


def tps_kernel(kern, r):
    with np.errstate(divide="ignore", invalid="ignore"):
        u = r ** 2 * np.log(r ** 2) if kern != "R2LogRRBF" else r ** 2 * np.log(r)
    u[r == 0] = 0.0
    return u


def tps_system(src, kern):
    n = src.shape[0]
    K = tps_kernel(kern, _cdist(src, src))
    P = np.hstack([np.ones((n, 1)), src])
    return np.vstack([np.hstack([K, P]), np.hstack([P.T, np.zeros((3, 3))])])


def tps_fit(src, tgt, kern):
    """thin plate spline sending src[i] exactly onto tgt[i] (exact linear solve, no singular value floor)"""
    n = src.shape[0]
    W = np.linalg.solve(tps_system(src, kern), np.vstack([tgt, np.zeros((3, 2))]))

    def f(X):
        return tps_kernel(kern, _cdist(X, src)).dot(W[:n]) + np.hstack([np.ones((X.shape[0], 1)), X]).dot(W[n:])

    return f


BARY = np.array([[1 / 3.0, 1 / 3.0, 1 / 3.0], [0.6, 0.3, 0.1], [0.1, 0.2, 0.7], [0.05, 0.05, 0.9], [0.46, 0.5, 0.04]])


def pwa_pairs(src, tgt, trilist):
    """corresponding interior points of every source / target triangle (the PWA map by its definition)"""
    X = np.vstack([BARY.dot(src[tri]) for tri in trilist])
    Y = np.vstack([BARY.dot(tgt[tri]) for tri in trilist])
    return X, Y


def tri_set(trilist):
    return set(tuple(sorted(int(i) for i in tri)) for tri in trilist)


def signed_areas(pts, trilist):
    a = pts[trilist]
    return 0.5 * ((a[:, 1, 0] - a[:, 0, 0]) * (a[:, 2, 1] - a[:, 0, 1]) - (a[:, 1, 1] - a[:, 0, 1]) * (a[:, 2, 0] - a[:, 0, 0]))


# ----------------------------------------------------------------------------------------------
# alphabet
# ----------------------------------------------------------------------------------------------
ROT2_DEG = [0, 30, 90, 135, 180, 200, 270, 330, -45, 400]
ROT2_DEG_THOROUGH = sorted(set(ROT2_DEG + list(range(-165, 181, 15)) + [725, -400]))
ROT3_AXES = {"x": (1, 0, 0), "y": (0, 1, 0), "z": (0, 0, 1), "g1": (0.2, -0.5, 0.84), "g2": (-0.7, 0.1, 0.3)}
ROT3_DEG = [30, 135, 200, -60]
USCALES = [0.25, 0.8, 1.0, 3.0, -1.5, 1e-5, 1e5, 1e-6, 1e-9, 1e6, 1.0 + 1e-7]  # identity, nearly identity, other magnitudes
NUSCALES = {
    2: [(0.5, 2.0), (3.0, 0.3), (-1.2, 0.7), (1.0, 1.0), (2.0, 2.0), (0.5e-6, 2.0e-6), (0.5e6, 2.0e6), (1.0 + 1e-7, 1.0 - 2e-7)],
    3: [(0.5, 1.5, 3.0), (2.0, 0.4, 0.9), (-1.0, 2.0, 0.5), (1.0, 1.0, 1.0), (2.0, 2.0, 2.0), (0.5e-6, 1.5e-6, 3.0e-6), (0.5e6, 1.5e6, 3.0e6), (1.0 + 1e-7, 1.0 - 2e-7, 1.0 + 3e-7)],
}
SCALE_KINDS = ("x1e-6", "x1e-9", "x1e6", "tgt-x1e-4", "tgt-x1e-6", "src-x1e-4", "offset1e6", "near-equal-1e-7", "near-equal-1e-9")
# TPS mixes units in its system matrix (kernel block ~ r^2 log r, affine block ~ 1 and r): it is NOT conditioned
# uniformly under a change of unit and its documented floor min_singular_val=1e-4 is absolute -> only these kinds
TPS_SCALE_KINDS = ("near-equal-1e-7", "near-equal-1e-9")
# AlignmentAffine solves the normal equations a a^T of HOMOGENEOUS coordinates (ones next to the coordinates): at
# coordinates ~1e-6 / 1e-9 they are ill-conditioned (cond ~ 1e12 / 1e18) and the fitted matrix is not affine any more
# (last row off by 1e-10 / 1e-7) - a fit defect (C07), reported; not letters here
# (also with a small SOURCE, src-x1e-4: last row off by 1e-11, and with the offset 5e6: off by 5e-11 in 2-D, a
# matrix of condition 1e13 in 3-D)
# the small-target kinds reach the same fit after pseudoinverse + set_target (the small target becomes the source)
SCALE_EXCLUDED = {("AlignmentAffine", k) for k in ("x1e-6", "x1e-9", "src-x1e-4", "offset1e6", "tgt-x1e-4", "tgt-x1e-6")}


def split_scale(root):
    root = tuple(root)
    if "scale" in root:
        i = root.index("scale")
        return root[:i], root[i + 1]
    return root, None


def scale_letters(tier):
    """the same payloads at other legal magnitudes (a small subset of the roots), nearly-equal operands, one large size"""
    out = []
    for d in (2, 3):
        for cls in ALIGN_CLASSES:
            for k in SCALE_KINDS if d == 2 else ("x1e-9", "x1e6", "tgt-x1e-6", "offset1e6"):
                if (cls, k) not in SCALE_EXCLUDED:
                    out.append(("A", cls, d, "noisy", "-", 0, "scale", k))
        out.append(("A", "AlignmentAffine", d, "noisy", "n1000", 0))
        out.append(("A", "AlignmentSimilarity", d, "noisy", "n1000", 0))
        # parameters of the plain classes at other magnitudes / nearly the identity
        out += [("H", "Translation", d, "huge", 0), ("H", "Translation", d, "tiny", 0)]
        out += [("H", "Similarity", d, "sim", 30, 1e-6, 0), ("H", "Similarity", d, "sim", 30, 1e6, 0)]
        out += [("H", "Affine", d, "tiny", 0), ("H", "Affine", d, "huge", 0), ("H", "Affine", d, "near-identity", 0)]
        out += [("H", "Homogeneous", d, "scaled-1e-9", 0), ("H", "Homogeneous", d, "scaled-1e9", 0), ("H", "Homogeneous", d, "near-identity", 0)]
    out += [("H", "Rotation", 2, "angle", 1e-6), ("H", "Rotation", 3, "axis", "g1", 1e-6)]
    for cls in ("PythonPWA", "CachedPWA"):
        for k in SCALE_KINDS:
            out.append(("PWA", cls, "fan5", "trimesh", "jitter", 0, "scale", k))
        out.append(("PWA", cls, "grid12", "trimesh", "jitter", 0))  # 144 landmarks, 242 triangles
    for kern in ("default", "R2LogRRBF"):
        for k in TPS_SCALE_KINDS:
            out.append(("TPS", kern, 6, "jitter", "default", 0, "scale", k))
    return out
IDENTITY_CLASSES = ["Homogeneous", "Affine", "Similarity", "Rotation", "UniformScale", "NonUniformScale", "Translation"]


def boundary_letters(tier):
    """one letter per boundary visible in the anchored code (values exactly 0 / 1 / equal, smallest sizes, the
    dimensions just outside what the affine classes accept); same in both tiers"""
    out = []
    for d in (2, 3):
        # h_matrix blocks: bottom-right entry exactly 0, linear block singular (=> the INVERSE has a zero corner)
        for letter in ("perm", "linsingular-int", "linsingular", "cornerzero"):
            out.append(("H", "Homogeneous", d, letter, 0))
        for cls in IDENTITY_CLASSES:
            out.append(("H", cls, d, "identity", 0))  # built by the init_identity constructor
        # smallest landmark sets each alignment accepts (fewer points: singular fit, outside the quantifier)
        for cls, opt in (("AlignmentRotation", "n1"), ("AlignmentTranslation", "n1"), ("AlignmentRotation", "n2"), ("AlignmentTranslation", "n2"), ("AlignmentSimilarity", "n2"), ("AlignmentUniformScale", "n2")):
            out.append(("A", cls, d, "noisy", opt, 0))
        for cls in ALIGN_CLASSES:
            out.append(("A", cls, d, "same", "-", 0))  # target == source: every fit is the identity
    out.append(("H", "Rotation", 2, "angle", 360))
    out.append(("H", "Rotation", 2, "angle", -180))
    for ax in ("x", "g1"):
        out.append(("H", "Rotation", 3, "axis", ax, 180))  # quaternion with zero scalar part (as_vector tie)
        out.append(("H", "Rotation", 3, "axis", ax, 360))
    # Homogeneous accepts any dimension; the affine classes only 2 and 3
    for d in (1, 4):
        out.append(("H", "Homogeneous", d, "proj", 0))
        out.append(("H", "Homogeneous", d, "affine", 0))
    for cls in ("PythonPWA", "CachedPWA"):
        for sk in ("trimesh", "pointcloud"):
            out.append(("PWA", cls, "tri3", sk, "jitter", 0))  # a single triangle
        out.append(("PWA", cls, "tri3", "trimesh", "mirror", 0))
    for k in TPS_KERNELS:
        out.append(("TPS", k, 6, "identity", "default", 0))  # target == source: the spline is the identity
        out.append(("TPS", k, 3, "identity", "default", 0))
    return out
COMPOSE_OPERANDS = ["Translation", "UniformScale", "NonUniformScale", "Rotation", "Similarity", "Affine", "Homogeneous"]
ALIGN_CLASSES = ["AlignmentAffine", "AlignmentSimilarity", "AlignmentRotation", "AlignmentUniformScale", "AlignmentTranslation"]
PWA_CLASSES = ["PythonPWA", "CachedPWA", "PiecewiseAffine"]
TPS_KERNELS = ["default", "R2LogR2RBF", "R2LogRRBF"]
TC_SHAPES = [(3, 5), (4, 4), (7, 2), (2, 2)]
SMALL_SCALE = 0.002  # TPS 'small' letter: landmark coordinates of order 1e-2 and a user-lowered singular value floor
SMALL_MSV = 1e-9


# ---- argument forms: the SAME payload handed over in another legal dtype / container / memory layout ------------
DTYPES = {"f32": np.float32, "i64": np.int64, "i32": np.int32, "i16": np.int16, "u8": np.uint8}
INT_FORMS = ("i64", "i32", "i16", "u8")
ARRAY_FORMS = ("f32",) + INT_FORMS + ("ro", "nc", "fortran")
SEQ_FORMS = ("list", "tuple")
SCALAR_FORMS = ("pyint", "npi64", "npu8", "npf32", "npf64", "arr0d")
QUANT = {"A": 8.0, "PWA": 8.0, "TPS": 2.0}  # integer grid = round(q x generic coordinates)
# forms that the unchanged tree does not handle, for reasons outside C04 (reported, see assumptions())
FORM_EXCLUDED = {
    ("AlignmentAffine", "u8"): "the least-squares fit multiplies the uint8 coordinates in uint8 (wraps around)",
    ("AlignmentRotation", "u8"): "the correlation matrix of the fit is accumulated in uint8 (wraps around)",
    ("PWA", "i16"): "barycentric dot products are accumulated in int16 (overflow, TriangleContainmentError)",
    ("PWA", "u8"): "barycentric differences / dot products are computed in uint8 (wrap around)",
}


def present(a, form):
    """the float64 payload `a` handed over in another form (values must be representable: callers quantise first)"""
    a = np.asarray(a, dtype=float)
    if form in ("f64", "qf64"):
        return a.copy()
    if form in DTYPES:
        return a.astype(DTYPES[form])
    if form == "ro":
        b = a.copy()
        b.setflags(write=False)
        return b
    if form == "nc":  # every second row of a larger buffer: not contiguous, does not own its data
        big = np.full((a.shape[0] * 2,) + a.shape[1:], -7.0)
        big[::2] = a
        return big[::2]
    if form == "fortran":
        return np.asfortranarray(a)
    if form == "list":
        return a.tolist()
    if form == "tuple":
        return tuple(tuple(r) if isinstance(r, list) else r for r in a.tolist())
    raise HarnessError("unknown form %r" % (form,))


def present_scalar(v, form):
    return {"pyint": lambda: int(v), "npi64": lambda: np.int64(v), "npu8": lambda: np.uint8(v), "npf32": lambda: np.float32(v), "npf64": lambda: np.float64(v), "arr0d": lambda: np.array(float(v))}[form]()


def values_of(obj):
    """the float64 values of a presented payload (the reference model only ever sees these)"""
    return np.asarray(obj, dtype=np.float64)


def split_form(root):
    """(base letter, (coordinate form, source container, target container)) of a root spec"""
    root = tuple(root)
    if "form" in root:
        i = root.index("form")
        return root[:i], tuple(root[i + 1 : i + 4])
    return root, ("f64", "-", "-")


def side_forms(cform):
    """'i64|f64' = source as int64, target as float64; a single name = both"""
    return tuple(cform.split("|")) if "|" in cform else (cform, cform)


def needs_grid(cform):
    return any(f in INT_FORMS or f == "qf64" for f in side_forms(cform))


def form_letters(tier):
    """argument-form roots: one representative letter per class x every form that class accepts today"""
    out = []

    def F(base, cform, sc="-", tc="-"):
        out.append(tuple(base) + ("form", cform, sc, tc))

    for d in (2, 3):
        # -- plain classes: integer-valued parameters in every integer dtype, float parameters as float32 / views
        for cls in ("Homogeneous", "Affine", "Similarity", "Rotation", "NonUniformScale", "Translation"):
            base = ("H", cls, d, "intmat", 0)
            out.append(base)
            for f in INT_FORMS:
                if f == "u8" and cls == "Rotation" and d == 2:
                    continue  # the 2-D integer rotation holds -1
                F(base, f)
        out.append(("H", "UniformScale", d, "intmat", 0))
        for f in SCALAR_FORMS:
            F(("H", "UniformScale", d, "intmat", 0), f)
        for f in ("npf32", "npf64", "arr0d"):
            F(("H", "UniformScale", d, "s", 0.8), f)
        reps = [("H", "Homogeneous", d, "proj", 0), ("H", "Affine", d, "generic", 0), ("H", "Similarity", d, "sim", 30, 0.4, 0)]
        reps.append(("H", "Rotation", d, "angle", 30) if d == 2 else ("H", "Rotation", d, "axis", "g1", 30))
        for base in reps:
            for f in ("f32", "ro", "nc", "fortran"):
                F(base, f)
        for base in (("H", "NonUniformScale", d, "fixed", 0), ("H", "Translation", d, "mixed", 0)):
            for f in ("f32", "ro", "nc") + SEQ_FORMS:
                F(base, f)
        # -- homogeneous alignments: source / target coordinates
        forms_d = ("qf64", "f32", "i64", "i32", "i16", "u8", "ro", "nc", "fortran", "list", "tuple", "i64|f64", "f64|f32") if d == 2 else ("f32", "i64", "u8", "nc", "list")
        for cls in ALIGN_CLASSES:
            base = ("A", cls, d, "noisy", "-", 0)
            for f in forms_d:
                if (cls, f) not in FORM_EXCLUDED:
                    F(base, f)
            if d == 2:
                for sc, tc in (("TriMesh", "TriMesh"), ("PointGraph", "PointGraph"), ("TriMesh", "PointCloud"), ("PointCloud", "PointGraph")):
                    F(base, "f64", sc, tc)
    # -- piecewise affine
    for cls in ("PythonPWA", "CachedPWA"):
        base = ("PWA", cls, "fan5", "trimesh", "jitter", 0)
        for f in ("qf64", "f32", "i64", "i32", "ro", "nc", "fortran", "list", "tuple", "i64|f64"):
            F(base, f)
        for tc in ("TriMesh-same", "TriMesh-other", "TriMesh-delaunay", "PointGraph"):
            F(base, "f64", "-", tc)
            F(("PWA", cls, "quad", "trimesh", "diamond", 0), "f64", "-", tc)
        F(base, "f64", "PointGraph", "-")
        F(base, "f64", "PointCloud", "TriMesh-delaunay")
    F(("PWA", "PiecewiseAffine", "quad", "trimesh", "diamond", 0), "f64", "-", "TriMesh-delaunay")
    # -- thin plate splines
    for k in ("default", "R2LogRRBF"):
        base = ("TPS", k, 6, "jitter", "default", 0)
        for f in ("qf64", "f32", "i64", "i32", "i16", "u8", "ro", "nc", "fortran", "list", "tuple", "i64|f64"):
            F(base, f)
        for sc, tc in (("TriMesh", "TriMesh"), ("PointGraph", "PointGraph"), ("PointCloud", "TriMesh"), ("TriMesh", "PointCloud")):
            F(base, "f64", sc, tc)
    return out


def container(kind, pts, n, trilist=None, other=None):
    """a legal container for landmark coordinates `pts` (already in their presented form)"""
    from menpo.shape import PointCloud, PointUndirectedGraph, TriMesh

    if kind == "PointCloud":
        return PointCloud(pts)
    if kind in ("TriMesh", "TriMesh-same"):
        return TriMesh(pts, np.array(trilist))
    if kind == "TriMesh-other":
        return TriMesh(pts, np.array(other))
    if kind == "TriMesh-delaunay":
        return TriMesh(pts)
    if kind == "PointGraph":
        return PointUndirectedGraph.init_from_edges(pts, np.array([[i, i + 1] for i in range(n - 1)]))
    raise HarnessError("unknown container %r" % (kind,))


def pwa_reference(src, tgt, trilist, X, margin=0.03):
    """reference piecewise affine map of arbitrary points: (image, mask of points well inside one triangle)"""
    out = np.full(X.shape, np.nan)
    best = np.full(X.shape[0], -np.inf)
    for tri in trilist:
        a, b, c = src[tri]
        M = np.array([b - a, c - a]).T
        ab = np.linalg.solve(M, (X - a).T).T
        w = np.column_stack([1 - ab.sum(axis=1), ab])
        inside = w.min(axis=1)
        img = w.dot(tgt[tri])
        better = inside > best
        out[better] = img[better]
        best[better] = inside[better]
    return out, best > margin


def plain_letters(d, tier):
    """(class, d, letter...) for the 7 plain homogeneous classes"""
    th = tier == "thorough"
    vars_ = (0, 1, 2) if th else (0,)
    out = []
    for v in vars_:
        out += [("Homogeneous", d, "proj", v), ("Homogeneous", d, "affine", v), ("Homogeneous", d, "scaled", v), ("Homogeneous", d, "negscaled", v)]
        out += [("Affine", d, "generic", v), ("Affine", d, "negdet", v), ("Affine", d, "aniso", v), ("Affine", d, "rigid", v)]
        if d == 2:
            out.append(("Affine", d, "shear", v))
    sim_deg = [30, 135, 250] + ([-80, 0, 180] if th else [])
    for deg in sim_deg:
        for s in (0.4, 2.5):
            for mirror in (0, 1):
                out.append(("Similarity", d, "sim", deg, s, mirror))
    if d == 2:
        for deg in ROT2_DEG_THOROUGH if th else ROT2_DEG:
            out.append(("Rotation", d, "angle", deg))
        out.append(("Rotation", d, "mirror", 40))
    else:
        out.append(("Rotation", d, "axis", "x", 0))
        for ax in sorted(ROT3_AXES):
            for deg in ROT3_DEG + ([90, 180, 270, -170, 400] if th else []):
                out.append(("Rotation", d, "axis", ax, deg))
        out.append(("Rotation", d, "mirror", 40))
    for s in USCALES:
        out.append(("UniformScale", d, "s", s))
    for k in range(len(NUSCALES[d])):
        out.append(("NonUniformScale", d, "fixed", k))
    for v in vars_:
        out.append(("NonUniformScale", d, "seeded", v))
    for sign in ("pos", "neg", "mixed", "zero"):
        for v in vars_ if sign != "zero" else (0,):
            out.append(("Translation", d, sign, v))
    return out


def align_letters(d, tier):
    """(class, d, target letter, option letter, var)"""
    vars_ = (0, 1, 2) if tier == "thorough" else (0,)
    out = []
    for v in vars_:
        for cls in ALIGN_CLASSES:
            for tl in ("exact", "noisy", "generic"):
                out.append((cls, d, tl, "-", v))
        out.append(("AlignmentAffine", d, "exact", "minimal", v))  # n_dims + 1 points: the fit is exact
        out.append(("AlignmentAffine", d, "noisy", "trimesh", v) if d == 2 else ("AlignmentAffine", d, "noisy", "n8", v))
        out.append(("AlignmentSimilarity", d, "noisy", "norotation", v))
        out.append(("AlignmentSimilarity", d, "mirrored", "allow_mirror", v))
        out.append(("AlignmentSimilarity", d, "mirrored", "-", v))
        out.append(("AlignmentRotation", d, "mirrored", "allow_mirror", v))
        out.append(("AlignmentRotation", d, "mirrored", "-", v))
    return out


def pwa_letters(tier):
    """(class, layout, source kind, target letter, var)"""
    vars_ = (0, 1, 2) if tier == "thorough" else (0,)
    out = []
    for v in vars_:
        for cls in PWA_CLASSES:
            for tl in ("identity", "jitter", "affine", "deform", "mirror"):
                out.append((cls, "fan5", "trimesh", tl, v))
            for tl in ("jitter", "affine"):
                out.append((cls, "fan5", "pointcloud", tl, v))  # the constructor triangulates (Delaunay) itself
            for tl in ("diamond", "mirror"):
                out.append((cls, "quad", "trimesh", tl, v))  # explicit trilist that is NOT the Delaunay triangulation
            if tier == "thorough":
                for tl in ("jitter", "affine", "deform"):
                    out.append((cls, "grid9", "trimesh", tl, v))
                    out.append((cls, "strip6", "trimesh", tl, v))
    return out


def tps_letters(tier):
    """(kernel, n, target letter, floor letter, var)"""
    vars_ = (0, 1, 2) if tier == "thorough" else (0,)
    ns = (3, 4, 5, 6, 7, 9, 10) if tier == "thorough" else (3, 4, 6, 9)
    out = []
    for v in vars_:
        for k in TPS_KERNELS:
            for n in ns:
                for tl in ("jitter", "affine", "deform"):
                    out.append((k, n, tl, "default", v))
            out.append((k, 6, "jitter", "small", v))
            out.append((k, 4, "deform", "small", v))
            out.append((k, 6, "jitter", "trimesh", v))  # source given as a TriMesh
    return out


class C04(Check):
    id = "C04"
    title = "pseudoinverse really inverts; alignment inverses swap source and target"
    queries_must_not_mutate = True

    def depth(self):
        return 3 if self.tier == "quick" else 5

    def max_composes(self):
        return 1

    def max_retargets(self):
        return 1 if self.tier == "quick" else 2

    def roots(self):
        out = []
        for d in (2, 3):
            out += [("H",) + l for l in plain_letters(d, self.tier)]
            out += [("A",) + l for l in align_letters(d, self.tier)]
        out += [("PWA",) + l for l in pwa_letters(self.tier)]
        out += [("TPS",) + l for l in tps_letters(self.tier)]
        out += [("TC", s[0], s[1]) for s in TC_SHAPES]
        out += form_letters(self.tier)
        have = set(out)
        out += [b for b in boundary_letters(self.tier) if b not in have]
        have = set(out)
        out += [b for b in scale_letters(self.tier) if b not in have]
        return out

    # ------------------------------------------------------------------ builders
    def _build_plain(self, root):
        import menpo.transform as mt

        root, (pform, _sc, _tc) = split_form(root)
        cls, d, letter = root[1], int(root[2]), root[3]
        r = rs(self.seed, "c04", root)
        P = (lambda a: present(a, pform))  # the constructor argument in its presented form
        V = (lambda a: values_of(present(a, pform)))  # ... and the float64 values the model sees
        info = {}
        if letter == "intmat":
            # small non-negative integers (representable in every integer dtype); the 2-D rotation holds one -1
            if cls == "Homogeneous":
                H = homog(10.0 * (np.array([[2.0, 1.0], [1.0, 1.0]]) if d == 2 else np.array([[2.0, 1.0, 0.0], [1.0, 1.0, 0.0], [0.0, 1.0, 1.0]])), [30.0, 20.0, 10.0][:d])
                H[d, :d] = [1.0, 0.0, 0.0][:d]  # projective row: denominators x + 50 (horizon far from every probe)
                H[d, d] = 50.0
                return mt.Homogeneous(P(H)), V(H), info
            if cls == "Affine":
                H = homog(np.array([[2.0, 1.0], [1.0, 1.0]]) if d == 2 else np.array([[2.0, 1.0, 0.0], [1.0, 1.0, 0.0], [0.0, 1.0, 1.0]]), [3.0, 2.0, 1.0][:d])
                return mt.Affine(P(H)), V(H), info
            if cls == "Similarity":
                L = np.array([[0.0, 2.0], [2.0, 0.0]]) if d == 2 else np.array([[0.0, 0.0, 2.0], [2.0, 0.0, 0.0], [0.0, 2.0, 0.0]])
                H = homog(L, [3.0, 1.0, 2.0][:d])
                return mt.Similarity(P(H)), V(H), info
            if cls == "Rotation":
                Rm = np.array([[0.0, -1.0], [1.0, 0.0]]) if d == 2 else np.array([[0.0, 0.0, 1.0], [1.0, 0.0, 0.0], [0.0, 1.0, 0.0]])
                return mt.Rotation(P(Rm)), homog(V(Rm)), info
            if cls == "UniformScale":
                sc = present_scalar(3.0, pform) if pform != "f64" else 3.0
                return mt.UniformScale(sc, d), homog(float(sc) * np.eye(d)), info
            if cls == "NonUniformScale":
                sv = np.array([2.0, 3.0, 4.0][:d])
                return mt.NonUniformScale(P(sv)), homog(np.diag(V(sv))), info
            if cls == "Translation":
                tv = np.array([2.0, 3.0, 1.0][:d])
                return mt.Translation(P(tv)), homog(np.eye(d), V(tv)), info
            raise HarnessError(root)
        if letter == "identity":
            t = getattr(mt, cls).init_identity(d)
            return t, np.eye(d + 1), info
        trans = 0.5 + 1.5 * r.rand(d)
        if d == 2:
            R = rot2(25 + 300 * r.rand())
        elif d == 3:
            ax = r.randn(3)
            R = rodrigues(ax, 25 + 300 * r.rand())
        else:  # Homogeneous in 1-D / 4-D
            R, _ = np.linalg.qr(r.randn(d, d) + 2 * np.eye(d))
        if cls == "Homogeneous" and letter in ("scaled-1e-9", "scaled-1e9"):
            L = R.dot(np.diag(0.7 + 0.8 * r.rand(d))) + 0.1 * r.rand(d, d)
            H = homog(L, trans)
            H[d, :d] = 0.01 + 0.02 * r.rand(d)
            H = H * float(letter[7:])  # projectively the same map, every entry at another magnitude
            return mt.Homogeneous(P(H)), V(H), info
        if cls in ("Homogeneous", "Affine") and letter == "near-identity":
            H = np.eye(d + 1)
            H[:d, :] += 1e-7 * (r.rand(d, d + 1) - 0.5)  # 1e-7: nearly, but far above rounding, not the identity
            if cls == "Homogeneous":
                H[d, :d] = 1e-8 * r.rand(d)
            return getattr(mt, cls)(P(H)), V(H), info
        if cls == "Affine" and letter in ("tiny", "huge"):
            f = 1e-6 if letter == "tiny" else 1e6
            H = homog(f * (R.dot(np.diag(0.7 + 0.8 * r.rand(d))) + 0.15 * r.rand(d, d)), f * trans)
            return mt.Affine(P(H)), V(H), info
        if cls == "Translation" and letter in ("tiny", "huge"):
            tv = (0.5 + 2.0 * r.rand(d)) * (1e-9 if letter == "tiny" else 1e6) * np.array([1.0, -1.0, 1.0][:d])
            return mt.Translation(P(tv)), homog(np.eye(d), V(tv)), info
        if cls == "Homogeneous" and letter == "perm":
            # swaps (2-D) / cycles (3-D) the last coordinates with the homogeneous one: (x, y) -> (x / y, 1 / y).
            # cond = 1, own corner 0, linear block singular, so the inverse has a zero corner as well
            H = np.eye(d + 1)[[0, 2, 1]] if d == 2 else np.eye(4)[[0, 2, 3, 1]]
            return mt.Homogeneous(P(H)), V(H), info
        if cls == "Homogeneous" and letter == "linsingular-int":
            H = np.array([[1.0, 2.0, 0.0], [2.0, 4.0, 1.0], [0.0, 1.0, 0.5]]) if d == 2 else np.array([[1.0, 2.0, 0.0, 0.0], [2.0, 4.0, 0.0, 1.0], [0.0, 0.0, 1.0, 0.0], [0.0, 1.0, 0.0, 0.5]])
            return mt.Homogeneous(P(H)), V(H), info
        if cls == "Homogeneous" and letter == "linsingular":
            # generic rank d-1 linear block; translation / projective row along its null directions keep H regular
            Q, _ = np.linalg.qr(r.randn(d, d) + 2 * np.eye(d))
            sv = np.array(list(0.8 + 0.6 * r.rand(d - 1)) + [0.0])
            L = R.dot(np.diag(sv)).dot(Q.T)
            H = homog(L, 0.3 * r.rand(d) + 1.2 * R[:, -1])
            H[d, :d] = 0.25 * Q[:, -1] + 0.02 * r.rand(d)
            H[d, d] = 0.9
            return mt.Homogeneous(P(H)), V(H), info
        if cls == "Homogeneous" and letter == "cornerzero":
            L = R.dot(np.diag(0.7 + 0.8 * r.rand(d))) + 0.1 * r.rand(d, d)
            H = homog(L, trans)
            H[d, :d] = 0.15 + 0.1 * r.rand(d)  # denominators v.x > 0 on the probe region although the corner is 0
            H[d, d] = 0.0
            return mt.Homogeneous(P(H)), V(H), info
        if cls == "Homogeneous":
            L = R.dot(np.diag(0.7 + 0.8 * r.rand(d))) + 0.1 * r.rand(d, d)
            H = homog(L, trans)
            if letter != "affine":
                H[d, :d] = 0.01 + 0.02 * r.rand(d)  # projective row; probes stay far from the horizon
                info["projective"] = True
            if letter == "scaled":
                H = H * 2.5
            if letter == "negscaled":
                H = H * -1.5
            return mt.Homogeneous(P(H)), V(H), info
        if cls == "Affine":
            if letter == "generic":
                L = R.dot(np.diag(0.7 + 0.8 * r.rand(d))) + 0.15 * r.rand(d, d)
            elif letter == "negdet":
                s = 0.7 + 0.8 * r.rand(d)
                s[0] = -s[0]
                L = R.dot(np.diag(s))
            elif letter == "aniso":
                s = np.linspace(0.2, 4.0, d)
                L = R.dot(np.diag(s)).dot(R.T if d == 2 else np.eye(3))
            elif letter == "rigid":
                L = R
            elif letter == "shear":
                L = np.array([[1.0, np.tan(np.deg2rad(25 + 20 * r.rand()))], [np.tan(np.deg2rad(-35 + 10 * r.rand())), 1.0]])
            else:
                raise HarnessError(root)
            H = homog(L, trans)
            return mt.Affine(P(H)), V(H), info
        if cls == "Similarity":
            deg, s, mirror = root[4], root[5], root[6]
            Rm = rot2(deg) if d == 2 else rodrigues(ROT3_AXES["g1"], deg)
            if mirror:
                Rm = Rm.dot(np.diag([-1.0] + [1.0] * (d - 1)))
                info["negdet"] = True
            H = homog(s * Rm, trans)
            return mt.Similarity(P(H)), V(H), info
        if cls == "Rotation":
            if letter == "angle":
                Rm = rot2(root[4])
            elif letter == "axis":
                Rm = rodrigues(ROT3_AXES[root[4]], root[5])
            else:  # mirror: an orthogonal matrix of determinant -1 (what AlignmentRotation(allow_mirror) may hold)
                Rm = (rot2(root[4]) if d == 2 else rodrigues(ROT3_AXES["g2"], root[4])).dot(np.diag([1.0] * (d - 1) + [-1.0]))
                info["negdet"] = True
            return mt.Rotation(P(Rm)), homog(V(Rm)), info
        if cls == "UniformScale":
            s = float(root[4]) if pform == "f64" else present_scalar(root[4], pform)
            return mt.UniformScale(s, d), homog(float(s) * np.eye(d)), info
        if cls == "NonUniformScale":
            if letter == "fixed":
                s = np.array(NUSCALES[d][root[4]], dtype=float)
            else:
                s = 0.4 + 0.5 * np.arange(1, d + 1)[::-1] + 0.3 * r.rand(d)  # pairwise different on purpose
            return mt.NonUniformScale(P(s)), homog(np.diag(V(s))), info
        if cls == "Translation":
            mag = 0.5 + 2.0 * r.rand(d)
            sign = {"pos": np.ones(d), "neg": -np.ones(d), "mixed": np.array([1.0, -1.0, 1.0][:d]), "zero": np.zeros(d)}[letter]
            tv = mag * sign
            return mt.Translation(P(tv)), homog(np.eye(d), V(tv)), info
        raise HarnessError("unknown plain letter %r" % (root,))

    def _rescale(self, src, tgt, r):
        """the payload of a letter re-expressed at another magnitude (self._cur_scale); spread of the base payload ~ 5"""
        k = getattr(self, "_cur_scale", None)
        if k is None:
            return src, tgt
        if k.startswith("x"):
            f = float(k[1:])
            return src * f, tgt * f
        if k == "tgt-x1e-4":
            return src * 20.0, tgt * 1e-4  # source at pixel scale, target in a small unit
        if k == "tgt-x1e-6":
            return src * 20.0, tgt * 1e-6
        if k == "src-x1e-4":
            return src * 1e-4, tgt * 20.0
        if k == "offset1e6":
            return src + 5e6, tgt + 5e6  # common offset / spread ~ 1e6
        if k.startswith("near-equal-"):
            e = float(k[11:])
            return src, src * (1.0 + e) + 5.0 * e * (r.rand(*src.shape) - 0.5)  # relative difference e, not equal
        raise HarnessError("unknown scale kind %r" % (k,))

    def _build_align(self, root):
        import menpo.transform as mt
        from menpo.shape import PointCloud, TriMesh

        root, (cform, scont, tcont) = split_form(root)
        cls, d, tl, opt = root[1], int(root[2]), root[3], root[4]
        r = rs(self.seed, "c04", root)
        n = d + 1 if opt == "minimal" else 8 if opt == "n8" else 1 if opt == "n1" else 2 if opt == "n2" else 1000 if opt == "n1000" else 5
        if n > 100:
            src = 0.5 + 5.0 * r.rand(n, d)  # one large size: no pairwise guard needed for a least-squares fit
        else:
            src = generic_points(n, d, self.seed, ("c04-al", root), min_area=MIN_AREA if (d == 2 and n <= 5) else None)
        R = rot2(20 + 50 * r.rand()) if d == 2 else rodrigues(r.randn(3), 20 + 50 * r.rand())
        trans = 0.5 + r.rand(d)
        s = 0.6 + r.rand()
        c = src.mean(axis=0)
        fam = {
            "AlignmentAffine": lambda: (src - c).dot((R.dot(np.diag(0.8 + 0.5 * r.rand(d))) + 0.1 * r.rand(d, d)).T) + c + trans,
            "AlignmentSimilarity": lambda: s * (src - c).dot(R.T) + c + trans,
            "AlignmentRotation": lambda: src.dot(R.T),
            "AlignmentUniformScale": lambda: s * src,
            "AlignmentTranslation": lambda: src + trans,
        }
        if tl == "exact":
            tgt = fam[cls]()
        elif tl == "noisy":
            tgt = fam[cls]() + 0.12 * r.randn(n, d)
        elif tl == "generic":
            A = R.dot(np.diag(0.6 + 0.9 * r.rand(d))) + 0.2 * r.rand(d, d)
            tgt = (src - c).dot(A.T) + c + trans + 0.3 * r.randn(n, d)
        elif tl == "same":
            tgt = src.copy()
        elif tl == "mirrored":
            M = np.diag([-1.0] + [1.0] * (d - 1))
            tgt = s * (src - c).dot(M.T).dot(R.T) + c + trans + 0.1 * r.randn(n, d)
        else:
            raise HarnessError(root)
        src, tgt = self._rescale(src, tgt, r)
        if needs_grid(cform):
            src, tgt = np.round(QUANT["A"] * src), np.round(QUANT["A"] * tgt)
            if n > 1 and _cdist(src, src)[np.triu_indices(n, 1)].min() < 2 or _cdist(tgt, tgt)[np.triu_indices(n, 1)].min() < 2:
                raise HarnessError("integer grid letter %r lost general position" % (root,))
        fs, ft = side_forms(cform)
        ps, pt = present(src, fs), present(tgt, ft)
        src, tgt = values_of(ps), values_of(pt)
        tri5 = [[0, 1, 2], [2, 3, 4]]
        if scont == "-":
            scont = tcont = "TriMesh" if opt == "trimesh" else "PointCloud"
        S, T = container(scont, ps, n, tri5), container(tcont, pt, n, tri5)
        kw = {}
        if opt == "norotation":
            kw["rotation"] = False
        if opt == "allow_mirror":
            kw["allow_mirror"] = True
        t = getattr(mt, cls)(S, T, **kw)
        return t, src, tgt

    def _pwa_layout(self, layout, var):
        if layout == "fan5":
            return pwa_layout(self.seed, ("c04-pwa", var))
        r = rs(self.seed, "c04-pwa", layout, var)
        if layout == "grid12":
            m = 12
            g = np.array([[0.5 + 5.0 * i / (m - 1), 0.5 + 5.0 * j / (m - 1)] for i in range(m) for j in range(m)]) + (r.rand(m * m, 2) - 0.5) * 0.1
            tl = []
            for i in range(m - 1):
                for j in range(m - 1):
                    a = m * i + j
                    tl += [[a, a + 1, a + m + 1], [a, a + m + 1, a + m]]
            return g, np.array(tl)
        if layout == "tri3":
            return np.array([[0.8, 0.7], [1.0, 5.0], [5.2, 1.6]]) + (r.rand(3, 2) - 0.5) * 0.4, np.array([[0, 1, 2]])
        if layout == "quad":
            # roughly square source; the explicit diagonal 0-2 is kept whatever the target looks like
            src = np.array([[1.0, 1.0], [1.2, 4.6], [4.8, 5.0], [5.0, 1.3]]) + (r.rand(4, 2) - 0.5) * 0.3
            return src, np.array([[0, 1, 2], [0, 2, 3]])
        if layout == "grid9":
            g = np.array([[x, y] for x in (0.5, 3.0, 5.5) for y in (0.5, 3.0, 5.5)]) + (r.rand(9, 2) - 0.5) * 0.4
            tl = []
            for i in (0, 1):
                for j in (0, 1):
                    a = 3 * i + j
                    tl += [[a, a + 1, a + 4], [a, a + 4, a + 3]]
            return g, np.array(tl)
        if layout == "strip6":
            g = np.array([[0.5, 0.5], [0.5, 3.0], [3.0, 0.7], [3.0, 3.2], [5.5, 0.5], [5.5, 3.0]]) + (r.rand(6, 2) - 0.5) * 0.3
            return g, np.array([[0, 1, 3], [0, 3, 2], [2, 3, 5], [2, 5, 4]])
        raise HarnessError(layout)

    def _build_pwa(self, root):
        import menpo.transform as mt
        from menpo.shape import PointCloud, TriMesh
        from menpo.transform.piecewiseaffine.base import CachedPWA, PythonPWA

        root, (cform, scont, tcont) = split_form(root)
        cls, layout, skind, tl, var = root[1:6]
        src, trilist = self._pwa_layout(layout, var)
        r = rs(self.seed, "c04-pwa-t", root)
        c = src.mean(axis=0)
        if tl == "identity":
            tgt = src.copy()
        elif tl == "jitter":
            tgt = src + 0.5 * (r.rand(*src.shape) - 0.5)
        elif tl == "affine":
            A = rot2(20 + 40 * r.rand()).dot(np.diag([1.3, 0.7]))
            tgt = (src - c).dot(A.T) + c + np.array([0.8, -0.4])
        elif tl == "deform":
            tgt = src + 0.7 * (r.rand(*src.shape) - 0.5)
            if layout == "fan5":
                tgt[4] = src[4] + np.array([1.2, -0.9])  # the hub vertex moves a long way (all four triangles change)
        elif tl == "mirror":
            A = rot2(15 + 30 * r.rand()).dot(np.diag([-1.1, 0.9]))
            tgt = (src - c).dot(A.T) + c + 0.2 * (r.rand(*src.shape) - 0.5)
        elif tl == "diamond":
            # flat diamond: vertices 0 and 2 are the far tips, so Delaunay would choose the diagonal 1-3
            tgt = np.array([[0.5, 3.0], [3.0, 3.9], [5.5, 3.1], [3.1, 2.2]]) + (r.rand(4, 2) - 0.5) * 0.2
        else:
            raise HarnessError(root)
        klass = {"PythonPWA": PythonPWA, "CachedPWA": CachedPWA, "PiecewiseAffine": mt.PiecewiseAffine}[cls]
        if layout == "grid12":
            tgt = src + 0.12 * (r.rand(*src.shape) - 0.5)  # jitter small against the cell size
        src, tgt = self._rescale(src, tgt, r)
        q = 1.0
        if needs_grid(cform):
            q = QUANT["PWA"]
            src, tgt = np.round(q * src), np.round(q * tgt)
        fs, ft = side_forms(cform)
        ps, pt = present(src, fs), present(tgt, ft)
        src, tgt = values_of(ps), values_of(pt)
        n = src.shape[0]
        # a second, equally valid triangle list for the SAME points: a target mesh may carry one, the warp must ignore it
        other = {"quad": [[0, 1, 3], [1, 2, 3]], "fan5": [[0, 1, 2], [0, 2, 3]]}.get(layout)
        if scont == "-":
            scont = "TriMesh" if skind == "trimesh" else "PointCloud"
        if tcont == "-":
            tcont = "PointCloud"
        S = container(scont, ps, n, trilist, other)
        T = container(tcont, pt, n, trilist, other)
        t = klass(S, T)
        trilist = np.array(t.trilist, copy=True)  # for a PointCloud source the triangulation is an input read back
        # non-folding guard (deterministic): every triangle keeps a common orientation in source and in target
        # (areas relative to the extent of the point set: the guard is the same at every magnitude)
        a_s = signed_areas(src, trilist) / (np.ptp(src, axis=0).max() / 5.0) ** 2
        a_t = signed_areas(tgt, trilist) / (np.ptp(tgt, axis=0).max() / 5.0) ** 2
        amin = 0.05 if len(trilist) < 50 else 0.01
        if not ((np.all(a_s > amin) or np.all(a_s < -amin)) and (np.all(a_t > amin) or np.all(a_t < -amin))):
            raise HarnessError("PWA letter %r folds: areas %r %r" % (root, a_s, a_t))
        return t, src, tgt, trilist

    def _build_tps(self, root):
        import menpo.transform as mt
        from menpo.shape import PointCloud, TriMesh

        root, (cform, scont, tcont) = split_form(root)
        kern, n, tl, floor, var = root[1:6]
        grid = needs_grid(cform)
        fs, ft = side_forms(cform)
        scale = SMALL_SCALE if floor == "small" else QUANT["TPS"] if grid else 1.0
        msv = SMALL_MSV if floor == "small" else 1e-4
        kname = "R2LogR2RBF" if kern == "default" else kern
        for attempt in range(200):
            salt = ("c04-tps", n, tl, floor, var, attempt)
            src = generic_points(n, 2, self.seed, salt, min_area=MIN_AREA if n <= 6 else None) * scale
            r = rs(self.seed, salt, "t")
            c = src.mean(axis=0)
            if tl == "jitter":
                tgt = src + 0.35 * scale * (r.rand(n, 2) - 0.5)
            elif tl == "affine":
                A = rot2(20 + 40 * r.rand()).dot(np.diag([1.25, 0.8])) + 0.1 * r.rand(2, 2)
                tgt = (src - c).dot(A.T) + c + scale * np.array([0.6, -0.3])
            elif tl == "deform":
                tgt = src + 1.2 * scale * (r.rand(n, 2) - 0.5)
            elif tl == "identity":
                tgt = src.copy()
            else:
                raise HarnessError(root)
            if grid:
                src, tgt = np.round(src), np.round(tgt)
            if getattr(self, "_cur_scale", None) and self._cur_scale.startswith("near-equal"):
                src, tgt = self._rescale(src, tgt, r)
            src, tgt = values_of(present(src, fs)), values_of(present(tgt, ft))
            # general position / conditioning guard on both directions (the reverse fit is centred on the target)
            ok = _cdist(tgt, tgt)[np.triu_indices(n, 1)].min() >= 0.5 * scale and _cdist(src, src)[np.triu_indices(n, 1)].min() >= 0.5 * scale
            sv = [np.linalg.svd(tps_system(p, kname), compute_uv=False) for p in (src, tgt)]
            if floor == "small":
                ok = ok and all(1e-7 < s.min() < 4e-5 for s in sv)  # the default floor 1e-4 would truncate both fits
            else:
                ok = ok and all(s.min() > 2e-3 for s in sv)
            if ok:
                break
        else:
            raise HarnessError("TPS guard cannot be satisfied for %r" % (root,))
        if getattr(self, "_cur_scale", None) and self._cur_scale.startswith("x"):
            # general position was guarded at unit scale; the change of unit must not trip the absolute floor
            src, tgt = self._rescale(src, tgt, r)
            scale = scale * float(self._cur_scale[1:])
            for pts in (src, tgt):
                if np.linalg.svd(tps_system(pts, kname), compute_uv=False).min() < 10 * msv:
                    raise HarnessError("TPS scale letter %r trips the singular value floor" % (root,))
        kernel = None if kern == "default" else getattr(mt, kern)(present(src, fs))
        tri6 = [[0, 1, 2], [3, 4, 5]]
        if scont == "-":
            scont, tcont = ("TriMesh" if floor == "trimesh" else "PointCloud"), "PointCloud"
        S = container(scont, present(src, fs), n, tri6)
        T = container(tcont, present(tgt, ft), n, tri6)
        kw = {} if floor != "small" else {"min_singular_val": msv}
        t = mt.ThinPlateSplines(S, T, kernel=kernel, **kw)
        return t, src, tgt, kname, scale, msv

    # ------------------------------------------------------------------ state
    def build(self, root):
        fam = root[0]
        st = {"fam": fam, "root": root, "n_inv": 0, "n_ret": 0, "n_comp": 0, "info": {}, "kept": []}
        root, skind = split_scale(root)  # the builders see the letter without its magnitude suffix
        self._cur_scale = skind
        st["skind"] = skind
        base, form = split_form(root)
        st["form"] = form
        # float32 payloads make menpo compute in float32 (homogeneous matrices, barycentric vectors): those letters are
        # compared at float32 precision; TPS always solves in float64
        st["tolx"] = 1e6 if ("f32" in form[0] and fam in ("H", "A", "PWA")) else 1.0
        if fam == "H":
            t, H, info = self._build_plain(root)
            st.update(t=t, cls=root[1], d=int(root[2]), H=H, info=info)
        elif fam == "TC":
            from menpo.transform.tcoords import tcoords_to_image_coords

            shape = (int(root[1]), int(root[2]))
            h, w = shape
            # definition: (s, t) in the unit square -> (row, col) = ((1 - t) (h - 1), s (w - 1))
            H = np.array([[0.0, -(h - 1.0), h - 1.0], [w - 1.0, 0.0, 0.0], [0.0, 0.0, 1.0]])
            st.update(t=tcoords_to_image_coords(shape), cls="tcoords", d=2, H=H, shape=shape)
        elif fam == "A":
            t, src, tgt = self._build_align(root)
            # the fitted matrix is an INPUT here (the quality of the fit is C07): snapshot through the public API
            st.update(t=t, cls=root[1], d=int(root[2]), H=np.array(t.h_matrix, dtype=float, copy=True), src=src, tgt=tgt)
        elif fam == "PWA":
            t, src, tgt, trilist = self._build_pwa(root)
            st.update(t=t, cls=root[1], d=2, src=src, tgt=tgt, trilist=trilist)
        elif fam == "TPS":
            t, src, tgt, kname, scale, msv = self._build_tps(root)
            st.update(t=t, cls="ThinPlateSplines", d=2, src=src, tgt=tgt, kern=kname, scale=scale, msv=msv)
        else:
            raise HarnessError(root)
        if "H" in st:
            self._set_h(st, st["H"])
        st["t_class0"] = type(st["t"])
        return st

    def _set_h(self, st, H):
        st["H"] = np.array(H, dtype=float, copy=True)
        st["Hinv"] = np.linalg.solve(st["H"], np.eye(H.shape[0]))
        d = H.shape[0] - 1
        if np.abs(st["H"][d, :d]).max() < 1e-9 and abs(st["H"][d, d] - 1) < 1e-9:
            # affine: errors are amplified by the linear part only (the size of the translation enters the
            # tolerances through the coordinate scale of the probe images)
            st["cond"] = float(np.linalg.cond(st["H"][:d, :d]))
        else:
            st["cond"] = float(np.linalg.cond(st["H"]))
        if _err(st["H"].dot(st["Hinv"]), np.eye(H.shape[0])) > 1e-9 * max(1.0, np.abs(st["H"]).max() * np.abs(st["Hinv"]).max()) or st["cond"] > 1e4:
            raise HarnessError("reference matrix is badly conditioned (cond %.3g) for %r" % (st["cond"], st["root"]))

    def canon(self, st):
        # 'warm' (the live object has already produced an inverse before its target moved) is not observable
        # through the public API, but it is exactly what a remembered inverse would depend on: keep it in the key
        # numeric part of the key = the REFERENCE MODEL (which every step oracle has just compared with the live object):
        # the live matrices carry rounding noise amplified by the conditioning (inv(inv(H)) vs H), the model does not,
        # so states reached by different histories merge exactly and have exactly equal successors
        t = st["t"]
        model = {k: st[k] for k in ("H", "src", "tgt", "trilist", "kern", "msv") if k in st}
        shape = (type(t).__name__, str(getattr(getattr(t, "h_matrix", None), "dtype", "")), type(getattr(t, "source", None)).__name__, type(getattr(t, "target", None)).__name__)
        return (st["n_inv"] % 2, st["n_ret"], st["n_comp"], bool(st.get("warm")), shape, obs_key(self._normalised(model)))

    @classmethod
    def _normalised(cls, o):
        """float arrays as (decimal exponent, mantissa) per element: the canonical key then keeps 9 SIGNIFICANT digits at
        every magnitude (obs_key alone rounds to 9 decimals)"""
        if isinstance(o, np.ndarray):
            if o.dtype.kind == "f" and o.size:
                # element by element: decimal exponent and mantissa (small entries next to large ones keep their digits)
                a = np.where(np.isfinite(o), o, 0.0)
                with np.errstate(all="ignore"):
                    e = np.where(a != 0, np.floor(np.log10(np.abs(np.where(a != 0, a, 1.0)))), 0.0)
                mant = np.round(a / 10.0 ** e, 9)
                over = np.abs(mant) >= 10.0
                mant = np.where(over, mant / 10.0, mant)
                e = np.where(over, e + 1, e)
                return {"exp": e.astype(int), "mant": mant, "finite": np.isfinite(o)}
            return o
        if isinstance(o, dict):
            return {k: cls._normalised(v) for k, v in o.items()}
        if isinstance(o, (list, tuple)):
            return [cls._normalised(v) for v in o]
        return o

    def is_query(self, op):
        return op[0] in ("pinv_vec", "tc_pair", "apply_forms", "refuse")

    # ------------------------------------------------------------------ alphabet
    def ops(self, st, level):
        out = []
        if st["n_comp"] == 0:
            # refused calls first: the valid ops below then run on the very object that has seen them
            out += [("refuse", k) for k in self._refusal_kinds(st)]
        if st["fam"] in ("H", "A", "TC"):
            out.append(("pinv_vec",))
        if st["fam"] == "TC" and st["n_inv"] == 0:
            out.append(("tc_pair",))
        if st["n_comp"] == 0 and st["n_ret"] == 0:
            out.append(("apply_forms",))
        out.append(("pinv",))
        if st["fam"] in ("A", "PWA", "TPS") and st["n_ret"] < self.max_retargets():
            # 'warm': the inverse has been taken once before the target moves (a memoised inverse would go stale)
            out.append(("retarget", st["n_ret"], "cold"))
            out.append(("retarget", st["n_ret"], "warm"))
        if st["fam"] in ("H", "A") and st["d"] in (2, 3) and st["n_comp"] < self.max_composes():
            for side in ("before", "after"):
                for name in COMPOSE_OPERANDS:
                    out.append(("compose", side, name))
        return out

    # ------------------------------------------------------------------ probes and reference maps
    def _probes(self, st, which):
        """points in the domain of the current forward map ('fwd') / of its inverse ('inv'), with their reference images"""
        fam = st["fam"]
        if fam in ("H", "A", "TC"):
            d = st["d"]
            X = self._safe_probes(st, which)
            if fam == "A":
                X = np.vstack([self._around(st["src"], X), st["src"][:8]])
            if fam == "TC":
                X = np.vstack([X / 6.0, np.array([[0.0, 0.0], [1.0, 0.0], [0.0, 1.0], [1.0, 1.0]])])
            Y = h_apply(st["H"], X)
            return (X, Y) if which == "fwd" else (Y, X)  # inverse-side probes are images, hence in the range
        if fam == "PWA":
            X, Y = pwa_pairs(st["src"], st["tgt"], st["trilist"])
            return (X, Y) if which == "fwd" else (Y, X)
        raise HarnessError(fam)

    @staticmethod
    def _around(pts, G):
        """generic points G of [0.5, 5.5]^d moved into the region (centre, radius) of a landmark set"""
        c = pts.mean(axis=0)
        rho = float(np.abs(pts - c).max())
        if rho == 0:
            rho = max(float(np.abs(c).max()), 1.0) * 0.5
        return c + (G - 3.0) / 2.5 * rho

    def _generic(self, n, d, salt):
        if d == 1:  # six points at pairwise distance >= 0.8 do not fit a random draw on [0.5, 5.5]
            return (0.6 + 0.9 * np.arange(n) + 0.1 * rs(self.seed, salt, n, d).rand(n))[:, None]
        return generic_points(n, d, self.seed, salt)

    @staticmethod
    def _away_from_horizon(H, X, margin=0.2):
        """points whose homogeneous denominator v.x + w is not the result of a cancellation (trivially all for affine H)"""
        d = H.shape[0] - 1
        den = X.dot(H[d, :d]) + H[d, d]
        ref = np.abs(X).dot(np.abs(H[d, :d])) + abs(H[d, d])
        with np.errstate(invalid="ignore"):
            return np.isfinite(den) & (np.abs(den) >= margin * ref) & (ref > 0)

    def _safe_probes(self, st, which):
        """up to 6 generic points that stay away from the horizon of the current map (their images are then away from
        the horizon of the inverse): for affine maps simply the 6 generic points"""
        d = st["d"]
        G = self._generic(6, d, ("c04-probe", which, d))
        H = st["H"]
        if self._away_from_horizon(H, G).all():
            return G
        with np.errstate(all="ignore"):
            back = h_apply(st["Hinv"], G)  # points of the range of the inverse
        pool = np.vstack([G, back[np.all(np.isfinite(back), axis=1) & (np.abs(back).max(axis=1) < 50)], 0.5 + 5.0 * rs(self.seed, "c04-probe-pool", which, d).rand(60, d)])
        X = pool[self._away_from_horizon(H, pool)][:6]
        if X.shape[0] < 3:
            raise HarnessError("no probe points away from the horizon for %r" % (st["root"],))
        return X

    def _mag(self, st, space):
        """magnitude of the data that lives in the source ('src') / target ('tgt') space of the current map: landmark
        coordinates, and the translation the map adds on its way into that space"""
        m = 0.0
        if "H" in st:
            Hm = st["H"] if space == "tgt" else st["Hinv"]
            d = Hm.shape[0] - 1
            if abs(Hm[d, d]) > 1e-12 * np.abs(Hm).max():
                m = float(np.abs(Hm[:d, d] / Hm[d, d]).max())
        if "src" in st:
            pts = st["tgt"] if space == "tgt" else st["src"]
            m = max(m, float(np.abs(pts).max()))
        return m

    def _map_tol(self, st, *arrays, **kw):
        """tolerance RELATIVE to the magnitude of the data: of the arrays given (the expected output, possibly the
        input) and, with space='src'/'tgt', of everything that lives in the space the output belongs to"""
        mags = [float(np.abs(a).max()) for a in arrays if np.size(a)]
        if kw.get("space"):
            mags.append(self._mag(st, kw["space"]))
        scale = max(mags) if mags and max(mags) > 0 else 1.0
        return RTOL_MAP * max(1.0, st.get("cond", 1.0)) * scale * st.get("tolx", 1.0)

    def _tps_tol(self, st, space):
        pts = st["tgt"] if space == "tgt" else st["src"]
        return RTOL_TPS * float(np.abs(pts).max()) / 4.0

    def _tps_points(self, st):
        return self._around(st["src"], generic_points(7, 2, self.seed, ("c04-tps-probe",)))

    # ------------------------------------------------------------------ root oracle
    def check_root(self, st, root):
        """the live input behaves as its reference model (otherwise nothing below would mean anything)"""
        fails = []
        t = st["t"]
        fam = st["fam"]
        if fam in ("H", "A", "TC", "PWA"):
            X, Y = self._probes(st, "fwd")
            ok, e = _close("root-map", t.apply(X.copy()), Y, self._map_tol(st, Y, space="tgt"))
            if not ok:
                fails.append(Failure(st["cls"], "input-map-differs-from-model", "root %r: max error %.3g" % (root, e)))
        else:
            X = self._tps_points(st)
            ok, e = _close("root-tps", t.apply(X.copy()), tps_fit(st["src"], st["tgt"], st["kern"])(X), self._tps_tol(st, "tgt"))
            if not ok:
                fails.append(Failure(st["cls"], "input-map-differs-from-model", "root %r: max error %.3g" % (root, e)))
        if fam == "A":
            if not (np.array_equal(t.source.points, st["src"]) and np.array_equal(t.target.points, st["tgt"])):
                fails.append(Failure(st["cls"], "input-map-differs-from-model", "alignment does not hold the source/target it was given"))
        self._structure_notes(st)
        if st.get("skind") and st["n_inv"] == 0 and st["n_ret"] == 0 and st["n_comp"] == 0:
            self.note("scale:%s:%s" % (fam, st["skind"]))
            if st["skind"].startswith("x") and fam in ("A", "PWA", "TPS"):
                fails.extend(self._equivariance(st))
        return fails

    def _equivariance(self, st):
        """change of unit: the inverse built from s x (source, target) is the inverse built from (source, target)
        conjugated with the scaling, p_s(s y) == s p_1(y)"""
        f = float(st["skind"][1:])
        base_root, _ = split_scale(st["root"])
        keep = self._cur_scale
        st1 = self.build(base_root)
        self._cur_scale = keep
        p1, ps = st1["t"].pseudoinverse(), st["t"].pseudoinverse()
        if st["fam"] == "TPS":
            Y1 = self._around(st1["tgt"], generic_points(7, 2, self.seed, ("c04-tps-probe",)))
            tol = self._tps_tol(st, "src")
        else:
            _, Y1 = self._probes(st1, "fwd")
            tol = self._map_tol(st, st["src"], space="src")
        a = self._try_apply(ps, f * Y1)
        b = self._try_apply(p1, Y1)
        if isinstance(a, str) or isinstance(b, str):
            return [Failure(st["cls"], "scale-equivariance", "root %r: %s / %s" % (st["root"], a if isinstance(a, str) else "ok", b if isinstance(b, str) else "ok"))]
        ok, e = _close("equivariance", a, f * b, tol)
        if not ok:
            return [Failure(st["cls"], "scale-equivariance", "root %r: inverse of the %g-scaled alignment differs from the scaled inverse by %.3g (tol %.2g)" % (st["root"], f, e, tol))]
        self.note("equivariance:%s" % st["fam"])
        return []

    def _structure_notes(self, st):
        fam = st["fam"]
        cform, sc, tc = st["form"]
        if (cform, sc, tc) != ("f64", "-", "-"):
            if cform != "f64":
                self.note("form:%s:%s" % (fam, cform))
            if (sc, tc) != ("-", "-"):
                self.note("container:%s:%s>%s" % (fam, sc, tc))
        if fam == "PWA" and st["n_inv"] == 0 and hasattr(st["t"].target, "trilist") and tri_set(st["t"].target.trilist) != tri_set(st["trilist"]):
            self.note("structure:pwa-target-mesh-carries-another-trilist")
        if fam in ("H", "A", "TC"):
            H = st["H"]
            d = st["d"]
            big = np.abs(H).max()
            if abs(H[d, d]) <= 1e-14 * big:
                self.note("boundary:own-corner-zero")
            if abs(st["Hinv"][d, d]) <= 1e-14 * np.abs(st["Hinv"]).max():
                self.note("boundary:inverse-corner-zero(linear-block-singular)")
            if np.array_equal(H, np.eye(d + 1)):
                self.note("boundary:identity:%s" % st["cls"])
            if d not in (2, 3):
                self.note("boundary:homogeneous-%dd" % d)
            if fam == "A" and st["src"].shape[0] <= 2:
                self.note("boundary:alignment-%d-point(s)" % st["src"].shape[0])
            if fam == "A" and st["src"].shape[0] >= 1000:
                self.note("structure:large-size")
            if fam == "A" and np.array_equal(st["src"], st["tgt"]):
                self.note("boundary:alignment-target-equals-source")
            if np.abs(H[d, :d]).max() > 1e-6:
                self.note("structure:projective-row")
            if np.linalg.det(H[:d, :d]) < 0:
                self.note("structure:negative-determinant")
        if fam == "A":
            resid = _err(h_apply(st["H"], st["src"]), st["tgt"])
            self.note("structure:alignment-" + ("exact-fit" if resid < 1e-9 else "inexact-fit"))
        if fam == "PWA":
            from scipy.spatial import Delaunay

            for nm, pts in (("source", st["src"]), ("target", st["tgt"])):
                if tri_set(Delaunay(pts).simplices) != tri_set(st["trilist"]):
                    self.note("structure:pwa-trilist-not-delaunay-of-" + nm)
            if signed_areas(st["src"], st["trilist"])[0] * signed_areas(st["tgt"], st["trilist"])[0] < 0:
                self.note("structure:pwa-orientation-reversing")
            if len(st["trilist"]) == 1:
                self.note("boundary:pwa-single-triangle")
            if len(st["trilist"]) > 100:
                self.note("structure:large-size")
        if fam == "TPS":
            for nm, pts in (("source", st["src"]), ("target", st["tgt"])):
                s = np.linalg.svd(tps_system(pts, st["kern"]), compute_uv=False)
                if s.min() < 1e-4:
                    self.note("structure:tps-default-floor-would-truncate-" + nm)
            if np.array_equal(st["src"], st["tgt"]):
                self.note("boundary:tps-target-equals-source")
            if st["src"].shape[0] == 3:
                self.note("boundary:tps-three-landmarks")

    # ------------------------------------------------------------------ honesty predicates (as in C03)
    def _honesty(self, p, st_after):
        import menpo.transform as mt

        out = []
        H = np.asarray(p.h_matrix, dtype=float)
        d = st_after["d"]
        if H.shape != (d + 1, d + 1) or not np.all(np.isfinite(H)):
            return ["h_matrix has shape %r / non finite entries" % (H.shape,)]
        L, tr = H[:d, :d], H[:d, d]
        lmax = max(float(np.abs(L).max()), 1e-300)
        rel = RTOL_HONEST * max(1.0, st_after["cond"]) * st_after.get("tolx", 1.0)

        def chk(tag, a, b, scale):
            # every predicate is judged relative to the magnitude of the quantity it constrains
            ok, e = _close("honest-" + tag, a, b, rel * scale)
            if not ok:
                out.append("%s violated by %.3g" % (tag, e))

        if isinstance(p, mt.Affine):
            # a generic matrix inverse leaves rounding noise ~ eps x cond(whole matrix) in the last row
            chk("Affine: last row (0..0 1)", H[d], np.eye(d + 1)[d], max(1.0, 100 * np.finfo(float).eps * np.linalg.cond(H) / rel))
        if isinstance(p, mt.Similarity):
            s2 = np.trace(L.T.dot(L)) / d
            chk("Similarity: LtL = s^2 I", L.T.dot(L), s2 * np.eye(d), lmax ** 2)
        if isinstance(p, mt.Rotation):
            chk("Rotation: LtL = I", L.T.dot(L), np.eye(d), 1.0)
            chk("Rotation: zero translation", tr, np.zeros(d), 1.0)
            want = np.sign(np.linalg.det(st_after["H"][:d, :d]))
            if np.sign(np.linalg.det(L)) != want:
                out.append("Rotation: determinant sign %+d, inverse of the original has %+d" % (np.sign(np.linalg.det(L)), want))
        if isinstance(p, mt.Translation):
            chk("Translation: L = I", L, np.eye(d), 1.0)
        if isinstance(p, mt.UniformScale):
            chk("UniformScale: L = sI", L, L[0, 0] * np.eye(d), lmax)
            chk("UniformScale: zero translation", tr, np.zeros(d), lmax)
        if isinstance(p, mt.NonUniformScale):
            chk("NonUniformScale: L diagonal", L, np.diag(np.diag(L)), lmax)
            chk("NonUniformScale: zero translation", tr, np.zeros(d), lmax)
        return out

    # ------------------------------------------------------------------ steps
    def apply(self, st, op, verify=True):
        np.random.seed(12345)  # Rotation._axis_and_angle_of_rotation_3d draws from the global stream
        TAG_SUFFIX[0] = " [float32 letter]" if st.get("tolx", 1.0) > 1 else ""
        CUR_ROOT[0] = (st["root"], st["n_inv"], st["n_ret"], st["n_comp"], op)
        kind = op[0]
        if kind == "refuse":
            return self._op_refuse(st, op, verify)
        if kind in ("pinv", "retarget", "compose"):
            # every valid state-changing op is preceded by all refused calls this object knows (d): on the
            # unchanged tree they leave no trace, so the op must behave as on an object that never saw them
            self._exercise_refusals(st)
        if kind == "pinv":
            return self._op_pinv(st, verify)
        if kind == "retarget":
            return self._op_retarget(st, op, verify)
        if kind == "compose":
            return self._op_compose(st, op, verify)
        if kind == "pinv_vec":
            return self._op_pinv_vec(st) if verify else []
        if kind == "tc_pair":
            return self._op_tc_pair(st) if verify else []
        if kind == "apply_forms":
            return self._op_apply_forms(st) if verify else []
        raise HarnessError("unknown op %r" % (op,))

    def _swap_model(self, st):
        if "H" in st:
            st["H"], st["Hinv"] = st["Hinv"], st["H"]
        if "src" in st:
            st["src"], st["tgt"] = st["tgt"], st["src"]
        st["n_inv"] += 1
        st["warm"] = False  # the inverse is a new object

    def _op_pinv(self, st, verify):
        import menpo.transform as mt
        from menpo.transform.base.alignment import Alignment

        t = st["t"]
        fam, cls = st["fam"], st["cls"]
        lvl = "pinv" if st["n_inv"] == 0 else "pinv-of-inverse"
        if not verify:
            self._keep(st, t, self._model_of(st), "original")
            st["t"] = t.pseudoinverse()
            self._swap_model(st)
            return []
        fails = []

        def bad(clause, detail):
            fails.append(Failure(cls, clause, "%s after %d inversion(s), %d retarget(s) of %r: %s" % (lvl, st["n_inv"], st["n_ret"], st["root"], detail)))

        obs_before = observe(t)
        hti_before = t.has_true_inverse
        if fam != "TPS":
            X, Yref = self._probes(st, "fwd")
            Y_live = np.array(t.apply(X.copy()), copy=True)  # t(X), taken BEFORE the inverse is built
        else:
            X = self._tps_points(st)
        p = t.pseudoinverse()
        # -- the receiver is the transform that is being undone: it must still be the same transform
        dd = obs_diff(obs_before, observe(t))
        if dd is not None:
            bad("receiver-changed", dd)
        # -- has_true_inverse is a constant of the class
        want_hti = fam != "TPS"
        for who, val in (("receiver", hti_before), ("receiver-after", t.has_true_inverse), ("inverse", getattr(p, "has_true_inverse", None))):
            if val is not want_hti:
                bad("has-true-inverse", "%s reports %r, the class constant is %r" % (who, val, want_hti))
        # -- class of the result
        if fam in ("H", "TC"):
            if not isinstance(p, mt.Homogeneous):
                bad("class", "inverse is a %s, not a homogeneous-family transform" % type(p).__name__)
                return fails
        elif fam == "A":
            if not (isinstance(p, mt.Homogeneous) and isinstance(p, Alignment)):
                bad("class", "inverse of an alignment is a %s (homogeneous alignment expected)" % type(p).__name__)
                return fails
        else:
            if type(p) is not type(t):
                bad("class", "inverse of a %s is a %s" % (type(t).__name__, type(p).__name__))
                return fails
        self.note("class:%s->%s" % (type(t).__name__, type(p).__name__))
        after = dict(st)
        self._swap_model(after)  # model of p

        if fam in ("H", "A", "TC"):
            tol = self._map_tol(st, X, space="src")  # outputs compared in the source space of t
            # left inverse on the images computed by the real t
            ok, e = _close("left", p.apply(Y_live.copy()), X, tol)
            if not ok:
                bad("left-inverse", "p(t(X)) != X, max error %.3g (tol %.2g)" % (e, tol))
            # right inverse on points of the range
            X2, _ = self._probes(after, "fwd")  # = reference images of a second probe set: in the domain of p
            ok, e = _close("right", t.apply(np.asarray(p.apply(X2.copy()))), X2, self._map_tol(st, X2, space="tgt"))
            if not ok:
                bad("right-inverse", "t(p(X)) != X, max error %.3g (tol %.2g)" % (e, tol))
            # against the reference inverse (for pinv-of-inverse this is the ORIGINAL forward map)
            ok, e = _close("refmap", p.apply(Yref.copy()), X, tol)
            if not ok:
                bad("inverse-map", "p differs from the reference inverse map by %.3g (tol %.2g)" % (e, tol))
            # honesty of the inverse is asked for honest receivers only: menpo lets some classes swallow a wider
            # class in place (e.g. Similarity.compose_before_inplace(NonUniformScale) is accepted), after which the
            # receiver itself is no member of its class; that is a composition defect (C03), not an inversion defect
            if self._honesty(t, st):
                self.note("honesty:not-asked-receiver-itself-dishonest:%s" % type(t).__name__)
            else:
                self.note("honesty:asked")
                for msg in self._honesty(p, after):
                    bad("honesty", "%s is not an honest member of its class: %s" % (type(p).__name__, msg))
            # matrix product (defined up to scale for projective matrices)
            M = np.asarray(p.h_matrix, dtype=float).dot(np.asarray(t.h_matrix, dtype=float))
            if M.shape == st["H"].shape and np.all(np.isfinite(M)):
                if not isinstance(p, mt.Affine) and abs(M[-1, -1]) > 1e-12:
                    M = M / M[-1, -1]
                mag = max(1.0, float(np.abs(p.h_matrix).max()) * float(np.abs(t.h_matrix).max()))
                ok, e = _close("hprod", M, np.eye(M.shape[0]), RTOL_HPROD * max(1.0, st["cond"]) ** 2 * mag * st["tolx"])
                if not ok:
                    bad("h-product", "p.h_matrix . t.h_matrix differs from I by %.3g" % e)
            else:
                bad("h-product", "shapes %r" % (M.shape,))
        if fam in ("A", "PWA", "TPS"):
            # source and target exchanged (exact: nothing has to be recomputed)
            if not (hasattr(p, "source") and hasattr(p, "target")):
                bad("swap-source", "inverse has no source/target")
                return fails
            if not np.array_equal(np.asarray(p.source.points), st["tgt"]):
                bad("swap-source", "inverse.source is not the target of the original (max diff %.3g)" % _err(p.source.points, st["tgt"]))
            if not np.array_equal(np.asarray(p.target.points), st["src"]):
                bad("swap-target", "inverse.target is not the source of the original (max diff %.3g)" % _err(p.target.points, st["src"]))
        if fam == "PWA":
            if tri_set(p.trilist) != tri_set(st["trilist"]):
                bad("trilist", "inverse is built on triangles %r, original on %r" % (sorted(tri_set(p.trilist)), sorted(tri_set(st["trilist"]))))
            tol = self._map_tol(st, X, space="src")
            res = self._try_apply(p, Y_live)
            ok, e = (False, res) if isinstance(res, str) else _close("left", res, X, tol)
            if not ok:
                bad("left-inverse", "p(t(X)) != X on interior points of the source triangles: %s" % (e,))
            X2, _ = self._probes(after, "fwd")  # interior points of the target triangles
            res = self._try_apply(p, X2)
            if not isinstance(res, str):
                res = self._try_apply(t, res)
            ok, e = (False, res) if isinstance(res, str) else _close("right", res, X2, self._map_tol(st, X2, space="tgt"))
            if not ok:
                bad("right-inverse", "t(p(Y)) != Y on interior points of the target triangles: %s" % (e,))
            res = self._try_apply(p, Yref)
            ok, e = (False, res) if isinstance(res, str) else _close("refmap", res, X, tol)
            if not ok:
                bad("inverse-map", "p differs from the reference barycentric inverse: %s" % (e,))
            lm_t, lm_s = st["tgt"], st["src"]
            if st["tolx"] > 1:
                # float32 coordinates: whether a vertex lies inside its own triangle is decided by float32 rounding
                # (as for edge points); approach every landmark from inside each of its triangles instead
                eps = 1e-3
                W = np.array([[1 - eps, eps / 2, eps / 2], [eps / 2, 1 - eps, eps / 2], [eps / 2, eps / 2, 1 - eps]])
                lm_t = np.vstack([W.dot(st["tgt"][tri]) for tri in st["trilist"]])
                lm_s = np.vstack([W.dot(st["src"][tri]) for tri in st["trilist"]])
                self.note("interpolation:landmarks-approached-from-inside(float32)")
            res = self._try_apply(p, lm_t)
            ok, e = (False, res) if isinstance(res, str) else _close("interp", res, lm_s, 1e-8 * float(np.abs(st["src"]).max()) * st["tolx"])
            if not ok:
                bad("interpolation", "target landmarks are not sent back onto the source landmarks: %s" % (e,))
        if fam == "TPS":
            sc = self._tps_tol(st, "src") / RTOL_TPS
            ok, e = _close("interp-tps", p.apply(st["tgt"].copy()), st["src"], RTOL_TPS * sc)
            if not ok:
                bad("interpolation", "target landmarks are not sent back onto the source landmarks: max error %.3g (landmark scale %.3g)" % (e, sc))
            ref = tps_fit(st["tgt"], st["src"], st["kern"])
            ok, e = _close("reverse-fit", p.apply(X.copy()), ref(X), RTOL_TPS * sc)
            if not ok:
                bad("reverse-fit", "inverse differs from the spline fitted from target to source by %.3g (landmark scale %.3g)" % (e, sc))
            kc = getattr(getattr(p, "kernel", None), "c", None)
            if kc is None or not np.array_equal(np.asarray(kc), np.asarray(p.source.points)):
                bad("kernel-centres", "the kernel of the inverse is not centred on the source points of the inverse")
        if fails:
            return fails
        # taking one more inverse must not disturb anything that was returned / inverted earlier
        fails.extend(self._check_kept(st, "pseudoinverse()"))
        if fails:
            return fails
        # from now on the receiver is watched: later operations on its inverse must leave it alone
        self._keep(st, t, self._model_of(st), "original")
        self.note("%s:%s" % (lvl, fam))
        if st["n_ret"]:
            self.note("pinv-after-retarget:%s" % fam)
        if st["n_comp"]:
            self.note("pinv-after-compose:%s" % fam)
        st["t"] = p
        self._swap_model(st)
        return fails

    # ------------------------------------------------------------------ relatives that must stay what they were
    MODEL_KEYS = ("fam", "cls", "d", "root", "H", "Hinv", "cond", "src", "tgt", "trilist", "kern", "scale", "msv", "tolx")

    def _model_of(self, st, inverse=False):
        """frozen copy of the reference model of the current object (or of its inverse)"""
        m = {k: (np.array(st[k], copy=True) if isinstance(st[k], np.ndarray) else st[k]) for k in self.MODEL_KEYS if k in st}
        if inverse:
            if "H" in m:
                m["H"], m["Hinv"] = m["Hinv"], m["H"]
            if "src" in m:
                m["src"], m["tgt"] = m["tgt"], m["src"]
        return m

    def _keep(self, st, obj, model, label):
        """remember a transform (an inverse that was returned, or an original whose inverse is now the current object)
        with its observation at this moment: every later operation on its relative must leave it exactly as it is"""
        st["kept"].append({"obj": obj, "obs": observe(obj), "model": model, "label": label})

    def _check_kept(self, st, what):
        fails = []
        for i, k in enumerate(st["kept"]):
            m = k["model"]
            label = k["label"]
            clause = "earlier-inverse-changed-by-later-operation" if label == "inverse" else "original-changed-by-operation-on-its-inverse"
            dd = obs_diff(k["obs"], observe(k["obj"]))
            if dd is not None:
                fails.append(Failure(st["cls"], clause, "%s on a relative changed the %s #%d (a %s) of root %r: %s" % (what, label, i, type(k["obj"]).__name__, st["root"], dd)))
                continue
            # and it is still the map it was when it was returned (for an inverse: the exact inverse of the map
            # the original had at that time)
            if m["fam"] == "TPS":
                X = self._tps_points(m)
                ok, e = _close("kept-tps", k["obj"].apply(X.copy()), tps_fit(m["src"], m["tgt"], m["kern"])(X), self._tps_tol(m, "tgt"))
            else:
                X, Y = self._probes(m, "fwd")
                res = self._try_apply(k["obj"], X)
                ok, e = (False, res) if isinstance(res, str) else _close("kept-map", res, Y, self._map_tol(m, Y, space="tgt"))
            if not ok:
                fails.append(Failure(st["cls"], clause, "after %s the %s #%d of root %r is no longer the map it was when it was returned: %s" % (what, label, i, st["root"], e)))
            else:
                self.note("kept-%s:intact" % label)
        return fails

    @staticmethod
    def _try_apply(tr, pts):
        from menpo.transform.piecewiseaffine import TriangleContainmentError

        try:
            return np.asarray(tr.apply(np.array(pts, copy=True)))
        except TriangleContainmentError as e:
            return "TriangleContainmentError for %d of %d points of the domain" % (int(np.sum(e.points_outside_source_domain)), len(pts))

    def _op_retarget(self, st, op, verify):
        """set_target with a deterministic new target = affine image of the current source + small jitter.
        Not under test here (C08): it only produces alignments in a non-initial state."""
        from menpo.shape import PointCloud

        t = st["t"]
        k = int(op[1])
        src = st["src"]
        d = src.shape[1]
        size = float(np.ptp(src, axis=0).max())
        c = src.mean(axis=0)
        for attempt in range(60):
            # the letter depends on the model state only through what canon() keeps (parity of inversions)
            r = rs(self.seed, "c04-retarget", st["root"], st["n_inv"] % 2, k, attempt)
            ang = 20 + 15 * k + 7 * attempt
            if d == 2:
                A = rot2(ang).dot(np.diag([1.15, 0.9]))
            else:
                A = rodrigues((0.3, 0.5, -0.8), ang).dot(np.diag([1.15, 0.9, 1.05]))
            big = st["fam"] == "PWA" and len(st["trilist"]) > 50
            new = (src - c).dot(A.T) + c + 0.1 * size * (1 + k) + (0.005 if big else 0.04) * size * (r.rand(*src.shape) - 0.5)
            # deterministic guards: the retargeted warp stays inside the quantifier of the property
            if st["fam"] == "PWA":
                a_t = signed_areas(new, st["trilist"]) / (size / 5.0) ** 2  # relative to the extent, as in build
                amin = 0.01 if big else 0.05
                if not (np.all(a_t > amin) or np.all(a_t < -amin)):
                    continue
            if st["fam"] == "TPS":
                sv = np.linalg.svd(tps_system(new, st["kern"]), compute_uv=False)
                if sv.min() < (1e-3 if st["msv"] == 1e-4 else 1e-7):  # 10 x the floor in force
                    continue
            break
        else:
            raise HarnessError("retarget guard cannot be satisfied for %r" % (st["root"],))
        if len(op) > 2 and op[2] == "warm":
            self._keep(st, t.pseudoinverse(), self._model_of(st, inverse=True), "inverse")
            st["warm"] = True
        t.set_target(PointCloud(new.copy()))
        st["tgt"] = new
        st["n_ret"] += 1
        if st["fam"] == "A":
            self._set_h(st, np.array(t.h_matrix, copy=True))
        fails = []
        if verify:
            fails = self.check_root(st, st["root"])  # the live object still follows the model
            fails.extend(self._check_kept(st, "set_target()"))
            self.note("retarget-%s:%s" % (op[2] if len(op) > 2 else "cold", st["fam"]))
        return fails

    def _operand(self, d, name):
        """operand letters of the in-place compositions (live transform, reference matrix)"""
        import menpo.transform as mt

        r = rs(self.seed, "c04-operand", d, name)
        R = rot2(40.0) if d == 2 else rodrigues((0.4, -0.3, 0.85), 40.0)
        tv = 0.4 + r.rand(d)
        if name == "Translation":
            return mt.Translation(tv.copy()), homog(np.eye(d), tv)
        if name == "UniformScale":
            return mt.UniformScale(1.7, d), homog(1.7 * np.eye(d))
        if name == "NonUniformScale":
            sc = np.array([0.6, 1.9, 1.3][:d])
            return mt.NonUniformScale(sc.copy()), homog(np.diag(sc))
        if name == "Rotation":
            return mt.Rotation(R.copy()), homog(R)
        if name == "Similarity":
            H = homog(0.7 * R, tv)
            return mt.Similarity(H.copy()), H
        if name == "Affine":
            H = homog(R.dot(np.diag([1.4, 0.8, 1.1][:d])) + 0.1 * r.rand(d, d), tv)
            return mt.Affine(H.copy()), H
        if name == "Homogeneous":
            H = homog(R.dot(np.diag([1.2, 0.9, 1.1][:d])), tv)
            H[d, :d] = 0.01 + 0.01 * r.rand(d)
            return mt.Homogeneous(H.copy()), H
        raise HarnessError(name)

    def _op_compose(self, st, op, verify):
        """t.compose_{before,after}_inplace(operand): whether menpo accepts the operand is not judged here (C03);
        an accepted composition moves the model by the documented law, a refusal (ValueError) leaves it alone.
        The point is the NEXT step: the pseudoinverse of a transform whose matrix was composed in place."""
        side, name = op[1], op[2]
        t = st["t"]
        arg, HA = self._operand(st["d"], name)
        # the inverse taken just before the matrix is composed in place must stay the inverse of the OLD map
        self._keep(st, t.pseudoinverse(), self._model_of(st, inverse=True), "inverse")
        try:
            getattr(t, "compose_%s_inplace" % side)(arg)
            accepted = True
        except ValueError:
            accepted = False
        if accepted:
            self._set_h(st, HA.dot(st["H"]) if side == "before" else st["H"].dot(HA))
            st["n_comp"] += 1
            st["warm"] = False
            if st["fam"] == "A":
                # whether the alignment re-synchronises its target is not C04's business: read it back
                st["src"] = np.array(t.source.points, copy=True)
                st["tgt"] = np.array(t.target.points, copy=True)
        if not verify:
            return []
        self.note("compose:%s" % ("accepted" if accepted else "refused"))
        X, Y = self._probes(st, "fwd")
        ok, e = _close("compose-map", t.apply(X.copy()), Y, self._map_tol(st, Y, space="tgt"))
        if not ok:
            return [Failure(st["cls"], "input-map-differs-from-model", "after compose_%s_inplace(%s) [%s] on %r: max error %.3g" % (side, name, "accepted" if accepted else "refused", st["root"], e))]
        return self._check_kept(st, "compose_%s_inplace(%s)" % (side, name))

    # ------------------------------------------------------------------ refused calls
    # calls the unchanged tree legitimately refuses; one letter per refusal kind the anchored code distinguishes
    WRONG_SIZE_NOT_REFUSED = ("UniformScale", "NonUniformScale")  # accept vectors of any length (C05's question)

    def _singular_vector(self, st):
        """a correctly sized parameter vector describing a SINGULAR member of the class (None if there is none)"""
        import menpo.transform as mt

        t, d = st["t"], st["d"]
        Hs = np.eye(d + 1)
        Hs[d - 1, d - 1] = 0.0  # rank d linear block ... of rank d - 1
        Hs[:d, d] = [1.0, 2.0, 0.5, 0.25][:d]
        if type(t) is mt.Homogeneous:
            return Hs.ravel()
        if isinstance(t, mt.Similarity) and not isinstance(t, (mt.Rotation, mt.UniformScale, mt.Translation)):
            return np.array([-1.0, 0.0, 1.0, 2.0]) if d == 2 else None  # a = k cos - 1 = -1, b = 0: scale 0
        if isinstance(t, mt.Affine) and not isinstance(t, (mt.Similarity, mt.NonUniformScale)):
            return (Hs - np.eye(d + 1))[:d, :].ravel(order="F")  # documented parametrisation: deltas from the identity
        return None

    def _refusal_kinds(self, st):
        import menpo.transform as mt

        t = st["t"]
        kinds = ["apply-wrong-dims"]
        if st["fam"] in ("H", "A", "TC"):
            vectorizable = not ((isinstance(t, mt.Rotation) and st["d"] == 2) or (isinstance(t, mt.Similarity) and not isinstance(t, (mt.Rotation, mt.UniformScale, mt.Translation)) and st["d"] == 3))
            if vectorizable and type(t).__name__ not in self.WRONG_SIZE_NOT_REFUSED:
                kinds.append("vector-wrong-size")
            if self._singular_vector(st) is not None:
                kinds.append("vector-singular")
            if st["d"] in (2, 3):
                kinds.append("compose-foreign-operand")
        if st["fam"] in ("A", "PWA", "TPS"):
            kinds += ["target-wrong-count", "target-wrong-dims", "constructor-mismatched-landmarks"]
        if st["fam"] == "PWA":
            kinds.append("apply-outside-domain")
        return kinds

    def _refusal(self, st, kind):
        """(thunk performing the refused call, objects handed to it) - fresh arguments every time"""
        import menpo.transform as mt
        from menpo.shape import PointCloud

        t, d = st["t"], st["d"]
        if kind == "apply-wrong-dims":
            X = np.ones((3, d + 1)) * [[1.0], [2.0], [3.0]]
            return (lambda: t.apply(X)), [X]
        if kind == "vector-wrong-size":
            v = np.zeros(len(t.as_vector()) + 1)
            return (lambda: t.pseudoinverse_vector(v)), [v]
        if kind == "vector-singular":
            v = self._singular_vector(st)
            return (lambda: t.pseudoinverse_vector(v)), [v]
        if kind == "compose-foreign-operand":
            arg = mt.WithDims(list(range(d)))  # a Transform outside the homogeneous family
            return (lambda: t.compose_before_inplace(arg)), []
        if kind in ("target-wrong-count", "target-wrong-dims", "constructor-mismatched-landmarks"):
            n = st["src"].shape[0]
            shape = (n, d + 1) if kind == "target-wrong-dims" else (n + 1, d)
            pc = PointCloud(1.0 + np.arange(shape[0] * shape[1], dtype=float).reshape(shape) * 0.37)
            if kind == "constructor-mismatched-landmarks":
                return (lambda: type(t)(t.source, pc)), [pc, t.source]
            return (lambda: t.set_target(pc)), [pc]
        if kind == "apply-outside-domain":
            far = st["src"].max(axis=0) + 10.0 * np.ptp(st["src"], axis=0).max()
            X = np.vstack([st["src"][st["trilist"][0]].mean(axis=0), far])  # one point inside, one far outside
            return (lambda: t.apply(X)), [X]
        raise HarnessError(kind)

    def _exercise_refusals(self, st):
        if st["fam"] not in ("H", "A", "TC", "PWA", "TPS"):
            return
        for kind in self._refusal_kinds(st):
            if kind == "constructor-mismatched-landmarks":
                continue
            call, _args = self._refusal(st, kind)
            try:
                call()
            except Exception:  # noqa - judged by the 'refuse' op; here the call only has to have happened
                pass

    def _op_refuse(self, st, op, verify):
        kind = op[1]
        t, cls = st["t"], st["cls"]
        call, args = self._refusal(st, kind)
        if not verify:
            try:
                call()
            except Exception:  # noqa
                pass
            return []
        before = [observe(t)] + [observe(a) for a in args]
        fails = []
        seen = []
        for attempt in ("call", "retry"):
            try:
                got = call()
                seen.append(None)
                fails.append(Failure(cls, "refusal-%s-not-refused" % kind, "%s of the refused call returned %r for root %r" % (attempt, type(got).__name__, st["root"])))
                break
            except Exception as e:  # noqa - (a): any exception is a refusal; the type must be stable (c)
                seen.append(type(e).__name__)
            after = [observe(t)] + [observe(a) for a in args]
            for who, b, a in zip(["receiver"] + ["argument %d" % i for i in range(len(args))], before, after):
                dd = obs_diff(b, a)
                if dd is not None:
                    fails.append(Failure(cls, "refused-call-changed-state", "%s (%s, raised %s) changed the %s of root %r after %d inversion(s): %s" % (kind, attempt, seen[-1], who, st["root"], st["n_inv"], dd)))
            if fails:
                break
        if not fails and seen[0] != seen[1]:
            fails.append(Failure(cls, "refusal-not-repeatable", "%s raised %s, the retry %s" % (kind, seen[0], seen[1])))
        if not fails:
            fails.extend(self._check_kept(st, "the refused call %s" % kind))
        if not fails:
            self.note("refuse:%s:%s" % (kind, seen[0]))
        return fails

    def _op_pinv_vec(self, st):
        """VInvertible.pseudoinverse_vector(v): the parameter vector of the inverse of from_vector(v)"""
        t = st["t"]
        cls = st["cls"]
        obs_before = observe(t)
        try:
            v = t.as_vector()
        except NotImplementedError:
            self.note("pinv_vec:class-not-vectorizable")
            return []
        t0 = t.from_vector(v.copy())
        pv = t.pseudoinverse_vector(v.copy())
        q = t.from_vector(np.asarray(pv).copy())
        fails = []
        X, _ = self._probes(st, "fwd")
        Y0 = np.asarray(t0.apply(X.copy()))
        # [interp] the documented vector forms store DELTAS FROM THE IDENTITY (a = k cos - 1, h - I): a linear part of
        # magnitude m << 1 (in the transform or in its inverse) keeps only eps / m relative precision
        d_ = st["d"]
        m_ = min(float(np.abs(st["H"][:d_, :d_]).max()), float(np.abs(st["Hinv"][:d_, :d_]).max()), 1.0)
        tol = self._map_tol(st, X, Y0) * 10 * max(1.0, 1e-5 / max(m_, 1e-300))
        ok, e = _close("vec-left", q.apply(Y0.copy()), X, tol)
        if not ok:
            fails.append(Failure(cls, "vector-left-inverse", "from_vector(pseudoinverse_vector(v)) does not undo from_vector(v): %.3g, root %r" % (e, st["root"])))
        ok, e = _close("vec-right", t0.apply(np.asarray(q.apply(Y0.copy()))), Y0, tol)
        if not ok:
            fails.append(Failure(cls, "vector-right-inverse", "from_vector(v) does not undo from_vector(pseudoinverse_vector(v)): %.3g, root %r" % (e, st["root"])))
        dd = obs_diff(obs_before, observe(t))
        if dd is not None:
            fails.append(Failure(cls, "receiver-changed", "pseudoinverse_vector changed its receiver: %s" % dd))
        if not fails:
            same = _err(Y0, t.apply(X.copy())) <= tol
            self.note("pinv_vec:" + ("ok" if same else "ok-vector-form-is-lossy"))
        return fails

    PROBE_FORMS = ("i64", "i32", "f32", "ro", "nc", "fortran", "one", "empty")

    def _op_apply_forms(self, st):
        """the points handed to apply() in other legal forms (integer dtypes, float32, read-only, strided, Fortran
        order): t maps them as the float64 values say and the inverse brings the images back"""
        t = st["t"]
        fam, cls = st["fam"], st["cls"]
        p = t.pseudoinverse()
        fails = []
        for form in self.PROBE_FORMS:
            integer = form in INT_FORMS
            size = {"one": 1, "empty": 0}.get(form)  # boundary sizes of the point set: a single point, no point
            if size is not None:
                form = "f64"
            if fam in ("H", "A", "TC"):
                X, _ = self._probes(st, "fwd")
                if integer:
                    X = np.unique(np.round(X), axis=0)
                    X = X[self._away_from_horizon(st["H"], X)]
                if size is not None:
                    X = X[:size]
                Xp = present(X, form)
                Xv = values_of(Xp)
                Yv = h_apply(st["H"], Xv)
                tol, tol_back = self._map_tol(st, Yv, space="tgt"), self._map_tol(st, Xv, space="src")
            elif fam == "PWA":
                X, _ = self._probes(st, "fwd")
                if integer:
                    X = np.unique(np.round(X), axis=0)
                Xv = values_of(present(X, form))
                Yv, inside = pwa_reference(st["src"], st["tgt"], st["trilist"], Xv)
                if inside.sum() < 3:
                    self.note("apply_forms:%s-too-few-interior-points" % form)
                    continue
                Xv, Yv = Xv[inside], Yv[inside]
                if size is not None:
                    Xv, Yv = Xv[:size], Yv[:size]
                Xp = present(Xv, form)
                tol, tol_back = self._map_tol(st, Yv, space="tgt"), self._map_tol(st, Xv, space="src")
            else:
                X = self._tps_points(st)
                if integer:
                    if np.abs(st["src"]).max() < 3:
                        continue  # landmark coordinates of order 1e-2: no integer points in the region
                    X = np.unique(np.round(X), axis=0)
                if size is not None:
                    X = X[:size]
                Xp = present(X, form)
                Xv = values_of(Xp)
                Yv = tps_fit(st["src"], st["tgt"], st["kern"])(Xv)
                tol = self._tps_tol(st, "tgt")
            form = {1: "one", 0: "empty"}.get(size, form)
            y = np.asarray(t.apply(Xp))
            if y.dtype == np.float32:
                tol = max(tol, 1e-3 * float(np.abs(Yv).max()) if np.size(Yv) else tol)
            ok, e = _close("form-fwd", y, Yv, tol)
            if not ok:
                fails.append(Failure(cls, "map-depends-on-argument-form", "apply(points as %s) differs from the map of the same values by %.3g (root %r)" % (form, e, st["root"])))
                continue
            if fam == "TPS":
                back = np.asarray(p.apply(present(st["tgt"], form if not (integer or size is not None) else "f64")))
                ok, e = _close("form-interp", back, st["src"], self._tps_tol(st, "src") * (1e5 if back.dtype == np.float32 or form == "f32" else 1.0))
                want = "target landmarks (as %s) are not sent back onto the source landmarks" % form
            else:
                back = self._try_apply(p, y)
                ok, e = (False, back) if isinstance(back, str) else _close("form-left", back, Xv, max(tol_back, 1e-3 * float(np.abs(Xv).max())) if (y.dtype == np.float32 and np.size(Xv)) else tol_back)
                want = "p(t(points as %s)) != points" % form
            if not ok:
                fails.append(Failure(cls, "left-inverse-argument-form", "%s: %s (root %r)" % (want, e, st["root"])))
            else:
                self.note("apply_forms:%s" % form)
        return fails

    def _op_tc_pair(self, st):
        from menpo.transform.tcoords import image_coords_to_tcoords

        t = st["t"]
        q = image_coords_to_tcoords(st["shape"])
        X, Y = self._probes(st, "fwd")
        tol = self._map_tol(st, X, Y)
        fails = []
        ok, e = _close("tc-left", q.apply(np.asarray(t.apply(X.copy()))), X, tol)
        if not ok:
            fails.append(Failure("tcoords", "left-inverse", "image_coords_to_tcoords(tcoords_to_image_coords(X)) != X for shape %r: %.3g" % (st["shape"], e)))
        ok, e = _close("tc-right", t.apply(np.asarray(q.apply(Y.copy()))), Y, tol)
        if not ok:
            fails.append(Failure("tcoords", "right-inverse", "tcoords_to_image_coords(image_coords_to_tcoords(Y)) != Y for shape %r: %.3g" % (st["shape"], e)))
        if not fails:
            self.note("tc_pair:ok")
        return fails

    # ------------------------------------------------------------------ reporting
    def vacuity(self, notes, stats):
        need = [
            "pinv:H",
            "pinv:A",
            "pinv:PWA",
            "pinv:TPS",
            "pinv:TC",
            "pinv-of-inverse:H",
            "pinv-of-inverse:A",
            "pinv-of-inverse:PWA",
            "pinv-of-inverse:TPS",
            "pinv-after-retarget:A",
            "pinv-after-retarget:PWA",
            "pinv-after-retarget:TPS",
            "structure:pwa-target-mesh-carries-another-trilist",
            "boundary:own-corner-zero",
            "boundary:inverse-corner-zero(linear-block-singular)",
            "boundary:homogeneous-1d",
            "boundary:homogeneous-4d",
            "boundary:alignment-1-point(s)",
            "boundary:alignment-2-point(s)",
            "boundary:alignment-target-equals-source",
            "boundary:pwa-single-triangle",
            "boundary:tps-target-equals-source",
            "boundary:tps-three-landmarks",
            "kept-inverse:intact",
            "kept-original:intact",
            "honesty:asked",
            "compose:accepted",
            "compose:refused",
            "pinv-after-compose:H",
            "pinv-after-compose:A",
            "retarget-warm:A",
            "retarget-warm:PWA",
            "retarget-warm:TPS",
            "pinv_vec:ok",
            "pinv_vec:class-not-vectorizable",
            "tc_pair:ok",
            "structure:projective-row",
            "structure:negative-determinant",
            "structure:alignment-exact-fit",
            "structure:alignment-inexact-fit",
            "structure:pwa-trilist-not-delaunay-of-target",
            "structure:pwa-orientation-reversing",
            "structure:tps-default-floor-would-truncate-target",
        ]
        out = ["outcome %s never produced" % n for n in need if not notes.get(n)]
        # every argument-form letter of the alphabet has to be exercised (built, inverted) at least once
        for r in form_letters(self.tier):
            _b, (cform, sc, tc) = split_form(r)
            if cform != "f64" and not notes.get("form:%s:%s" % (r[0], cform)):
                out.append("argument form %s of family %s never exercised" % (cform, r[0]))
            if (sc, tc) != ("-", "-") and not notes.get("container:%s:%s>%s" % (r[0], sc, tc)):
                out.append("container form %s>%s of family %s never exercised" % (sc, tc, r[0]))
        for f in self.PROBE_FORMS:
            if not notes.get("apply_forms:%s" % f):
                out.append("probe points in form %s never applied" % f)
        for r in scale_letters(self.tier):
            _b, k = split_scale(r)
            if k and not notes.get("scale:%s:%s" % (r[0], k)):
                out.append("scale letter %s of family %s never exercised" % (k, r[0]))
        for f in ("A", "PWA"):
            if not notes.get("equivariance:%s" % f):
                out.append("scale equivariance of family %s never checked" % f)
        if not notes.get("structure:large-size"):
            out.append("no large-size letter exercised")
        for k in ("apply-wrong-dims", "vector-wrong-size", "vector-singular", "compose-foreign-operand", "target-wrong-count", "target-wrong-dims", "constructor-mismatched-landmarks", "apply-outside-domain"):
            if not any(n.startswith("refuse:%s:" % k) for n in notes):
                out.append("refusal kind %s never produced a refusal" % k)
        for c in IDENTITY_CLASSES:
            if not notes.get("boundary:identity:%s" % c):
                out.append("identity letter of %s never exercised" % c)
        out = sorted(set(out))

        for c in ["Homogeneous", "Affine", "Similarity", "Rotation", "UniformScale", "NonUniformScale", "Translation"] + ALIGN_CLASSES + ["PythonPWA", "CachedPWA", "ThinPlateSplines"]:
            if not any(k.startswith("class:%s->" % c) for k in notes):
                out.append("class %s was never inverted" % c)
        return out

    def rule(self):
        return (
            "every letter of the transform alphabet (7 plain + 5 alignment homogeneous classes in 2-D and 3-D with "
            "parameter letters, 3 PWA classes x layouts x targets, TPS x 3 kernels x landmark counts x targets, tcoords "
            "helpers) is a root; breadth-first over pseudoinverse / set_target / in-place composition programs up to the depth "
            "bound (at most one in-place composition with each of 7 operand letters x before/after per history); every "
            "pseudoinverse is compared with the reference inverse map and the two-sided identities on probe points"
        )

    def alphabet_sizes(self):
        roots = self.roots()
        by = {}
        for r in roots:
            by[r[0]] = by.get(r[0], 0) + 1
        return {"roots": len(roots), "roots_by_family": by, "argument_form_roots": len(form_letters(self.tier)), "probe_forms": list(self.PROBE_FORMS), "ops": ["pinv", "retarget", "compose", "pinv_vec", "tc_pair", "apply_forms"], "compose_operands": COMPOSE_OPERANDS, "max_composes_per_history": self.max_composes(), "max_retargets_per_history": self.max_retargets()}

    def assumptions(self):
        return [
            "maps are compared on finite probe sets: 6 generic points of [0.5,5.5]^d (+ the alignment source), 5 interior barycentric points of every PWA triangle (+ all landmarks), 7 generic points for TPS",
            "homogeneous letters have cond(H) <= 1e4 (harness guard; the largest letter has cond ~ 20); tolerance %.0e x cond x coordinate scale for maps, %.0e x cond^2 for matrix products, %.0e for honesty predicates" % (RTOL_MAP, RTOL_HPROD, RTOL_HONEST),
            "TPS landmark sets: pairwise distance >= 0.8 (source) / 0.5 (target) on a 6x6 domain, smallest singular value of the TPS system > 2e-3 (default floor letters); 'small' letters: coordinates x %.0e, floor %.0e given by the caller, smallest singular value in (1e-7, 4e-5); tolerance %.0e x landmark scale" % (SMALL_SCALE, SMALL_MSV, RTOL_TPS),
            "PWA letters are non-folding (all triangles keep one orientation, |area| > 0.05); points on triangle edges are not probed (containment of edge points is decided by rounding)",
            "[interp] TPS declares has_true_inverse == False: only the interpolation clause, the reverse-fit comparison, the exchanged source/target and the kernel centres are asked of it",
            "[interp] honesty of the inverse is asked only when the receiver itself passes the predicates of its class: Similarity / AlignmentSimilarity accept any Affine in compose_*_inplace and then are no similarities themselves (composition defect, reported, outside C04); the map-level inverse clauses are still asked of them",
            "[interp] the class of a homogeneous inverse may be any homogeneous-family class as long as the honesty predicates of that class hold; warps must return their own class",
            "[interp] compose_*_inplace only produces non-initial transforms: acceptance of the operand is not judged, an accepted composition moves the model by the documented composition law",
            "[interp] set_target (retarget op) only produces non-initial alignments: its fit is not judged here; for homogeneous alignments the model is re-baselined from the re-fitted h_matrix",
            "argument forms: every class is also built from the same payload as float32 / int64 / int32 / int16 / uint8 arrays (integer letters: coordinates on the grid round(%g x generic) for alignments and PWA, round(%g x generic) for TPS; small non-negative integer matrices / vectors for the plain classes), read-only, strided and Fortran-order views, python lists / tuples (vectors and landmark sets; matrix constructors reject sequences), python / numpy scalars (UniformScale); landmark containers PointCloud / TriMesh (same, other explicit, default Delaunay trilist) / PointUndirectedGraph for source and target; the reference model only sees the float64 values of what was handed over; probe points are applied as int64 / int32 / float32 / read-only / strided / Fortran arrays too" % (QUANT["A"], QUANT["TPS"]),
            "float32 payloads (menpo then computes in float32) are compared at 1e-3 relative; [interp] for float32 PWA letters landmarks are approached from inside their triangles (weights 1-1e-3) because containment of the vertex itself is decided by float32 rounding; bool coordinates are not meaningful and not enumerated",
            "forms excluded because the unchanged tree mishandles them for reasons outside C04 (reported): " + "; ".join("%s with %s (%s)" % (k[0], k[1], v) for k, v in sorted(FORM_EXCLUDED.items())),
            "boundary letters: Homogeneous with a zero bottom-right entry and / or a singular linear block (well conditioned as a whole: the inverse then has a zero corner), identities built by init_identity, uniform scales 1e-5 / 1e5, equal non-uniform scales, rotations by 180 / 360 degrees, Homogeneous in 1-D and 4-D, the smallest landmark sets each alignment accepts (Rotation / Translation 1 point, Similarity / UniformScale 2 points, Affine n_dims+1), target == source, a one-triangle PWA, TPS with 3 landmarks and with target == source, apply() on a single point and on an empty point set; probe points are chosen away from the horizon of projective maps (|v.x+w| >= 0.2 (|v|.|x|+|w|))",
            "not letters (the unchanged tree refuses or the input is singular): AlignmentAffine / AlignmentSimilarity / AlignmentUniformScale with 1 point (LinAlgError), AlignmentAffine with fewer than n_dims+1 points (under-determined: singular normal equations are solved without an error), UniformScale(0), tcoords for an image side of 1 pixel",
            "scale letters (a small subset of the roots): landmark coordinates x1e-6 / x1e-9 / x1e6, source at pixel scale with the target x1e-4 / x1e-6 and the reverse, a common offset 5e6 on a spread of 5, target nearly equal to the source (relative 1e-7 / 1e-9), plain parameters at 1e-6 / 1e-9 / 1e6 and nearly the identity (1e-7), whole projective matrices x1e-9 / x1e9, 1000 landmarks (alignments) and a 12x12 mesh (PWA); every tolerance is RELATIVE to the magnitude of the data in the space of the compared output (landmarks, translation), never absolute; uniform scalings also check p_s(s y) == s p_1(y)",
            "AlignmentAffine at x1e-6 / x1e-9 / src-x1e-4 / offset 5e6 (and the small-target kinds, which reach the same fit after pseudoinverse + set_target) is not a letter: its normal equations on homogeneous coordinates (ones next to the coordinates) are ill-conditioned there and the fitted matrix is no longer affine (last row off by 1e-10 / 1e-7 / 1e-11 / 5e-11; 3-D with the offset: condition 1e13) - fit defect, reported",
            "TPS is exercised only with nearly-equal targets: its system matrix mixes units (cond 2e11 at x1e-6, 1e17 at x1e-9, singular values below the floor at x1e6) and the documented absolute floor min_singular_val=1e-4 truncates every fit whose coordinates are below ~1e-2 (the 'small' letters lower the floor as the docstring asks); offset 5e6 makes the TPS system ill-conditioned (interpolation error 1e-10 relative to the offset): not letters",
            "refused-call letters: any exception counts as the refusal (the property names no type), its type must be the same on retry; not letters because the unchanged tree does not refuse them: pseudoinverse_vector with a wrong-size vector on UniformScale / NonUniformScale (accepted, C05's question), UniformScale / NonUniformScale vectors holding a zero (inverse holds inf, no exception)",
            "singular / ill-conditioned parameter values, folding PWA targets, collinear or coincident landmarks are outside the quantifier and are not enumerated",
        ]


CHECK = C04


if __name__ == "__main__":
    # diagnostics: largest error / tolerance ratio per clause over seeds (python -m mc.checks.c04 stats [tier])
    import sys
    import warnings

    warnings.simplefilter("ignore")
    from mc.core import explore_root

    tier = sys.argv[2] if len(sys.argv) > 2 else "quick"
    worst = {}
    for seed in range(int(sys.argv[3]) if len(sys.argv) > 3 else 5):
        MAXR.clear()
        chk = C04(tier, seed)
        nf = 0
        for root in chk.roots():
            res = explore_root(chk, root, chk.depth())
            nf += len(res.failures)
            for f in res.failures[:2]:
                print("FAIL", seed, root, f["history"], f["op"], f["failures"][0]["clause"], f["failures"][0]["detail"][:300])
            if res.error:
                print("ERROR", res.error)
        for k, v in MAXR.items():
            worst[k] = max(worst.get(k, 0), v)
        print("seed", seed, "failures", nf)
    for k in sorted(worst):
        print("%-40s err/tol max = %.3g   %r" % (k, worst[k], MAXR_WHO.get(k)))
