"""C06 - copies are equal and fully independent; attached landmarks are owned copies.

Two machines share this check (the first field of a root spec selects one):

(a) roots ("copy", family, ...)  - copy independence, an input-quantified exploration
    State   : one Copyable letter `o` and `c = o.copy()`.
    Ops     : ("w", side, path, which)   write one element of one reachable array / sparse-matrix component
              ("cw", side, path, how)    structural write into one reachable list / dict
              ("m", side, name)          one public mutator of the class
              (side = "c": act on the copy and watch the original; side = "o": the converse).
    Oracle  : obs(c) == obs(o) right after the copy; after every op the observation of the *other* side
              is exactly what it was.  By documented design the point sets an alignment was fitted to and
              the members of a chain may be shared: nothing below `_source`, `_target`, `transforms[i]` is
              written to (the chain's own list is).
    Depth 1 (quick); thorough also writes into everything again after each mutator (depth 2).

(a') roots ("derive", family, ..., route) - the same machine with `c` = o reached through one of the public ROUTES that
    derive a new landmark-carrying object from `o` (from_vector in every form and override, as_masked / as_unmasked,
    as_pointgraph, copy-based convenience methods, the module-level copy_landmarks_and_path, the landmarks setter, the
    from_vector based instance / mean / component / reconstruct / project_out of an instance-backed model, Transform.apply).
    Oracle  : the source is not changed; the new object has its own manager and its own group objects; routes that carry
              the landmarks over unchanged give landmarks equal to the source's, identity routes give an object equal to
              o.copy() (route agreement); every write below `_landmarks` and every landmark mutator on either side is
              invisible on the other.

(a") roots ("copy", "scale", kind, ...) - SCALE letters of machine (a): the same payloads at other legal magnitudes (x1e-9,
    x1e-6, x1e6, a common offset of 1e6 on a spread of ~5), transforms that are exactly / nearly-but-not-exactly the identity
    (relative distance 1e-6 .. 1e-9) or of huge / tiny magnitude, alignments whose target nearly equals the source, and one
    large-size letter per container kind.  Every oracle of (a) is an exact comparison, so it is scale-free as it stands;
    scale-equivariance of copy() (copy(s*x) == s*copy(x)) is implied by exact equality of the copy with its source.
    Mutators come in a second form that takes the OTHER side as its argument (c.compose_before_inplace(o), c.landmarks =
    o.landmarks, ...), and after every mutator of a transform / model / manager / scale letter (and after every other-side
    mutator) both objects are probed again for write-independence in the same step.

(b) roots ("lm", variant, shard, n_shards) - landmark-manager histories
    State   : owners P (2-D PointCloud), I (2-D Image), optionally X (an owner derived from P or I) and a
              detached manager M (result of manager.copy()); a pool of three external values
              (2-D PointCloud, 2-D LabelledPointUndirectedGraph, 3-D PointCloud); the reference model =
              for every manager an OrderedDict name -> owned observation, and the pool's observations.
    Ops     : set / set(None) / get / get(None) / del / iterate / manager.copy() / owner.landmarks = manager /
              owner.copy() / Translation.apply(owner) / in-place edit of a pool value / in-place edit of a
              fetched group.
    Oracle  : after every step every manager in scope has the model's group names in insertion order, the
              model's n_dims and group observations; None resolves iff exactly one group; dimension mismatch
              and the None key raise ValueError, a missing key KeyError; every value stored by the step is
              write-independent of where it came from (all arrays, both directions).
    Scale variants of the pre-filled root: payload x1e-9 ("tiny"), x1e6 ("huge"), +1e6 ("offset"), and "near" (edits multiply
    by 1+1e-7 - nearly equal operands - and the owner translation is 1e-7); shift and edits scale with the payload and the only
    tolerance (groups that went through a Translation) is 1e-12 relative to the magnitude of the payload.
"""
import collections
import copy as _pycopy

import numpy as np
import scipy.sparse as sp
from numpy.lib.array_utils import byte_bounds

from mc import letters as L
from mc.core import Check, Failure
from mc.observe import PROBE3, obs_diff, obs_key, observe

LM_RTOL = 1e-12  # groups travel through a Translation in one op: tolerance = LM_RTOL x magnitude of the payload


# =================================================================================================
# observation (public API only) and places to write into
# =================================================================================================
def obs6(o):
    """mc.observe.observe plus what C06 needs on top: the elements of a lazy list, the template instance
    of an instance-backed model, the index set of WithDims."""
    from menpo.base import LazyList

    d = observe(o)
    if isinstance(o, LazyList):
        d["items"] = [observe(o[i]) for i in range(len(o))]
    if hasattr(o, "template_instance"):
        d["template"] = observe(o.template_instance)
    if type(o).__name__ == "WithDims":
        dims = np.asarray(o.dims)
        d["dims"] = dims.copy()
        x = PROBE3 if dims.dtype != bool else np.hstack([PROBE3, PROBE3])[:, : dims.shape[0]]
        d["probe3"] = np.asarray(o.apply(x.copy()))
    return d


def safe_obs(o):
    """observation, or a marker when the object was broken by a write into *itself*."""
    try:
        return obs6(o)
    except Exception as e:  # noqa - only ever used on the side that was written to
        return {"raises": type(e).__name__}


def walk(o, path="", seen=None, out=None, depth=10):
    """Every place to write into that is reachable through __dict__ (same traversal as observe.buffers):
    (path, kind, object, parent) with kind in arr / sp.data / sp.indices / sp.indptr / list / dict."""
    if seen is None:
        seen, out = set(), []
    if id(o) in seen or depth < 0:
        return out
    seen.add(id(o))
    if isinstance(o, np.ndarray):
        if o.dtype != object:
            out.append((path, "arr", o, None))
        return out
    if sp.issparse(o):
        for a in ("data", "indices", "indptr"):
            if hasattr(o, a):
                out.append((path + "." + a, "sp." + a, getattr(o, a), o))
        return out
    if isinstance(o, dict):
        out.append((path, "dict", o, None))
        for k, v in o.items():
            walk(v, path + "[%r]" % (k,), seen, out, depth - 1)
        return out
    if isinstance(o, list):
        out.append((path, "list", o, None))
        for i, v in enumerate(o):
            walk(v, path + "[%d]" % i, seen, out, depth - 1)
        return out
    if isinstance(o, tuple):
        for i, v in enumerate(o):
            walk(v, path + "[%d]" % i, seen, out, depth - 1)
        return out
    if isinstance(o, (str, bytes, int, float, bool, type(None), type)):
        return out
    if hasattr(o, "__dict__") and not callable(o):
        for k, v in vars(o).items():
            walk(v, path + "." + k, seen, out, depth - 1)
    return out


def exempt(root_obj, path):
    """shared by documented design: the point sets an alignment was fitted to, the members of a chain."""
    from menpo.transform import TransformChain
    from menpo.transform.base.alignment import Alignment

    if isinstance(root_obj, Alignment) and (path.startswith("._source") or path.startswith("._target")):
        return True
    if isinstance(root_obj, TransformChain) and path.startswith(".transforms["):
        return True
    return False


def _other_value(v, dtype):
    if dtype == bool:
        return not bool(v)
    if dtype.kind in "iu":
        return v + 1 if v < np.iinfo(dtype).max else v - 1
    return v + 1.5 * max(1.0, abs(float(v))) if np.isfinite(v) else 0.0  # visible at every magnitude


def write_array(kind, arr, parent, which):
    """Change one element in place, keeping sparse index arrays valid (an out-of-range index in a shared
    matrix must show as a wrong observation, not as a crash inside scipy).  Returns an undo token or None
    when nothing can be written (empty / read-only / no admissible value)."""
    if arr.size == 0:
        return None
    if not arr.flags.writeable:
        # a read-only view whose memory belongs to a writable array can still be written by whoever holds the owner
        # (as_vector() hands out such views, copy=False constructors keep them): write through, then protect again
        try:
            arr.setflags(write=True)
        except ValueError:
            return None
        try:
            tok = write_array(kind, arr, parent, which)
        finally:
            arr.setflags(write=False)
        return None if tok is None else ("ro",) + tok
    n = arr.size
    pos = {"first": 0, "last": n - 1, "mid": n // 2}[which]
    if kind == "sp.indices":
        minor = parent.shape[1] if parent.format == "csr" else parent.shape[0]
        if minor < 2:
            return None
        new = (int(arr[pos]) + 1) % minor
    elif kind == "sp.indptr":
        cand = [i for i in range(1, n - 1) if arr[i] != arr[i + 1] or arr[i] != arr[i - 1]]
        if not cand:
            return None
        pos = {"first": cand[0], "last": cand[-1], "mid": cand[len(cand) // 2]}[which]
        new = arr[pos + 1] if arr[pos] != arr[pos + 1] else arr[pos - 1]
    else:
        idx = np.unravel_index(pos, arr.shape)
        old = arr[idx].copy()
        arr[idx] = _other_value(old, arr.dtype)
        return (idx, old)
    old = arr[pos].copy()
    arr[pos] = new
    return ((pos,), old)


def undo_array(arr, token):
    if token[0] == "ro":
        arr.setflags(write=True)
        try:
            undo_array(arr, token[1:])
        finally:
            arr.setflags(write=False)
        return
    idx, old = token
    arr[idx] = old


def write_container(kind, cont, how):
    """Structural edit with type-valid content; returns an undo token or None."""
    if kind == "list":
        saved = list(cont)
        if how == "pop":
            if not cont:
                return None
            cont.pop()
        elif how == "dup":
            if not cont:
                return None
            cont.append(cont[0])
        elif how == "reverse":
            if len(cont) < 2 or all(x is cont[0] for x in cont):
                return None
            cont.reverse()
        else:
            raise ValueError(how)
        return saved
    saved = list(cont.items())
    if how == "delfirst":
        if not cont:
            return None
        del cont[saved[0][0]]
    elif how == "addkey":
        if not cont:
            return None
        cont["__c06__"] = saved[0][1]
    else:
        raise ValueError(how)
    return saved


def undo_container(kind, cont, saved):
    if kind == "list":
        cont[:] = saved
    else:
        cont.clear()
        for k, v in saved:
            cont[k] = v


def norm_path(path):
    """path with the keys / indices blanked: a stable clause name."""
    out, depth = [], 0
    for ch in path:
        if ch == "[":
            depth += 1
            out.append("[*")
        elif ch == "]":
            depth -= 1
            out.append("]")
        elif depth == 0:
            out.append(ch)
    return "".join(out)


def gobs(g):
    """digest of a landmark group (the shape classes of the landmark machine): class, points, dense
    adjacency, labels in order with their masks - what mc.observe.observe reports for them, flattened."""
    d = {"class": type(g).__name__, "points": g.points.copy()}
    am = getattr(g, "adjacency_matrix", None)
    if am is not None:
        d["adj"] = am.toarray()
    if hasattr(g, "_labels_to_masks"):
        d["labels"] = list(g.labels)
        d["masks"] = np.array([g._labels_to_masks[l] for l in g.labels])
    return d


def gkey(d):
    p = d["points"] + 0.0  # exact: the model's arithmetic is deterministic (rounding would merge tiny payloads)
    return (d["class"], p.shape, p.tobytes(), d["adj"].tobytes() if "adj" in d else None, tuple(d.get("labels", ())), d["masks"].tobytes() if "masks" in d else None)


def independent(a, b, where, clause_prefix, fails, note=None, root_a=None, max_fail=3, observe=gobs):
    """Write into every array reachable from `a` (one element, restored afterwards) and require the
    observation of `b` to stay exactly the same."""
    before = observe(b)
    n = 0
    for path, kind, arr, parent in walk(a):
        if kind in ("list", "dict"):
            continue
        if root_a is not None and exempt(root_a, path):
            continue
        tok = write_array(kind, arr, parent, "first")
        if tok is None:
            continue
        try:
            try:
                after = observe(b)
            except Exception as e:  # noqa - b was broken by a write into a
                after = {"raises": type(e).__name__}
        finally:
            undo_array(arr, tok)
        n += 1
        d = obs_diff(before, after)
        if d and len(fails) < max_fail:
            fails.append(Failure(where, clause_prefix + norm_path(path), "a write into %s is visible: %s" % (path, d)))
    if note:
        note(n)
    return fails


# =================================================================================================
# (a) letters
# =================================================================================================
MODEL_LETTERS = [
    ("LinearVectorModel", "plain"),
    ("MeanLinearVectorModel", "plain"),
    ("PCAVectorModel", "centred"),
    ("PCAVectorModel", "uncentred"),
    ("PCAVectorModel", "active2"),
    ("PCAVectorModel", "trimmed"),
    ("PCAVectorModel", "incremented"),
    ("PCAModel", "pointcloud"),
    ("PCAModel", "pointcloud-lm"),
    ("PCAModel", "pointcloud-active2"),
    ("PCAModel", "pointcloud-trimmed"),
    ("PCAModel", "image"),
    ("PCAModel", "maskedimage"),
    ("PCAModel", "maskedimage-lm"),
    ("PCAModel", "maskedimage-alltrue-lm"),
]
LAZY_LETTERS = ["empty", "plain3", "shapes2", "mapped", "sliced", "repeated", "index-callable"]
EXTRA_TRANSFORMS = [
    ("Chain-with-alignment", 2),
    ("Chain-with-alignment", 3),
    ("Chain-nested", 2),
    ("Chain-empty", 2),
    ("WithDims-mask", 2),
    ("WithDims-mask", 3),
    ("R2LogR2RBF", 2),
    ("R2LogRRBF", 2),
    ("R2LogR2RBF", 3),
    ("PiecewiseAffine", 2),
]
N_FEAT = 6


def copy_letters():
    out = []
    for s in L.shape_specs(dims=(2, 3), groups=(0, 1, 2)):
        out.append(("copy", "shape") + tuple(s))
    for s in L.image_specs():
        out.append(("copy", "image") + tuple(s))
    for d in (2, 3):
        for k in (0, 1, 2, 3, 4):
            if k == 0 and d == 3:
                continue
            out.append(("copy", "lm", d, k))
    for d in (2, 3):
        for s in L.transform_specs(d):
            out.append(("copy", "tr") + tuple(s))
    for s in EXTRA_TRANSFORMS:
        out.append(("copy", "tr") + tuple(s))
    for s in MODEL_LETTERS:
        out.append(("copy", "model") + tuple(s))
    for s in LAZY_LETTERS:
        out.append(("copy", "lazy", s))
    # objects that hold READ-ONLY arrays whose memory a caller can still write: built with copy=False from a protected
    # view, or rebuilt from another object's as_vector() (which is a read-only view of that object's data)
    for s in RO_LETTERS:
        out.append(("copy", "ro", s))
    for s in SCALE_LETTERS:
        out.append(("copy", "scale") + tuple(s))
    return out


SCALE_LETTERS = (
    [("shape", c, v) for c, v in (
        ("PointCloud", "x1e-9"), ("PointCloud", "x1e6"), ("PointCloud", "+1e6"), ("LabelledPointUndirectedGraph", "x1e-9"),
        ("TriMesh", "x1e6"), ("PointTree", "+1e6"), ("ColouredTriMesh", "x1e-6"), ("PointUndirectedGraph", "weights-x1e-9"),
        ("PointDirectedGraph", "weights-x1e6"))]
    + [("image", c, v) for c, v in (("Image", "x1e-9"), ("Image", "x1e6"), ("MaskedImage", "+1e6"), ("MaskedImage", "x1e-6"))]
    + [("lm", "LandmarkManager", v) for v in ("x1e-9", "x1e6")]
    + [("tr", c, "near-identity", d) for d in (2, 3) for c in L.HOMOG_ALL]
    + [("tr", c, "identity", 2) for c in L.HOMOG_PLAIN]
    + [("tr", c, v, 2) for c, v in (
        ("Translation", "huge"), ("Translation", "tiny"), ("UniformScale", "huge"), ("UniformScale", "tiny"),
        ("NonUniformScale", "mixed"), ("Affine", "huge"), ("Similarity", "tiny"), ("Homogeneous", "huge"),
        ("TransformChain", "near-identity"), ("PythonPWA", "near-identity"), ("CachedPWA", "near-identity"),
        ("ThinPlateSplines", "near-identity"))]
    + [("model", c, v) for c, v in (
        ("LinearVectorModel", "x1e-9"), ("MeanLinearVectorModel", "x1e6"), ("PCAVectorModel", "x1e-6"), ("PCAVectorModel", "x1e6"),
        ("PCAVectorModel", "+1e6"), ("PCAModel", "x1e-6"))]
    + [("size", c, v) for c, v in (("PointCloud", "20000-points"), ("Image", "200x300"), ("LazyList", "2000"), ("LinearVectorModel", "5000-features"))]
)
_SCALES = {"x1e-9": (1e-9, 0.0), "x1e-6": (1e-6, 0.0), "x1e6": (1e6, 0.0), "+1e6": (1.0, 1e6)}


def _near_identity(cls, d, seed):
    """a legal transform of class `cls` whose matrix is nearly but not exactly the identity (1e-6 .. 1e-9 away)."""
    import menpo.transform as mt
    from menpo.shape import PointCloud

    r = L.rs(seed, "c06-near", cls, d)
    eps = 1e-9 * (1.0 + r.rand(d + 1, d + 1))
    ang = 1e-9
    rot = np.eye(d)
    rot[0, 0], rot[0, 1], rot[1, 0], rot[1, 1] = np.cos(ang), -np.sin(ang), np.sin(ang), np.cos(ang)
    if cls == "Homogeneous":
        return mt.Homogeneous(np.eye(d + 1) + eps)
    if cls == "Affine":
        h = np.eye(d + 1)
        h[:d] += eps[:d]
        return mt.Affine(h)
    if cls == "Similarity":
        h = np.eye(d + 1)
        h[:d, :d] = (1 + 2e-9) * rot
        h[:d, d] = 3e-9 * (1 + r.rand(d))
        return mt.Similarity(h)
    if cls == "Rotation":
        return mt.Rotation(rot)
    if cls == "UniformScale":
        return mt.UniformScale(1 + 2e-6, d)
    if cls == "NonUniformScale":
        return mt.NonUniformScale(1 + np.array([2e-6, -3e-7, 5e-8][:d]))
    if cls == "Translation":
        return mt.Translation(np.array([3e-9, -2e-9, 1e-9][:d]))
    if cls.startswith("Alignment"):
        src = L.generic_points(5, d, seed, ("c06-near-src", cls))
        return getattr(mt, cls)(PointCloud(src), PointCloud(src * (1 + 2e-7) + 3e-9))
    raise ValueError(cls)


def build_scale(spec, seed):
    import menpo.transform as mt
    from menpo.base import LazyList
    from menpo.image import Image
    from menpo.model import LinearVectorModel, MeanLinearVectorModel, PCAModel, PCAVectorModel
    from menpo.shape import PointCloud, PointDirectedGraph, PointUndirectedGraph, TriMesh

    kind, cls, var = spec[0], spec[1], spec[2]
    r = L.rs(seed, "c06-scale", kind, cls, var)
    if kind == "shape":
        if var.startswith("weights-"):
            a, _ = _SCALES[var[len("weights-"):]]
            p = L.generic_points(5, 2, seed, ("c06-scale", cls))
            w = np.zeros((5, 5))
            for i, j in L.EDGES5:
                w[i, j] = a * (1.0 + r.rand())
            if cls == "PointUndirectedGraph":
                return PointUndirectedGraph(p, w + w.T)
            return PointDirectedGraph(p, w)
        a, b = _SCALES[var]
        obj = L.shape((cls, 2, 1), seed)
        obj.points = obj.points * a + b
        for g in obj.landmarks.values():
            g.points = g.points * a + b
        return obj
    if kind == "image":
        a, b = _SCALES[var]
        obj = L.image((cls, (3, 4), 2, "float64", "sparse" if cls == "MaskedImage" else "-", 1), seed)
        obj.pixels = obj.pixels * a + b
        return obj
    if kind == "lm":
        a, b = _SCALES[var]
        m = build_manager(2, 3, seed)
        for g in m.values():
            g.points = g.points * a + b
        return m
    if kind == "tr":
        d = int(spec[3])
        if var == "identity":
            return getattr(mt, cls).init_identity(d)
        if var == "near-identity":
            if cls == "TransformChain":
                return mt.TransformChain([_near_identity("Translation", d, seed), _near_identity("UniformScale", d, seed)])
            if cls in ("PythonPWA", "CachedPWA"):
                from menpo.transform.piecewiseaffine.base import CachedPWA, PythonPWA

                src, tl = L.pwa_layout(seed, ("c06-near", cls))
                return {"PythonPWA": PythonPWA, "CachedPWA": CachedPWA}[cls](TriMesh(src, tl), TriMesh(src + 1e-9 * r.rand(5, 2), tl))
            if cls == "ThinPlateSplines":
                src = L.generic_points(6, 2, seed, ("c06-near-tps",), min_area=L.MIN_AREA)
                return mt.ThinPlateSplines(PointCloud(src), PointCloud(src * (1 + 2e-7) + 3e-9))
            return _near_identity(cls, d, seed)
        if cls == "Translation":
            return mt.Translation((1e6 if var == "huge" else 1e-9) * (0.5 + r.rand(d)))
        if cls == "UniformScale":
            return mt.UniformScale((1e6 if var == "huge" else 1e-6) * (0.6 + r.rand()), d)
        if cls == "NonUniformScale":
            return mt.NonUniformScale(np.array([1e-6, 1e6]) * (0.6 + r.rand(2)))
        base = L.transform((cls, d, 5), seed).h_matrix.copy()
        if cls == "Similarity":
            base[:d, :d] *= 1e-6
            base[:d, d] *= 1e-9
            return mt.Similarity(base)
        base[:d] *= 1e6
        return getattr(mt, cls)(base)
    if kind == "model":
        a, b = _SCALES[var]
        if cls == "LinearVectorModel":
            return LinearVectorModel(r.rand(3, N_FEAT) * a + b)
        if cls == "MeanLinearVectorModel":
            return MeanLinearVectorModel(r.rand(3, N_FEAT) * a + b, r.rand(N_FEAT) * a + b)
        if cls == "PCAVectorModel":
            return PCAVectorModel(L.spectrum_data(5, N_FEAT, seed, ("c06-scale", var)) * a + b)
        x = L.spectrum_data(5, 6, seed, ("c06-scale", var), mean_scale=1.0) * a + b
        samples = [PointCloud(row.reshape(3, 2).copy()) for row in x]
        samples[0].landmarks["t"] = PointCloud(r.rand(2, 2) * a + b)
        return PCAModel(samples)
    if kind == "size":
        if cls == "PointCloud":
            obj = PointCloud(r.rand(20000, 3))
            obj.landmarks["g"] = PointCloud(r.rand(4, 3))
            return obj
        if cls == "Image":
            obj = Image(r.rand(1, 200, 300))
            obj.landmarks["g"] = PointCloud(r.rand(4, 2) * 100)
            return obj
        if cls == "LazyList":
            return LazyList.init_from_index_callable(lambda i: ("ix", i), 2000)
        return LinearVectorModel(r.rand(2, 5000))
    raise ValueError(spec)


RO_LETTERS = ["PointCloud-ro-view", "TriMesh-ro-view", "Image-ro-view", "PointCloud-from-vector", "TriMesh-from-vector", "MaskedImage-ro-mask"]


def build_ro(name, seed):
    from menpo.image import BooleanImage, Image, MaskedImage
    from menpo.shape import PointCloud, TriMesh

    r = L.rs(seed, "c06-ro", name)
    if name in ("PointCloud-ro-view", "TriMesh-ro-view"):
        owner = L.generic_points(5, 2, seed, ("c06-ro", name))
        view = owner.view()
        view.setflags(write=False)
        obj = PointCloud(view, copy=False) if name.startswith("PointCloud") else TriMesh(view, L.TRILIST5, copy=False)
        obj._verif_owner = owner  # keeps the owning array alive (an attribute the observation ignores)
        obj.landmarks["g"] = PointCloud(L.generic_points(3, 2, seed, ("c06-ro-lm", name)))
        return obj
    if name == "Image-ro-view":
        owner = r.rand(2, 4, 5)
        view = owner.view()
        view.setflags(write=False)
        obj = Image(view, copy=False)
        obj._verif_owner = owner
        return obj
    if name == "MaskedImage-ro-mask":
        owner = r.rand(4, 5) > 0.4
        owner[0, 0], owner[0, 1] = True, False
        view = owner.view()
        view.setflags(write=False)
        obj = MaskedImage(r.rand(2, 4, 5), mask=BooleanImage(view, copy=False), copy=False)
        obj._verif_owner = owner
        return obj
    src = L.shape(("PointCloud" if name.startswith("PointCloud") else "TriMesh", 2, 1), seed)
    other = L.bare_shape("PointCloud" if name.startswith("PointCloud") else "TriMesh", 2, seed, ("c06-ro-other", name))
    obj = src.from_vector(other.as_vector())
    obj._verif_owner = other
    return obj


def build_transform(spec, seed):
    import menpo.transform as mt

    name, d = spec[0], int(spec[1])
    if name == "Chain-with-alignment":
        return mt.TransformChain([L.transform(("AlignmentAffine", d, 1), seed), L.transform(("Translation", d, 2), seed), L.transform(("AlignmentSimilarity", d, 3), seed)])
    if name == "Chain-nested":
        inner = mt.TransformChain([L.transform(("Rotation", d, 1), seed), L.transform(("UniformScale", d, 2), seed)])
        return mt.TransformChain([L.transform(("Affine", d, 3), seed), inner])
    if name == "Chain-empty":
        return mt.TransformChain([])
    if name == "WithDims-mask":
        return mt.WithDims(np.array([True, False] if d == 2 else [True, False, True]))
    if name in ("R2LogR2RBF", "R2LogRRBF"):
        return getattr(mt, name)(L.generic_points(4, d, seed, ("rbf", name)))
    return L.transform(spec, seed)


def build_model(spec, seed):
    from menpo.image import Image, MaskedImage
    from menpo.model import LinearVectorModel, MeanLinearVectorModel, PCAModel, PCAVectorModel
    from menpo.shape import PointCloud

    name, var = spec
    r = L.rs(seed, "model", name, var)
    if name == "LinearVectorModel":
        return LinearVectorModel(r.rand(3, N_FEAT))
    if name == "MeanLinearVectorModel":
        return MeanLinearVectorModel(r.rand(3, N_FEAT), r.rand(N_FEAT))
    if name == "PCAVectorModel":
        x = L.spectrum_data(5, N_FEAT, seed, ("c06", var), centred=var != "uncentred")
        m = PCAVectorModel(x.copy(), centre=var != "uncentred")
        if var == "active2":
            m.n_active_components = 2
        elif var == "trimmed":
            m.trim_components(2)
        elif var == "incremented":
            m.increment(L.spectrum_data(3, N_FEAT, seed, ("c06", "inc")).copy())
        return m
    # PCAModel
    if var.startswith("pointcloud"):
        x = L.spectrum_data(5, 6, seed, ("c06", var), mean_scale=1.0)
        samples = [PointCloud(row.reshape(3, 2).copy()) for row in x]
        if var == "pointcloud-lm":
            samples[0].landmarks["t"] = PointCloud(r.rand(2, 2))
        m = PCAModel(samples)
        if var == "pointcloud-active2":
            m.n_active_components = 2
        elif var == "pointcloud-trimmed":
            m.trim_components(2)
        return m
    if var == "image":
        x = L.spectrum_data(4, 12, seed, ("c06", var), mean_scale=1.0)
        samples = [Image(row.reshape(2, 2, 3).copy()) for row in x]
        samples[0].landmarks["t"] = PointCloud(r.rand(2, 2))
        return PCAModel(samples)
    mask = np.array([[True, False, True], [True, True, False]])
    if "alltrue" in var:
        mask = np.ones((2, 3), dtype=bool)
    x = L.spectrum_data(4, 2 * int(mask.sum()), seed, ("c06", var), mean_scale=1.0)
    samples = []
    for row in x:
        im = MaskedImage(np.zeros((2, 2, 3)), mask=mask.copy())
        samples.append(im.from_vector(row.copy()))
    if var.endswith("-lm"):
        samples[0].landmarks["t"] = PointCloud(r.rand(2, 2))
        samples[0].landmarks["u"] = L.bare_shape("LabelledPointUndirectedGraph", 2, seed, ("c06-tmpl", var))
    return PCAModel(samples)


def build_lazy(var, seed):
    from menpo.base import LazyList
    from menpo.shape import PointCloud

    def const(x):
        def f():
            return x

        return f

    def twice(x):
        return ("twice", x)

    if var == "empty":
        return LazyList([])
    if var == "plain3":
        return LazyList([const(("e", i)) for i in range(3)])
    if var == "shapes2":
        pts = [L.generic_points(3, 2, seed, ("lazy", i)) for i in range(2)]
        return LazyList([const(PointCloud(p)) for p in pts])
    if var == "mapped":
        return LazyList([const(("e", i)) for i in range(3)]).map(twice)
    if var == "sliced":
        return LazyList([const(("e", i)) for i in range(4)])[1:3]
    if var == "repeated":
        return LazyList([const(("e", i)) for i in range(2)]).repeat(2)
    if var == "index-callable":
        return LazyList.init_from_index_callable(lambda i: ("ix", i), 3)
    raise ValueError(var)


def build_manager(d, k, seed):
    """LandmarkManager with k groups (classes cycle PointCloud / PointUndirectedGraph / Labelled / TriMesh)."""
    from menpo.landmark import LandmarkManager

    m = LandmarkManager()
    for i in range(k):
        cls = L.LM_CLASSES[i % len(L.LM_CLASSES)]
        m["grp%d.%s" % (i, cls[:3])] = L.bare_shape(cls, d, seed, ("c06-lm", i))
    return m


def build_letter(root, seed):
    fam = root[1]
    if fam == "shape":
        return L.shape(root[2:], seed)
    if fam == "image":
        return L.image(root[2:], seed)
    if fam == "lm":
        return build_manager(int(root[2]), int(root[3]), seed)
    if fam == "tr":
        return build_transform(root[2:], seed)
    if fam == "model":
        return build_model(root[2:], seed)
    if fam == "lazy":
        return build_lazy(root[2], seed)
    if fam == "ro":
        return build_ro(root[2], seed)
    if fam == "scale":
        return build_scale(root[2:], seed)
    raise ValueError(root)


# =================================================================================================
# (a') public routes that derive a landmark-carrying object from another one
# =================================================================================================
def _vec(o):
    return np.array(o.as_vector(), copy=True)


def _other_vec(o):
    v = _vec(o)
    if v.dtype == bool:
        return ~v
    if v.dtype.kind in "iu":
        return (v + 1).astype(v.dtype)
    return (v * 0.5 + 0.25).astype(v.dtype)


def _blank_like(o):
    """a fresh landmark-free object of the same dimensionality (the target of the transfer routes)."""
    from menpo.image import Image
    from menpo.shape import PointCloud

    if isinstance(o, Image):
        return Image(np.zeros((1,) + tuple(o.shape)))
    return PointCloud(np.zeros((2, o.n_dims)))


def _is(o, *names):
    return type(o).__name__ in names


def _isa(o, name):
    return any(c.__name__ == name for c in type(o).__mro__)


Route = collections.namedtuple("Route", "name applies fn lm_equal identical")
# lm_equal : the route carries the landmarks over unchanged;  identical : the whole result must equal o.copy()


def _routes():
    import menpo.transform as mt
    from menpo.base import copy_landmarks_and_path
    from menpo.image import BooleanImage

    R = []

    def add(name, applies, fn, lm_equal=True, identical=False):
        R.append(Route(name, applies, fn, lm_equal, identical))

    owner = lambda o: _isa(o, "PointCloud") or _isa(o, "Image")  # noqa
    img = lambda o: _isa(o, "Image")  # noqa
    shp = lambda o: _isa(o, "PointCloud")  # noqa
    masked = lambda o: _isa(o, "MaskedImage")  # noqa
    plain_img = lambda o: _is(o, "Image")  # noqa
    # --- from_vector: generic (copy + in place), Image / MaskedImage / BooleanImage / TexturedTriMesh overrides
    add("from_vector", owner, lambda o, k, s: o.from_vector(_vec(o)), identical=True)
    add("from_vector(view)", owner, lambda o, k, s: o.from_vector(o.as_vector()), identical=True)
    add("from_vector(new-values)", owner, lambda o, k, s: o.from_vector(_other_vec(o)))
    add("from_vector(copy=False)", lambda o: _is(o, "Image", "BooleanImage"), lambda o, k, s: o.from_vector(_vec(o), copy=False), identical=True)
    add(
        "from_vector(n_channels)",
        lambda o: _is(o, "Image", "MaskedImage"),
        lambda o, k, s: o.from_vector(np.tile(_vec(o)[: _vec(o).shape[0] // o.n_channels], o.n_channels + 1), n_channels=o.n_channels + 1),
    )
    # --- conversions
    add("as_masked", plain_img, lambda o, k, s: o.as_masked())
    add("as_masked(mask)", plain_img, lambda o, k, s: o.as_masked(mask=BooleanImage(L.rs(s, "c06-asmask").rand(*o.shape) > 0.3)))
    add("as_masked(copy=False)", plain_img, lambda o, k, s: o.as_masked(copy=False))
    add("as_unmasked", masked, lambda o, k, s: o.as_unmasked())
    add("as_unmasked(copy=False)", masked, lambda o, k, s: o.as_unmasked(copy=False))
    add("as_unmasked(fill)", masked, lambda o, k, s: o.as_unmasked(fill=0))
    add("as_pointgraph", lambda o: _isa(o, "TriMesh"), lambda o, k, s: o.as_pointgraph())
    add("as_pointgraph(copy=False)", lambda o: _isa(o, "TriMesh"), lambda o, k, s: o.as_pointgraph(copy=False))
    # --- transfer: module-level function and the property setter it wraps
    add("copy_landmarks_and_path", owner, lambda o, k, s: copy_landmarks_and_path(o, _blank_like(o)))

    def setter(o, k, s):
        t = _blank_like(o)
        t.landmarks = o.landmarks
        return t

    add("landmarks-setter", owner, setter)
    # --- copy-based convenience methods (pixels / points change, landmarks are carried)
    add("extract_channels", lambda o: _is(o, "Image", "MaskedImage"), lambda o, k, s: o.extract_channels(0))
    add("as_greyscale", lambda o: _is(o, "Image", "MaskedImage") and o.n_channels > 1, lambda o, k, s: o.as_greyscale(mode="average"))
    add("clip_pixels", lambda o: _is(o, "Image", "MaskedImage") and o.pixels.dtype.kind == "f", lambda o, k, s: o.clip_pixels(0.2, 0.8))
    add("invert", lambda o: _is(o, "BooleanImage"), lambda o, k, s: o.invert())
    add("erode", masked, lambda o, k, s: o.erode())
    add("dilate", masked, lambda o, k, s: o.dilate())
    add("set_boundary_pixels", masked, lambda o, k, s: o.set_boundary_pixels())
    add("from_mask(all)", lambda o: _is(o, "PointCloud"), lambda o, k, s: o.from_mask(np.ones(o.n_points, dtype=bool)))
    add("constrain_to_bounds", shp, lambda o, k, s: o.constrain_to_bounds(o.bounds(boundary=1.0)), identical=True)
    add("clip_texture", lambda o: _is(o, "ColouredTriMesh", "TexturedTriMesh"), lambda o, k, s: o.clip_texture((0.2, 0.8)))
    add("rescale_texture", lambda o: _is(o, "ColouredTriMesh", "TexturedTriMesh"), lambda o, k, s: o.rescale_texture(0.0, 2.0))
    add("add_label", lambda o: _is(o, "LabelledPointUndirectedGraph"), lambda o, k, s: o.add_label("c06", [0, 1]))
    add("remove_label", lambda o: _is(o, "LabelledPointUndirectedGraph"), lambda o, k, s: o.remove_label("mid"))
    # --- a transform applied to the owner (copy + in place): the landmarks move with it
    add("Translation.apply", shp, lambda o, k, s: mt.Translation(np.arange(1, o.n_dims + 1) * 0.5).apply(o), lm_equal=False)
    # --- instance-backed model: everything it hands out is template_instance.from_vector(...)
    model = lambda o: False  # noqa - model routes are selected by family, `o` is the template, `k` the model
    add("model.mean", model, lambda o, k, s: k.mean())
    add("model.instance", model, lambda o, k, s: k.instance(np.ones(k.n_active_components) * 0.1))
    add("model.component", model, lambda o, k, s: k.component(0))
    add("model.reconstruct", model, lambda o, k, s: k.reconstruct(o.from_vector(_other_vec(o))))
    add("model.project_out", model, lambda o, k, s: k.project_out(o.from_vector(_other_vec(o))))
    return collections.OrderedDict((r.name, r) for r in R)


_ROUTES = {}


def routes():
    if not _ROUTES:
        _ROUTES.update(_routes())
    return _ROUTES


DERIVE_MODELS = [("PCAModel", "pointcloud-lm"), ("PCAModel", "image"), ("PCAModel", "maskedimage-lm"), ("PCAModel", "maskedimage-alltrue-lm")]
MODEL_ROUTES = ["model.mean", "model.instance", "model.component", "model.reconstruct", "model.project_out"]


def derive_sources():
    """the landmarked letters the routes start from (structure only, no menpo objects)."""
    out = []
    for s in L.image_specs():  # every image letter carries >= 1 group
        out.append(("image",) + tuple(s))
    for cls in L.SHAPE_CLASSES:
        out.append(("shape", cls, 2, 2))
        out.append(("shape", cls, 3, 1))
    return out


_DERIVE_LETTERS = {}


def derive_letters(seed=0):
    """("derive", family, spec..., route) for every source letter x every route that applies to its class."""
    if "all" not in _DERIVE_LETTERS:
        out = []
        for src in derive_sources():
            o = build_letter(("copy",) + src, seed)
            for r in routes().values():
                if r.applies(o):
                    out.append(("derive",) + src + (r.name,))
        for m in DERIVE_MODELS:
            for rn in MODEL_ROUTES:
                out.append(("derive", "model") + m + (rn,))
        _DERIVE_LETTERS["all"] = out
    return _DERIVE_LETTERS["all"]


def lm_mutators(x):
    out = ["lm_set_new", "lm_assign_manager"]
    if x.has_landmarks:
        out += ["lm_set_existing", "lm_del", "lm_edit_fetched", "lm_apply_inplace"]
    return out


# =================================================================================================
# (a) public mutators
# =================================================================================================
def mutators(x):
    """names of the public mutator letters enabled for this object (simplest first)."""
    from menpo.image import Image, MaskedImage
    from menpo.landmark import LandmarkManager
    from menpo.model import LinearVectorModel, PCAVectorModel
    from menpo.shape import PointCloud
    from menpo.transform import Homogeneous, Rotation, TransformChain
    from menpo.transform.base.alignment import Alignment

    out = []
    if isinstance(x, (PointCloud, Image)):
        out += ["from_vector_inplace", "lm_set_new", "lm_assign_manager"]
        if x.has_landmarks:
            out += ["lm_set_existing", "lm_del", "lm_edit_fetched"]
        if isinstance(x, PointCloud):
            out += ["apply_inplace"]
        if isinstance(x, MaskedImage):
            out += ["set_masked_pixels"]
    elif isinstance(x, LandmarkManager):
        out += ["lm_set_new"]
        if x.n_groups:
            out += ["lm_set_existing", "lm_del", "lm_edit_fetched", "apply_inplace"]
    elif isinstance(x, Homogeneous):
        try:
            x.as_vector()
            vec = True
        except NotImplementedError:  # 2-D rotations have no vector form
            vec = False
        if vec:
            out += ["from_vector_inplace"]
        partner = _compose_partner(x)
        if partner is not None:
            out += ["compose_before_inplace", "compose_after_inplace"]
            if vec:
                out += ["compose_after_from_vector_inplace"]
        if x.h_matrix_is_mutable:
            out += ["set_h_matrix"]
        if isinstance(x, Rotation):
            out += ["set_rotation_matrix"]
        if isinstance(x, Alignment):
            out += ["set_target"]
    elif isinstance(x, TransformChain):
        out += ["compose_before_inplace", "compose_after_inplace"]
    elif isinstance(x, Alignment):
        out += ["set_target"]
    elif isinstance(x, LinearVectorModel):
        out += ["set_components", "orthonormalize_inplace", "orthonormalize_against_inplace"]
        if isinstance(x, PCAVectorModel):
            out += ["increment"]
            if x.n_components > 1:
                out += ["set_n_active", "trim_components"]
    return out


def other_mutators(x):
    """mutator letters that take the OTHER object of the pair (or a part of it) as their argument."""
    from menpo.image import Image
    from menpo.landmark import LandmarkManager
    from menpo.model import LinearVectorModel
    from menpo.shape import PointCloud
    from menpo.transform import Homogeneous

    out = []
    if isinstance(x, (PointCloud, Image)):
        out += ["lm_assign_manager(other)"]
        if x.has_landmarks:
            out += ["lm_set(other-group)"]
    elif isinstance(x, LandmarkManager):
        if x.n_groups:
            out += ["lm_set(other-group)"]
    elif isinstance(x, Homogeneous):
        if isinstance(x, x.composes_inplace_with):
            out += ["compose_before_inplace(other)", "compose_after_inplace(other)"]
        try:
            x.as_vector()
            out += ["from_vector_inplace(other)"]
            if isinstance(x, x.composes_inplace_with):
                out += ["compose_after_from_vector_inplace(other)"]
        except NotImplementedError:
            pass
    elif isinstance(x, LinearVectorModel):
        out += ["set_components(other)"]
    return out


def mutate_with_other(x, name, y):
    """x is mutated with y (the other object of the pair, equal to what x was copied from / to) as the argument."""
    from menpo.landmark import LandmarkManager

    if name == "lm_assign_manager(other)":
        x.landmarks = y.landmarks
    elif name == "lm_set(other-group)":
        mx = x if isinstance(x, LandmarkManager) else x.landmarks
        my = y if isinstance(y, LandmarkManager) else y.landmarks
        mx["zz-from-other"] = my[list(my)[0]]
    elif name == "compose_before_inplace(other)":
        x.compose_before_inplace(y)
    elif name == "compose_after_inplace(other)":
        x.compose_after_inplace(y)
    elif name == "from_vector_inplace(other)":
        x._from_vector_inplace(y.as_vector())
    elif name == "compose_after_from_vector_inplace(other)":
        x.compose_after_from_vector_inplace(y.as_vector())
    elif name == "set_components(other)":
        x.components = y._components if y._components.shape == x._components.shape else y.components
    else:
        raise ValueError(name)


def _plain_homog_name(x):
    for name in ("Translation", "UniformScale", "NonUniformScale", "Rotation", "Similarity", "Affine", "Homogeneous"):
        import menpo.transform as mt

        if isinstance(x, getattr(mt, name)):
            return name
    return None


def _compose_partner(x, seed=0):
    """a plain transform of the same family that x composes in place with (None if there is none)."""
    name = _plain_homog_name(x)
    if name is None:
        return None
    t = L.transform((name, x.n_dims, 9), seed)
    return t if isinstance(t, x.composes_inplace_with) else None


def mutate(x, name, seed):
    """Run one public mutator on x.  Everything it is given is freshly built and thrown away."""
    import menpo.transform as mt
    from menpo.image import BooleanImage, Image
    from menpo.landmark import LandmarkManager
    from menpo.model import LinearVectorModel, PCAModel
    from menpo.shape import PointCloud
    from menpo.transform import Homogeneous, TransformChain

    r = L.rs(seed, "mut", name)
    is_mgr = isinstance(x, LandmarkManager)
    mgr = x if is_mgr else (x.landmarks if isinstance(x, (PointCloud, Image)) else None)
    nd = None
    if is_mgr:
        nd = x.n_dims if x.n_dims is not None else 2
    elif isinstance(x, (PointCloud, Image)):
        nd = x.n_dims
    if name == "from_vector_inplace":
        if isinstance(x, Homogeneous):
            v = np.array(L.transform((_plain_homog_name(x), x.n_dims, 7), seed).as_vector(), copy=True)
        else:
            v = np.array(x.as_vector(), copy=True)
            if v.dtype == bool:
                v = ~v
            elif v.dtype.kind in "iu":
                v = (v + 1).astype(v.dtype)
            else:
                v = (v * 0.5 + 0.25).astype(v.dtype)
        x._from_vector_inplace(v)
    elif name == "lm_set_new":
        mgr["zz-new"] = PointCloud(r.rand(3, nd))
    elif name == "lm_set_existing":
        mgr[list(mgr)[0]] = PointCloud(r.rand(4, nd))
    elif name == "lm_del":
        del mgr[list(mgr)[0]]
    elif name == "lm_edit_fetched":
        g = mgr[list(mgr)[-1]]
        g.points[0, 0] += 1.0
    elif name == "lm_assign_manager":
        new = LandmarkManager()
        new["assigned"] = PointCloud(r.rand(2, nd))
        x.landmarks = new
    elif name == "apply_inplace":
        mt.Translation(0.5 + r.rand(nd)).apply_inplace(x)
    elif name == "lm_apply_inplace":
        mt.Translation(0.5 + r.rand(nd)).apply_inplace(mgr)
    elif name == "set_masked_pixels":
        v = np.array(x.as_vector(), copy=True)
        x.set_masked_pixels(((v + 1).astype(v.dtype) if v.dtype.kind in "iu" else (v * 0.5 + 0.3).astype(v.dtype)).reshape(x.n_channels, -1))
    elif name == "compose_before_inplace":
        x.compose_before_inplace(mt.Translation(0.5 + r.rand(_chain_dims(x))) if isinstance(x, TransformChain) else _compose_partner(x, seed))
    elif name == "compose_after_inplace":
        x.compose_after_inplace(mt.Translation(0.5 + r.rand(_chain_dims(x))) if isinstance(x, TransformChain) else _compose_partner(x, seed))
    elif name == "compose_after_from_vector_inplace":
        x.compose_after_from_vector_inplace(np.array(_compose_partner(x, seed).as_vector(), copy=True))
    elif name == "set_h_matrix":
        x.set_h_matrix(L.transform((_plain_homog_name(x), x.n_dims, 8), seed).h_matrix)
    elif name == "set_rotation_matrix":
        x.set_rotation_matrix(L.rotation_matrix(x.n_dims, seed, "c06-setrot"))
    elif name == "set_target":
        x.set_target(PointCloud(x.target.points + 0.05 + 0.1 * r.rand(*x.target.points.shape)))
    elif name == "set_components":
        x.components = r.rand(x.n_components, x.n_features)
    elif name == "orthonormalize_inplace":
        x.orthonormalize_inplace()
    elif name == "orthonormalize_against_inplace":
        x.orthonormalize_against_inplace(LinearVectorModel(r.rand(1, x.n_features)))
    elif name == "set_n_active":
        x.n_active_components = int(x.n_active_components) - 1 if x.n_active_components > 1 else int(x.n_components)
    elif name == "trim_components":
        x.trim_components(max(1, int(x.n_active_components) - 1))
    elif name == "increment":
        if isinstance(x, PCAModel):
            t = x.template_instance
            n = t.as_vector().shape[0]
            x.increment([t.from_vector(1.0 + r.rand(n)) for _ in range(3)])
        else:
            x.increment(1.0 + r.rand(3, x.n_features))
    else:
        raise ValueError(name)


def _chain_dims(chain):
    for t in chain.transforms:
        if getattr(t, "n_dims", None):
            return t.n_dims
    return 2


# =================================================================================================
# (b) landmark-manager machine: letters
# =================================================================================================
NAMES = ("a", "b")
OWNERS = ("P", "I", "X")
MGRS = ("P", "I", "X", "M")
POOL_DIMS = (2, 2, 3)
SHIFT = (1.0, 2.0)


_PAYLOAD = {}


def lm_payload(seed):
    """seeded payload of the landmark machine, drawn once per process (fresh objects are built from copies)."""
    if seed not in _PAYLOAD:
        from menpo.shape import LabelledPointUndirectedGraph

        v1 = LabelledPointUndirectedGraph.init_from_indices_mapping(
            L.generic_points(4, 2, seed, "c06-v1"),
            np.array([[0, 1], [1, 2], [2, 3]]),
            collections.OrderedDict([("zeta", [0, 1]), ("alpha", [1, 2, 3])]),
        )
        _PAYLOAD[seed] = {
            "P": L.generic_points(5, 2, seed, "c06-P"),
            "I": L.rs(seed, "c06-I").rand(1, 4, 5),
            "v0": L.generic_points(3, 2, seed, "c06-v0"),
            "v1": (v1.points.copy(), v1.adjacency_matrix.copy(), [(l, v1._labels_to_masks[l].copy()) for l in v1.labels]),
            "v2": L.generic_points(3, 3, seed, "c06-v2"),
        }
    return _PAYLOAD[seed]


def build_pool(seed, a=1.0, b=0.0):
    from menpo.shape import LabelledPointUndirectedGraph, PointCloud

    pl = lm_payload(seed)
    pts, adj, masks = pl["v1"]
    v1 = LabelledPointUndirectedGraph(pts * a + b, adj.copy(), collections.OrderedDict((l, m.copy()) for l, m in masks), copy=False, skip_checks=True)
    return [PointCloud(pl["v0"] * a + b), v1, PointCloud(pl["v2"] * a + b)]


# variant -> (start configuration, payload factor, payload offset, edit ("add", e) / ("mul", f), owner shift)
LM_VARIANTS = collections.OrderedDict(
    [
        ("empty", ("empty", 1.0, 0.0, ("add", 1.0), (1.0, 2.0))),
        ("pre", ("pre", 1.0, 0.0, ("add", 1.0), (1.0, 2.0))),
        ("tiny", ("pre", 1e-9, 0.0, ("add", 1e-9), (1e-9, 2e-9))),
        ("huge", ("pre", 1e6, 0.0, ("add", 1e6), (1e6, 2e6))),
        ("offset", ("pre", 1.0, 1e6, ("add", 1.0), (1.0, 2.0))),
        ("near", ("pre", 1.0, 0.0, ("mul", 1.0 + 1e-7), (1e-7, 2e-7))),
    ]
)
LM_SCALE_VARIANTS = ("tiny", "huge", "offset", "near")


def _edit(arr, how):
    """the in-place edit of one coordinate - the same float operation on the live array and on the model's."""
    if how[0] == "add":
        arr[0, 0] += how[1]
    else:
        arr[0, 0] *= how[1]


class LMModel(object):
    """Reference: manager id -> OrderedDict name -> owned observation (None = manager does not exist)."""

    def __init__(self):
        self.mgr = {"P": collections.OrderedDict(), "I": collections.OrderedDict(), "X": None, "M": None}
        self.pool = []
        self.assigned = [False, False, False]
        self.xclass = None

    @staticmethod
    def dims(od):
        for g in od.values():
            return int(g["points"].shape[1])
        return None

    @staticmethod
    def clone(od):
        return collections.OrderedDict((k, _pycopy.deepcopy(g)) for k, g in od.items())


# =================================================================================================
class C06(Check):
    id = "C06"
    title = "copies are equal and fully independent; attached landmarks are owned copies"

    # ------------------------------------------------------------------ bounds
    def depth(self):
        return 3 if self.tier == "quick" else 5

    def _lm_shards(self):
        return 8

    def roots(self):
        n = self._lm_shards()
        out = [("lm", v, s, n) for v in ("empty", "pre") for s in range(n)]
        out += [("lm", v, 0, 1) for v in LM_SCALE_VARIANTS]
        return out + copy_letters() + derive_letters()

    def build(self, root):
        if root[0] == "derive":
            route = routes()[root[-1]]
            keep = None
            if root[1] == "model":
                keep = build_model(root[2:4], self.seed)
                o = keep.template_instance
            else:
                o = build_letter(("copy",) + tuple(root[1:-1]), self.seed)
            before = obs6(o)
            c = route.fn(o, keep, self.seed)
            st = {"kind": "copy", "root": root, "o": o, "c": c, "route": route, "keep": keep, "obs_before": before}
            st["obs"] = {"o": obs6(o), "c": obs6(c)}
            return st
        if root[0] == "copy":
            o = build_letter(root, self.seed)
            c = o.copy()
            st = {"kind": "copy", "root": root, "o": o, "c": c}
            st["obs"] = {"o": obs6(o), "c": obs6(c)}
            return st
        return self._lm_build(root)

    def ops(self, st, level):
        if st["kind"] == "copy":
            return self._copy_ops(st, level)
        return self._lm_ops(st, level)

    def apply(self, st, op, verify=True):
        if st["kind"] == "copy":
            return self._copy_apply(st, op, verify)
        return self._lm_apply(st, op, verify)

    def canon(self, st):
        if st["kind"] == "copy":
            return ("copy", obs_key(st["obs"]["o"]), obs_key(st["obs"]["c"]))
        return self._lm_canon(st)

    def check_root(self, st, root):
        if st["kind"] == "copy":
            if root[0] == "copy" and root[1] == "scale":
                self.note("scale-letter:%s:%s" % (root[2], root[4]))
            return self._copy_check_root(st, root)
        self.note("lm-root:" + root[1])
        return self._lm_check_all(st, "lm-initial")

    def is_query(self, op):
        return op[0] in ("get", "getnone", "iter")

    # ================================================================== (a)
    def _where(self, st):
        if "route" in st:
            return "derive:%s:%s" % (st["route"].name, type(st["o"]).__name__)
        return "copy:" + type(st["o"]).__name__

    def _derive_check_root(self, st, root):
        o, c, route = st["o"], st["c"], st["route"]
        where = self._where(st)
        fails = []
        self.note("derived:" + route.name)
        if c is o:
            fails.append(Failure(where, "result-is-source", "the route returned its source object"))
            return fails
        d = obs_diff(st["obs_before"], st["obs"]["o"])
        if d:
            fails.append(Failure(where, "source-changed-by-route", d))
        if not o.has_landmarks:
            raise AssertionError("derive letter without landmarks: %r" % (root,))
        if not c.has_landmarks:
            fails.append(Failure(where, "landmarks-not-carried", "the source has %d groups, the result none" % o.landmarks.n_groups))
            return fails
        if c.landmarks is o.landmarks:
            fails.append(Failure(where, "manager-object-shared", "result.landmarks is source.landmarks"))
        for k in o.landmarks.keys():
            if k in c.landmarks and c.landmarks[k] is o.landmarks[k]:
                fails.append(Failure(where, "group-object-shared", "group %r is one object in source and result" % (k,)))
                break
        if list(c.landmarks.keys()) != list(o.landmarks.keys()):
            fails.append(Failure(where, "group-names-or-order", "%r vs %r" % (list(o.landmarks.keys()), list(c.landmarks.keys()))))
        elif route.lm_equal:
            d = obs_diff(observe(o.landmarks), observe(c.landmarks))
            if d:
                fails.append(Failure(where, "landmarks-not-equal", d))
            else:
                self.note("derive:landmarks-equal")
        if route.identical:
            # route agreement: an identity route and copy() must give the same object
            # (a MaskedImage is only defined under its mask: from_vector documents that nothing else is filled)
            a, b = obs6(o.copy()), dict(st["obs"]["c"])
            if _isa(o, "MaskedImage"):
                a["pixels"], b["pixels"] = np.array(o.as_vector()), np.array(c.as_vector())
            d = obs_diff(a, b)
            if d:
                fails.append(Failure(where, "route-disagrees-with-copy", d))
            else:
                self.note("derive:agrees-with-copy")
        return fails

    def _copy_check_root(self, st, root):
        if "route" in st:
            return self._derive_check_root(st, root)
        o, c = st["o"], st["c"]
        fails = []
        fam = root[1]
        self.note("copied:" + fam)
        if c is o:
            fails.append(Failure(self._where(st), "copy-is-receiver", "copy() returned its receiver"))
        if type(c) is not type(o):
            fails.append(Failure(self._where(st), "copy-class", "copy() of %s is a %s" % (type(o).__name__, type(c).__name__)))
        d = obs_diff(st["obs"]["o"], st["obs"]["c"])
        if d:
            fails.append(Failure(self._where(st), "copy-not-equal", "observation of the copy differs: %s" % d))
        else:
            self.note("equal:" + fam)
        # the receiver is not changed by being copied, and a copy of the copy is again equal
        cc = c.copy()
        d = obs_diff(st["obs"]["o"], obs6(cc))
        if d:
            fails.append(Failure(self._where(st), "copy-of-copy-not-equal", d))
        d = obs_diff(st["obs"]["o"], obs6(o))
        if d:
            fails.append(Failure(self._where(st), "receiver-changed-by-copy", d))
        return fails

    def _whiches(self):
        return ("first", "last") if self.tier == "quick" else ("first", "mid", "last")

    def _copy_ops(self, st, level):
        max_level = 1 if self.tier == "quick" else 2
        if level >= max_level:
            return []
        out = []
        conts = []
        derived = "route" in st
        for side in ("c", "o"):
            x = st[side]
            for path, kind, obj, parent in walk(x):
                if derived and not path.startswith("._landmarks"):
                    continue  # a route only promises ownership of the landmarks
                if exempt(x, path):
                    self.note("exempt:" + type(x).__name__)
                    continue
                if kind == "list":
                    conts += [("cw", side, path, how) for how in ("dup", "pop", "reverse")]
                elif kind == "dict":
                    conts += [("cw", side, path, how) for how in ("delfirst", "addkey")]
                else:
                    whiches = self._whiches() if obj.size > 1 else ("first",)
                    out += [("w", side, path, w) for w in whiches]
        out += conts
        if level == 0:
            for side in ("c", "o"):
                out += [("m", side, name) for name in (lm_mutators(st[side]) if derived else mutators(st[side]))]
            if not derived:
                for side in ("c", "o"):
                    out += [("m", side, name) for name in other_mutators(st[side])]
        return out

    def _copy_apply(self, st, op, verify):
        kind, side = op[0], op[1]
        other = "o" if side == "c" else "c"
        x, y = st[side], st[other]
        seen_in = "original" if side == "c" else "copy"
        where = self._where(st)
        fails = []
        if kind in ("w", "cw"):
            if not verify:
                return fails  # writes are undone: the state does not change
            entry = [e for e in walk(x) if e[0] == op[2]]
            if not entry:
                raise KeyError("no place %r in %s" % (op[2], type(x).__name__))
            path, k, obj, parent = entry[0]
            if kind == "w":
                tok = write_array(k, obj, parent, op[3])
            else:
                tok = write_container(k, obj, op[3])
            if tok is None:
                self.note("write:nothing-to-write")
                return fails
            try:
                try:
                    after = obs6(y)
                except Exception as e:  # noqa - y was broken by a write into x: that *is* visibility
                    after = {"raises": "%s: %s" % (type(e).__name__, e)}
                mine = safe_obs(x)
            finally:
                if kind == "w":
                    undo_array(obj, tok)
                else:
                    undo_container(k, obj, tok)
            d = obs_diff(st["obs"][other], after)
            tag = "write" if kind == "w" else "container-write"
            if "route" in st:
                self.note("derive-%s:%s" % (tag, st["route"].name))
            if d:
                fails.append(Failure(where, "%s-visible-in-%s:%s" % (tag, seen_in, norm_path(path)), "%s of %s at %s (%s): %s" % (tag, side, path, op[3], d)))
            self.note("%s:%s" % (tag, "changes-written-side" if obs_diff(st["obs"][side], mine) else "unobservable-on-written-side"))
            return fails
        if kind == "m":
            name = op[2]
            if "(other" in name:
                mutate_with_other(x, name, y)
            else:
                mutate(x, name, self.seed)
            new = obs6(x)
            changed = obs_diff(st["obs"][side], new) is not None
            st["obs"][side] = new
            self.note("mutator:%s:%s" % (name, "changed" if changed else "no-effect"))
            if "route" in st:
                self.note("derive-mutator:%s" % st["route"].name)
            if verify:
                d = obs_diff(st["obs"][other], obs6(y))
                if d:
                    fails.append(Failure(where, "mutator-visible-in-%s:%s" % (seen_in, name), "%s on the %s changed the other: %s" % (name, "copy" if side == "c" else "original", d)))
                # the two objects must still be write-independent (a mutator may adopt an array of its argument or of a
                # cache): probed in this very step for the letters with few buffers and for every other-side mutator
                fam = st["root"][1] if st["root"][0] == "copy" else "derive"
                if "(other" in name or fam in ("tr", "model", "lm", "lazy", "scale"):
                    for a, b, tag in ((x, y, seen_in), (y, x, "copy" if seen_in == "original" else "original")):
                        independent(a, b, where, "after-%s:write-visible-in-%s:" % (name, tag), fails, lambda n: self.note("probe-after-mutator", n), root_a=a, observe=obs6)
            return fails
        raise ValueError(op)

    # ================================================================== (b)
    def _lm_build(self, root):
        from menpo.image import Image
        from menpo.shape import PointCloud

        variant = root[1]
        st = {"kind": "lm", "root": root, "shard": (int(root[2]), int(root[3]))}
        pl = lm_payload(self.seed)
        start, fa, fb, st["edit"], st["shift"] = LM_VARIANTS[variant]
        st["tol"] = LM_RTOL * (fa * 6.0 + fb + max(st["shift"]))  # payload coordinates lie in [0.5, 5.5] x factor + offset
        st["own"] = {"P": PointCloud(pl["P"] * fa + fb), "I": Image(pl["I"] * fa + fb), "X": None}
        st["M"] = None
        st["pool"] = build_pool(self.seed, fa, fb)
        m = LMModel()
        m.pool = [gobs(v) for v in st["pool"]]
        st["own0"] = {"P": st["own"]["P"].points.copy(), "I": st["own"]["I"].pixels.copy()}
        st["model"] = m
        if start == "pre":
            for owner, name, v in (("P", "a", 1), ("P", "b", 0), ("I", "a", 0)):
                st["own"][owner].landmarks[name] = st["pool"][v]
                m.mgr[owner][name] = _pycopy.deepcopy(m.pool[v])
                m.assigned[v] = True
        return st

    def _mgr(self, st, mid):
        if mid == "M":
            return st["M"]
        o = st["own"][mid]
        return None if o is None else o.landmarks

    def _lm_canon(self, st):
        m = st["model"]
        key = []
        for mid in MGRS:
            od = m.mgr[mid]
            key.append(None if od is None else tuple((k, gkey(g)) for k, g in od.items()))
        key.append(tuple(gkey(p) for p in m.pool))
        key.append(tuple(m.assigned))
        key.append(m.xclass)
        key.append(self._aliasing(st))
        return tuple(key)

    def _aliasing(self, st):
        """which stored groups / pool values share memory (public arrays only)."""
        holders = []
        for mid in MGRS:
            mg = self._mgr(st, mid)
            if mg is None:
                continue
            for name in mg.keys():
                holders.append(((mid, name), mg[name].points))
        for i, v in enumerate(st["pool"]):
            holders.append((("pool", i), v.points))
        spans = sorted((byte_bounds(a) + (i,) for i, (_, a) in enumerate(holders)), key=lambda t: t[:2])
        pairs = []
        for x in range(len(spans)):
            for y in range(x + 1, len(spans)):
                if spans[y][0] >= spans[x][1]:
                    break  # sorted by start: nothing later can overlap x
                i, j = sorted((spans[x][2], spans[y][2]))
                if np.shares_memory(holders[i][1], holders[j][1]):
                    pairs.append((holders[i][0], holders[j][0]))
        return tuple(sorted(pairs))

    # ---------------------------------------------------------------- alphabet
    NARROW = {
        "set": (("P", "a", 0), ("P", "b", 1), ("P", "a", 2), ("I", "b", 0), ("M", "a", 0)),
        "del": (("P", "a"), ("I", "a"), ("M", "a")),
        "mcopy": ("P", "I"),
        "assign": (("I", "P"), ("P", "M")),
        "ocopy": ("P",),
    }

    def _lm_levels(self, st):
        """(number of levels explored from this root, first level that uses the narrow alphabet)."""
        if st["root"][1] in LM_SCALE_VARIANTS:
            return (2 if self.tier == "quick" else 3), 99
        if self.tier == "quick":
            return 3, 99
        # the 'pre' root starts three assignments deep: one level less than the empty root
        return (4 if st["root"][1] == "pre" else 5), 3

    def _lm_ops(self, st, level):
        m = st["model"]
        n_levels, narrow_from = self._lm_levels(st)
        if level >= n_levels:
            return []
        live = [mid for mid in MGRS if m.mgr[mid] is not None]
        narrow = level >= narrow_from
        nar = self.NARROW
        out = []
        for mid in live:
            out.append(("iter", mid))
            out.append(("getnone", mid))
            for n in NAMES:
                out.append(("get", mid, n))
        for mid in live:
            for n in NAMES:
                for v in (0, 1, 2):
                    if not narrow or (mid, n, v) in nar["set"]:
                        out.append(("set", mid, n, v))
            if not narrow:
                out.append(("setnone", mid, 0))
            # a group the manager already holds, assigned (by identity) under another / the same name
            for srcn in m.mgr[mid].keys():
                for n in NAMES:
                    if not narrow or n != srcn:
                        out.append(("setself", mid, n, srcn))
            for n in NAMES:
                if not narrow or (mid, n) in nar["del"]:
                    out.append(("del", mid, n))
        for v in (0, 1, 2):
            if m.assigned[v]:
                out.append(("editpool", v))
        for mid in live:
            for n in m.mgr[mid].keys():
                out.append(("editgroup", mid, n))
        for mid in live:
            if not narrow or mid in nar["mcopy"]:
                out.append(("mcopy", mid))
        for dst in OWNERS:
            if m.mgr[dst] is None:
                continue
            for src in live:
                if src != dst and (not narrow or (dst, src) in nar["assign"]):
                    out.append(("assign", dst, src))
        for src in ("P", "I"):
            if not narrow or src in nar["ocopy"]:
                out.append(("ocopy", src))
        if all(int(g["points"].shape[1]) == 2 for g in m.mgr["P"].values()):
            out.append(("xform", "P"))
        if level == 0 and st["shard"][1] > 1:
            out = [o for i, o in enumerate(out) if i % st["shard"][1] == st["shard"][0]]
        return out

    # ---------------------------------------------------------------- step
    def _lm_apply(self, st, op, verify):
        from menpo.transform import Translation

        m = st["model"]
        kind = op[0]
        fails = []

        def attempt(fn):
            try:
                return fn(), None
            except (ValueError, KeyError) as e:
                return None, e

        if kind == "set":
            mid, name, v = op[1], op[2], op[3]
            mg, od, val = self._mgr(st, mid), m.mgr[mid], st["pool"][v]
            cur = LMModel.dims(od)
            mismatch = cur is not None and POOL_DIMS[v] != cur
            # replacing the only group by a value of another dimensionality leaves one dimensionality
            # either way: the property does not say which, so both outcomes are admitted
            lenient = mismatch and len(od) == 1 and name in od
            _, exc = attempt(lambda: mg.__setitem__(name, val))
            if mismatch and not lenient:
                self.note("set:refused-dimension")
                if verify and not isinstance(exc, ValueError):
                    fails.append(Failure("lm-set", "dimension-mismatch-accepted", "%dD value stored in a %dD manager (%r)" % (POOL_DIMS[v], cur, exc)))
                if exc is None:
                    od[name] = _pycopy.deepcopy(m.pool[v])
            elif exc is not None:
                if lenient and isinstance(exc, ValueError):
                    self.note("set:sole-group-other-dimension-refused")
                else:
                    if verify:
                        fails.append(Failure("lm-set", "raised", "set(%s, %s, pool %d) raised %r" % (mid, name, v, exc)))
                    return fails
            else:
                self.note("set:replaced" if name in od else "set:new")
                od[name] = _pycopy.deepcopy(m.pool[v])  # an existing key keeps its position
                m.assigned[v] = True
                if verify:
                    got = attempt(lambda: mg[name])[0]
                    if got is None:
                        fails.append(Failure("lm-set", "stored-group-missing", "group %r not retrievable after set" % name))
                    else:
                        if got is val:
                            fails.append(Failure("lm-set", "stored-object-is-the-value", "manager %s holds the very object that was assigned" % mid))
                        independent(val, got, "lm-set", "edit-of-value-reaches-stored:", fails, lambda n: self.note("probe:value->stored", n))
                        independent(got, val, "lm-set", "edit-of-stored-reaches-value:", fails, lambda n: self.note("probe:stored->value", n))
        elif kind == "setself":
            mid, name, srcn = op[1], op[2], op[3]
            mg, od = self._mgr(st, mid), m.mgr[mid]
            val = mg[srcn]
            _, exc = attempt(lambda: mg.__setitem__(name, val))
            self.note("setself:%s" % ("same-name" if name == srcn else "other-name"))
            if exc is not None:
                if verify:
                    fails.append(Failure("lm-set", "raised", "set(%s, %s, own group %s) raised %r" % (mid, name, srcn, exc)))
                return fails
            od[name] = _pycopy.deepcopy(od[srcn])
            if verify and name != srcn:
                got, src_now = attempt(lambda: mg[name])[0], attempt(lambda: mg[srcn])[0]
                if got is None or src_now is None:
                    fails.append(Failure("lm-set", "stored-group-missing", "group %r / %r not retrievable after set" % (name, srcn)))
                else:
                    if got is src_now:
                        fails.append(Failure("lm-set", "stored-object-is-the-value", "manager %s holds one object under %r and %r" % (mid, name, srcn)))
                    independent(src_now, got, "lm-set", "edit-of-value-reaches-stored:", fails, lambda n: self.note("probe:value->stored", n))
                    independent(got, src_now, "lm-set", "edit-of-stored-reaches-value:", fails, lambda n: self.note("probe:stored->value", n))
        elif kind == "setnone":
            mid, v = op[1], op[2]
            _, exc = attempt(lambda: self._mgr(st, mid).__setitem__(None, st["pool"][v]))
            self.note("setnone:refused")
            if verify and not isinstance(exc, ValueError):
                fails.append(Failure("lm-set-none", "none-key-accepted", "set(None, value) gave %r" % (exc,)))
        elif kind == "get":
            mid, name = op[1], op[2]
            got, exc = attempt(lambda: self._mgr(st, mid)[name])
            if name not in m.mgr[mid]:
                self.note("get:KeyError")
                if verify and not isinstance(exc, KeyError):
                    fails.append(Failure("lm-get", "missing-key", "get(%r) on %r: expected KeyError, got %r %r" % (name, list(m.mgr[mid]), got, exc)))
            else:
                self.note("get:value")
                if verify:
                    if exc is not None:
                        fails.append(Failure("lm-get", "raised", repr(exc)))
                    else:
                        d = obs_diff(m.mgr[mid][name], gobs(got), atol=st["tol"])
                        if d:
                            fails.append(Failure("lm-get", "group-content", d))
            return fails  # query: the global oracle ran after the step that produced this state
        elif kind == "getnone":
            mid = op[1]
            got, exc = attempt(lambda: self._mgr(st, mid)[None])
            od = m.mgr[mid]
            if len(od) == 1:
                self.note("getnone:sole-group")
                if verify:
                    if exc is not None:
                        fails.append(Failure("lm-get-none", "sole-group-not-resolved", repr(exc)))
                    else:
                        d = obs_diff(list(od.values())[0], gobs(got), atol=st["tol"])
                        if d:
                            fails.append(Failure("lm-get-none", "group-content", d))
            else:
                self.note("getnone:refused-%s" % ("empty" if not od else "ambiguous"))
                if verify and not isinstance(exc, ValueError):
                    fails.append(Failure("lm-get-none", "none-resolved-without-sole-group", "%d groups, got %r %r" % (len(od), got, exc)))
            return fails
        elif kind == "iter":
            mid = op[1]
            mg, od = self._mgr(st, mid), m.mgr[mid]
            self.note("iter:%d-groups" % len(od))
            if verify:
                exp = list(od.keys())
                views = {
                    "iter": list(mg),
                    "keys": list(mg.keys()),
                    "items": [k for k, _ in mg.items()],
                    "group_labels": list(mg.group_labels),
                    "matching": list(mg.keys_matching("*")),
                }
                for vname, got in views.items():
                    if got != exp:
                        fails.append(Failure("lm-iter", "order:" + vname, "expected %r got %r" % (exp, got)))
                if len(mg) != len(exp) or mg.n_groups != len(exp) or bool(mg.has_landmarks) != bool(exp):
                    fails.append(Failure("lm-iter", "count", "len %r n_groups %r for %r" % (len(mg), mg.n_groups, exp)))
                for n in NAMES:
                    if (n in mg) != (n in od):
                        fails.append(Failure("lm-iter", "contains", n))
                vals = [gobs(g) for g in mg.values()]
                d = obs_diff(list(od.values()), vals, atol=st["tol"])
                if d:
                    fails.append(Failure("lm-iter", "values", d))
            return fails
        elif kind == "del":
            mid, name = op[1], op[2]
            _, exc = attempt(lambda: self._mgr(st, mid).__delitem__(name))
            if name not in m.mgr[mid]:
                self.note("del:KeyError")
                if verify and not isinstance(exc, KeyError):
                    fails.append(Failure("lm-del", "missing-key", "del %r: expected KeyError got %r" % (name, exc)))
            else:
                self.note("del:removed")
                if exc is not None:
                    if verify:
                        fails.append(Failure("lm-del", "raised", repr(exc)))
                    return fails
                del m.mgr[mid][name]
        elif kind == "editpool":
            v = op[1]
            _edit(st["pool"][v].points, st["edit"])
            _edit(m.pool[v]["points"], st["edit"])
            self.note("editpool:done")
        elif kind == "editgroup":
            mid, name = op[1], op[2]
            g = self._mgr(st, mid)[name]
            _edit(g.points, st["edit"])
            _edit(m.mgr[mid][name]["points"], st["edit"])
            self.note("editgroup:done")
        elif kind == "mcopy":
            src = op[1]
            smg = self._mgr(st, src)
            new = smg.copy()
            st["M"] = new
            m.mgr["M"] = LMModel.clone(m.mgr[src])
            self.note("mcopy:%d-groups" % len(m.mgr[src]))
            if verify:
                if new is smg:
                    fails.append(Failure("lm-copy", "copy-is-receiver", ""))
                self._probe_pairs(smg, new, m.mgr[src], "lm-copy", fails)
        elif kind == "assign":
            dst, src = op[1], op[2]
            smg = self._mgr(st, src)
            owner = st["own"][dst]
            sd = LMModel.dims(m.mgr[src])
            _, exc = attempt(lambda: setattr(owner, "landmarks", smg))
            if sd is not None and sd != 2:
                # a manager of another dimensionality than the owner: the property only speaks about the
                # groups of one manager, so refusal (menpo: ValueError) and acceptance are both admitted
                if isinstance(exc, ValueError):
                    self.note("assign:other-dimension-refused")
                    return fails + (self._lm_check_all(st, "lm-assign") if verify else [])
                self.note("assign:other-dimension-accepted")
            if exc is not None:
                if verify:
                    fails.append(Failure("lm-assign", "raised", "%s.landmarks = manager of %s raised %r" % (dst, src, exc)))
                return fails
            self.note("assign:%d-groups" % len(m.mgr[src]))
            m.mgr[dst] = LMModel.clone(m.mgr[src])
            if verify:
                dmg = self._mgr(st, dst)
                if dmg is smg:
                    fails.append(Failure("lm-assign", "stored-manager-is-the-value", "%s.landmarks is the assigned manager object" % dst))
                self._probe_pairs(smg, dmg, m.mgr[src], "lm-assign", fails)
        elif kind == "ocopy":
            src = op[1]
            new = st["own"][src].copy()
            st["own"]["X"] = new
            m.mgr["X"] = LMModel.clone(m.mgr[src])
            m.xclass = type(new).__name__
            self.note("ocopy:%d-groups" % len(m.mgr[src]))
            if verify:
                self._probe_pairs(self._mgr(st, src), new.landmarks, m.mgr[src], "lm-owner-copy", fails)
        elif kind == "xform":
            src = op[1]
            shift = np.array(st["shift"])
            t = Translation(shift)
            new = t.apply(st["own"][src])
            st["own"]["X"] = new
            od = LMModel.clone(m.mgr[src])
            for g in od.values():
                g["points"] = g["points"] + shift
            m.mgr["X"] = od
            m.xclass = type(new).__name__
            self.note("xform:%d-groups" % len(od))
            if verify:
                if not np.allclose(new.points, st["own"][src].points + shift, atol=st["tol"], rtol=0):
                    fails.append(Failure("lm-owner-transform", "owner-points", "translated owner is wrong"))
                self._probe_pairs(self._mgr(st, src), new.landmarks, m.mgr[src], "lm-owner-transform", fails)
        else:
            raise ValueError(op)
        if verify:
            fails.extend(self._lm_check_all(st, "lm-" + kind))
        return fails

    def _probe_pairs(self, a_mgr, b_mgr, od, where, fails):
        """every group that went from manager a to manager b is write-independent, both directions."""
        for name in od.keys():
            try:
                ga, gb = a_mgr[name], b_mgr[name]
            except KeyError:
                fails.append(Failure(where, "group-lost", "group %r missing after the step" % name))
                continue
            if ga is gb:
                fails.append(Failure(where, "group-object-shared", "group %r is the same object in both managers" % name))
            independent(ga, gb, where, "edit-of-source-group-reaches-new:", fails, lambda n: self.note("probe:src->new", n))
            independent(gb, ga, where, "edit-of-new-group-reaches-source:", fails, lambda n: self.note("probe:new->src", n))

    def _lm_check_all(self, st, where):
        """the global oracle: every manager in scope, the pool and the owners against the model."""
        m = st["model"]
        fails = []
        for mid in MGRS:
            od = m.mgr[mid]
            if od is None:
                continue
            mg = self._mgr(st, mid)
            got_keys = list(mg.keys())
            if got_keys != list(od.keys()):
                fails.append(Failure(where, "group-names-or-order", "manager %s: expected %r got %r" % (mid, list(od.keys()), got_keys)))
                continue
            if mg.n_dims != LMModel.dims(od):
                fails.append(Failure(where, "n_dims", "manager %s: expected %r got %r" % (mid, LMModel.dims(od), mg.n_dims)))
            dims = set()
            for name, g in od.items():
                live = mg[name]
                dims.add(live.n_dims)
                d = obs_diff(g, gobs(live), atol=st["tol"])
                if d:
                    fails.append(Failure(where, "group-content", "manager %s group %r differs from what was stored: %s" % (mid, name, d)))
            if len(dims) > 1:
                fails.append(Failure(where, "mixed-dimensionality", "manager %s holds groups of dimensions %r" % (mid, sorted(dims))))
            try:
                sole = mg[None]
                if len(od) != 1:
                    fails.append(Failure(where, "none-resolved-without-sole-group", "manager %s has %d groups" % (mid, len(od))))
                elif sole is not mg[got_keys[0]]:
                    fails.append(Failure(where, "none-resolves-to-other-object", "manager %s" % mid))
            except ValueError:
                if len(od) == 1:
                    fails.append(Failure(where, "sole-group-not-resolved", "manager %s" % mid))
        for i, v in enumerate(st["pool"]):
            d = obs_diff(m.pool[i], gobs(v))
            if d:
                fails.append(Failure(where, "assigned-value-changed", "pool value %d: %s" % (i, d)))
        if not np.array_equal(st["own"]["P"].points, st["own0"]["P"]) or not np.array_equal(st["own"]["I"].pixels, st["own0"]["I"]):
            fails.append(Failure(where, "owner-data-changed", "points / pixels of an owner changed"))
        return fails

    # ------------------------------------------------------------------ reporting
    def vacuity(self, notes, stats):
        need = [
            "set:new", "set:replaced", "set:refused-dimension", "setnone:refused", "get:KeyError", "get:value",
            "getnone:sole-group", "getnone:refused-empty", "getnone:refused-ambiguous", "del:KeyError", "del:removed",
            "editpool:done", "editgroup:done", "probe:value->stored", "probe:stored->value", "probe:src->new", "probe:new->src",
            "write:changes-written-side", "container-write:changes-written-side",
        ]
        for fam in ("shape", "image", "lm", "tr", "model", "lazy"):
            need += ["copied:" + fam, "equal:" + fam]
        for k in (1, 2):
            need += ["mcopy:%d-groups" % k, "assign:%d-groups" % k, "ocopy:%d-groups" % k, "xform:%d-groups" % k]
        for name in (
            "from_vector_inplace", "lm_set_new", "lm_set_existing", "lm_del", "lm_assign_manager", "lm_edit_fetched", "apply_inplace",
            "set_masked_pixels", "compose_before_inplace", "compose_after_inplace", "compose_after_from_vector_inplace", "set_target",
            "set_rotation_matrix", "set_components", "orthonormalize_inplace", "orthonormalize_against_inplace", "set_n_active",
            "trim_components", "increment",
        ):
            need.append("mutator:%s:changed" % name)
        need += ["mutator:lm_apply_inplace:changed", "derive:landmarks-equal", "derive:agrees-with-copy", "copied:scale", "equal:scale", "probe-after-mutator"]
        need += ["lm-root:" + v for v in LM_VARIANTS]
        need += ["scale-letter:%s:%s" % (s_[0], s_[2]) for s_ in SCALE_LETTERS]
        for name in ("lm_assign_manager(other)", "lm_set(other-group)", "compose_before_inplace(other)", "compose_after_inplace(other)",
                     "from_vector_inplace(other)", "compose_after_from_vector_inplace(other)", "set_components(other)"):
            if not (notes.get("mutator:%s:changed" % name) or notes.get("mutator:%s:no-effect" % name)):
                need.append("mutator:%s:changed|no-effect" % name)  # the argument equals the receiver's own state for some
        for rn in routes():
            need += ["derived:" + rn, "derive-write:" + rn, "derive-container-write:" + rn, "derive-mutator:" + rn]
        out = ["outcome %s never produced" % n for n in need if not notes.get(n)]
        for k in ("exempt:TransformChain", "exempt:AlignmentAffine"):
            if not notes.get(k):
                out.append("no shared-by-design buffer was met (%s)" % k)
        vis, invis = notes.get("write:changes-written-side", 0), notes.get("write:unobservable-on-written-side", 0)
        if vis < 3 * invis:
            out.append("too many writes are invisible even on the object written to (%d visible, %d not): the observation is too weak" % (vis, invis))
        return out

    def rule(self):
        return (
            "(a) every Copyable letter x every reachable array / sparse component / list / dict x {first,last[,mid]} element x "
            "{write into copy, write into original} and every public mutator on either side, observation of the other side exact; "
            "(a') the same with the second object reached through every public route that derives a landmark-carrying object "
            "(writes below _landmarks and landmark mutators only), plus manager / group identity, landmark equality and agreement "
            "of identity routes with copy(); "
            "(b) breadth-first over landmark-manager histories of two owners, a derived owner, a detached manager copy and three "
            "pool values against an ordered-dict model, every stored group probed for write-independence in the step that stores it"
        )

    def alphabet_sizes(self):
        letters = copy_letters()
        fam = collections.Counter(r[1] for r in letters)
        dl = derive_letters()
        return {
            "derive_letters": len(dl),
            "derive_routes": list(routes().keys()),
            "derive_letters_by_route": dict(collections.Counter(r[-1] for r in dl)),
            "copy_letters": len(letters),
            "copy_letters_by_family": dict(fam),
            "lm_roots": 2 * self._lm_shards(),
            "lm_managers": list(MGRS),
            "lm_names": list(NAMES),
            "lm_pool": ["PointCloud-2D", "LabelledPointUndirectedGraph-2D", "PointCloud-3D"],
            "lm_depth": self.depth(),
            "copy_depth": 1 if self.tier == "quick" else 2,
        }

    def assumptions(self):
        return [
            "arrays below an alignment's _source/_target and below the members of a TransformChain are not written to (shared by documented design)",
            "one element per array is written at a time (first / last [/ middle]); sparse index arrays are only given in-range values",
            "a write is judged on the public observation of the other object; a shared buffer no public query reads is not an alarm",
            "structural container writes use type-valid content (duplicate / drop / reverse existing members)",
            "replacing the only group of a manager by a value of another dimensionality, and assigning a manager of another "
            "dimensionality than its new owner, may be refused or accepted (the property fixes neither)",
            "landmark machine: group names {a, b}; at most one derived owner and one detached manager copy are alive (a new one "
            "replaces the old); quick: every history of <= 3 operations from the empty and from a pre-filled configuration; thorough: "
            "<= 5 from the empty and <= 4 from the pre-filled one, the 4th and 5th operation drawn from the narrowed alphabet C06.NARROW "
            "(+ all edits and all queries)",
            "a pool value can be edited in place only once it has been assigned somewhere",
            "edits are +1.0 on the first coordinate (scale variants: + the payload factor, or x(1+1e-7)); groups that went through a "
            "Translation are compared with tolerance %g x magnitude of the payload, everything else exactly" % LM_RTOL,
            "scale letters: a small fixed subset of the letters re-expressed at x1e-9 / x1e-6 / x1e6 / +1e6, (nearly) identity and "
            "huge / tiny transforms, near-equal alignment targets, four large-size letters; the scale variants of the landmark machine "
            "explore 2 (quick) / 3 (thorough) operations from the pre-filled configuration",
            "derive routes: only ownership of the landmarks is demanded of a route (pixels / points may be views by documented "
            "copy=False); geometric image routes (crop, warp, rescale, pyramid ...) belong to C01 and are not letters here",
        ]


CHECK = C06
