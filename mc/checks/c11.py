"""C11 - incremental model updates equal the batch model on the concatenated data.

State machine (one per root):
    state      = (number of samples consumed so far, live model)
    root       = (model family, configuration / data letter, size of the initial batch)
    transition = model.increment(next k samples)        k = 1 .. n - consumed
    canon      = (configuration letter, samples consumed, observation of the live model quantised at a
                  tenth of the tolerance on a grid anchored at the definition of the batch model on that prefix)
So every way of cutting the first c samples into an initial batch plus increments is a path to the state
`consumed = c`; paths whose observable result coincides merge there, paths whose result differs by more
than the grid stay apart and are expanded on their own.  Roots with `merge = 0` add the history to the
key: there every composition is executed as its own trace, nothing is merged.

Oracle at EVERY state reached (i.e. after every increment of every history):
    PCA  : n_samples, mean, eigenvalues, projector C^T C onto the principal subspace and the spectral
           sum  sum_i l_i c_i c_i^T  (eigen-directions weighted by their eigenvalue: not vacuous when the
           subspace is the whole space, needs no spectral gap)
    GMRF : n_samples, mean_vector, dense form of the precision matrix
equal (a) the menpo batch model built from np.vstack of everything consumed so far (the comparator the
property names) and (b) the definition written in plain numpy (SVD of the centred prefix / sum over the
edges of the inverted block covariances).
"""
import numpy as np

from mc.core import Check, Failure
from mc.letters import rs
from mc.observe import obs_key

# ---------------------------------------------------------------------------------------------------
# tolerances (DESIGN.md 3/C11).  Worst scaled error on the unchanged tree under the guard below (both tiers,
# seeds 0..4; the decades are recorded in the evidence as err-* outcomes): mean 1e-15, eigenvalues 1e-13,
# projector 1e-11, spectral sum 1e-13, precision 1e-12 - every tolerance keeps a margin >= 1e4 above that, and
# the mutants of mutants/C11-*.patch move the result by > 5e-3 in every case reported.
# ---------------------------------------------------------------------------------------------------
TOL_MEAN = 1e-9  # absolute, times max(1, max|data|)
TOL_EIG = 1e-7  # relative to the largest eigenvalue of the batch model
TOL_PROJ = 1e-7  # absolute (entries of a projector are <= 1)
TOL_PREC = 1e-7  # relative to max |precision entry|
GRID_FRACTION = 0.1  # canonical key: deviation from the definition quantised at a tenth of the tolerance

TOLS = {"mean": TOL_MEAN, "eig": TOL_EIG, "proj": TOL_PROJ, "spec": TOL_EIG, "prec": TOL_PREC}

# general-position guard: what "a data set" means for this check (printed in the evidence)
RANK_THR = 1e-8  # singular values below RANK_THR * s_max count as zero ...
RANK_ZERO = 1e-12  # ... and must then really be below RANK_ZERO * s_max
RANK_MIN = 5e-3  # the smallest non-zero singular value of every prefix is >= RANK_MIN * s_max
COND_MAX = 2.0e3  # condition number of every block covariance of every GMRF prefix

# ---------------------------------------------------------------------------------------------------
# PCA letters
# ---------------------------------------------------------------------------------------------------
PCA_DATA = ["gen", "zero", "lowrank"]
# gen     : full spectrum 5,3,2,1.4,1,0.7,... plus a mean of size 3
# zero    : dyadic values; the initial batch has EXACTLY zero mean (ipca's `np.all(m_a == 0)` shortcut)
# lowrank : rank-2 cloud plus a mean: every increment lies in the current subspace (eps truncation)
PCA_FEED = ["array", "list", "pc", "pciter"]
# array   : PCAVectorModel fed (k, d) ndarrays             (no conversion in _data_to_matrix)
# list    : PCAVectorModel fed python lists of 1-d arrays  (np.array(data)[:n_samples] branch)
# pc      : PCAModel fed lists of PointClouds              (as_matrix, list branch)
# pciter  : PCAModel fed generators + n_samples            (as_matrix, iterator branch)


# ---------------------------------------------------------------------------------------------------
# argument forms: the SAME sample values handed over in every other legal form.  The payload of these roots is
# integer valued (0..15 for PCA, 0..45 for the GMRF) so that it is exactly representable in every dtype below; the
# expectation is always computed in float64 from the values.  A form is a letter only where the unchanged tree accepts it
# (probed on /repo, numpy 2.5): flag `init` = the constructor takes it too (the PCA constructor centres in place, so it
# refuses integer and read-only input and keeps float32 as its working precision - those forms are used for the
# increments only, after a float64 initial batch); flag `gmrf` = usable for the random field (all are since fix D32; the GMRF
# constructor takes every exact form too, so there the initial batch is presented in the form as well); flag `loose` = single precision input, compared at 1e4 x the tolerances (DESIGN 2.6: float32 letters).
# name -> (init, gmrf, loose)
# ---------------------------------------------------------------------------------------------------
FORMS = {
    "f64": (1, 1, 0),  # control: contiguous float64 ndarray of the integer payload
    "f32": (0, 1, 1),
    "i64": (0, 1, 0),
    "i32": (0, 1, 0),
    "i16": (0, 1, 0),
    "i8": (0, 1, 0),
    "u8": (0, 1, 0),
    "u16": (0, 1, 0),
    "pyfloat": (1, 1, 0),  # list of lists of python floats
    "pyint": (0, 1, 0),  # list of lists of python ints          (np.array(...) -> int64)
    "tupfloat": (1, 1, 0),  # tuple of tuples of python floats
    "tupint": (0, 1, 0),
    "npfloat": (1, 1, 0),  # list of lists of numpy float64 scalars
    "npint": (0, 1, 0),  # list of lists of numpy int64 scalars
    "rowsi64": (0, 1, 0),  # list of 1-d int64 arrays
    "rowsf32": (0, 1, 1),  # list of 1-d float32 arrays
    "readonly": (0, 1, 0),  # float64, flags.writeable = False
    "colstrided": (1, 1, 0),  # every second column of a wider array
    "rowstrided": (1, 1, 0),  # every second row of a taller array
    "fortran": (1, 1, 0),  # column-major
    "npcount": (1, 1, 0),  # list of 1-d arrays with n_samples given as a numpy integer
}
DTYPES = {"f64": np.float64, "f32": np.float32, "i64": np.int64, "i32": np.int32, "i16": np.int16, "i8": np.int8, "u8": np.uint8, "u16": np.uint16}
INT_FORMS = ("i64", "i32", "i16", "i8", "u8", "u16", "pyint", "tupint", "npint", "rowsi64")


def present(form, rows):
    """the float64 matrix `rows` (integer valued) in the given form -> (object, extra keyword arguments)."""
    rows = np.array(rows, dtype=np.float64, copy=True)
    if form in INT_FORMS and not np.all(rows == np.round(rows)):
        raise ValueError("integer forms need an integer valued payload")
    if form in DTYPES:
        out = rows.astype(DTYPES[form])
        if not np.array_equal(out.astype(np.float64), rows):
            raise ValueError("payload not representable as %s" % form)
        return out, {}
    if form == "pyfloat":
        return [[float(v) for v in r] for r in rows], {}
    if form == "pyint":
        return [[int(v) for v in r] for r in rows], {}
    if form == "tupfloat":
        return tuple(tuple(float(v) for v in r) for r in rows), {}
    if form == "tupint":
        return tuple(tuple(int(v) for v in r) for r in rows), {}
    if form == "npfloat":
        return [[np.float64(v) for v in r] for r in rows], {}
    if form == "npint":
        return [[np.int64(v) for v in r] for r in rows], {}
    if form == "rowsi64":
        return [r.astype(np.int64) for r in rows], {}
    if form == "rowsf32":
        return [r.astype(np.float32) for r in rows], {}
    if form == "readonly":
        rows.flags.writeable = False
        return rows, {}
    if form == "colstrided":
        wide = np.full((rows.shape[0], 2 * rows.shape[1]), -7.0)
        wide[:, ::2] = rows
        return wide[:, ::2], {}
    if form == "rowstrided":
        tall = np.full((2 * rows.shape[0], rows.shape[1]), -7.0)
        tall[::2] = rows
        return tall[::2], {}
    if form == "fortran":
        return np.asfortranarray(rows), {}
    if form == "npcount":
        return [r.copy() for r in rows], {"n_samples": np.int64(rows.shape[0])}
    raise ValueError(form)


# ---------------------------------------------------------------------------------------------------
# refused calls: increments the unchanged tree refuses with an exception, applied to the SAME live model in between
# valid increments.  One letter per way of being refused that the code distinguishes; which letters exist for a feed
# was probed on /repo (a call /repo accepts, or refuses while corrupting the model, is not a letter - see assumptions()).
# letter -> refusal kind (vacuity() wants every kind seen for each family that has it)
# ---------------------------------------------------------------------------------------------------
REFUSAL_KIND = {
    "features+1": "wrong-size",  # one feature too many
    "features-1": "wrong-size",
    "one-column": "wrong-size",  # (k, 1): broadcasts against the mean, refused only later
    "pc-size": "wrong-size",  # every PointCloud has one point too many
    "vector-1d": "wrong-rank",  # a single sample as a 1-d vector
    "cube-3d": "wrong-rank",
    "nan": "non-finite",  # refused by the decomposition, after the mean step
    "inf": "non-finite",
    "ragged": "ragged",  # rows of different length
    "pc-mixed": "ragged",  # PointClouds of different size
    "not-numeric": "not-numeric",
    "none": "none",
    "iter-short": "short-iterator",  # n_samples promises more than the iterator yields
    "frozen": "not-incremental",  # a model built with incremental=False
}
PCA_REFUSALS = {
    "array": ["features+1", "features-1", "one-column", "vector-1d", "cube-3d", "nan", "inf", "not-numeric", "none"],
    "list": ["features+1", "features-1", "ragged", "nan", "none"],
    "pc": ["pc-size", "pc-mixed", "nan"],
    "pciter": ["iter-short", "pc-mixed", "nan"],
}
GMRF_REFUSALS = {
    "array": ["features+1", "features-1", "one-column", "vector-1d", "cube-3d", "not-numeric", "none", "frozen"],
    "list": ["features+1", "features-1", "ragged", "none", "frozen"],
    "pc": ["pc-size", "pc-mixed", "frozen"],
    "pciter": ["iter-short", "pc-size", "pc-mixed", "frozen"],
}


def refused_argument(letter, feed, rows, pc_shape):
    """(argument, keyword arguments) of a refused increment, in the form of the feed; rows = two valid samples."""
    from menpo.shape import PointCloud

    rows = np.array(rows, dtype=np.float64, copy=True)
    k, d = rows.shape
    kw = {}
    if letter == "none":
        return None, kw
    if letter == "not-numeric":
        return [["a"] * d for _ in range(k)], kw
    if letter in ("nan", "inf"):
        rows[0, min(1, d - 1)] = np.nan if letter == "nan" else np.inf
    if feed in ("array", "list"):
        if letter == "features+1":
            rows = np.hstack((rows, rows[:, :1]))
        elif letter == "features-1":
            rows = rows[:, :-1].copy()
        elif letter == "one-column":
            rows = rows[:, :1].copy()
        elif letter == "vector-1d":
            return rows[0].copy(), kw
        elif letter == "cube-3d":
            return rows[None].copy(), kw
        elif letter == "ragged":
            return [rows[0].copy(), rows[1][:-1].copy()], kw
        if feed == "list":
            return [r.copy() for r in rows], kw
        return rows, kw
    pts = [r.reshape(pc_shape).copy() for r in rows]
    if letter == "pc-size":
        pts = [np.vstack((q, q[:1])) for q in pts]
    elif letter == "pc-mixed":
        pts[1] = np.vstack((pts[1], pts[1][:1]))
    pcs = [PointCloud(q) for q in pts]
    if feed == "pc":
        return pcs, kw
    kw["n_samples"] = len(pcs) + (1 if letter == "iter-short" else 0)
    return iter(pcs), kw


def _snap(a):
    """value snapshot of an argument (None for what cannot be looked at twice)."""
    if isinstance(a, np.ndarray):
        return ("nd", a.shape, str(a.dtype), a.copy())
    if isinstance(a, (list, tuple)):
        return ("seq", type(a).__name__, [_snap(x) for x in a])
    if hasattr(a, "points"):
        return ("pc", np.array(a.points, copy=True))
    if a is None or isinstance(a, (str, int, float)):
        return ("v", a)
    return ("opaque",)


def _snap_equal(a, b):
    if a[0] != b[0]:
        return False
    if a[0] == "nd":
        return a[1] == b[1] and a[2] == b[2] and np.array_equal(a[3], b[3], equal_nan=True)
    if a[0] == "seq":
        return a[1] == b[1] and len(a[2]) == len(b[2]) and all(_snap_equal(x, y) for x, y in zip(a[2], b[2]))
    if a[0] == "pc":
        return np.array_equal(a[1], b[1], equal_nan=True)
    if a[0] == "v":
        return a[1] == b[1]
    return True


# ---------------------------------------------------------------------------------------------------
# public routes: every public way in the anchored files (menpo/math/decomposition.py, menpo/model/pca.py) of building the
# initial PCA state and of feeding an increment to it.  Each route is a letter run on the same data letters with the same
# oracle, plus a route-agreement clause against the plain route (PCAVectorModel(...).increment(...)) on the same history.
# route -> (how the initial batch is decomposed, how an increment is fed, which centring it exists for)
# ---------------------------------------------------------------------------------------------------
ROUTES = {
    # module-level functions, state (U, l, m, n) threaded by hand
    "ipca-infer": ("pca(X, centre)", "ipca(B, U, l, n, m_a=m) centred / ipca(B, U, l, n) uncentred: centring inferred, f omitted", (1, 0)),
    "ipca-zeros": ("pca(X, centre=False)", "ipca(B, U, l, n, m_a=zeros(d)): documented as 'not centred'", (0,)),
    "ipca-explicit": ("pca(X, centre, inplace=True)", "ipca(B, U, l, n, m_a=m, f=1.0, centred=c)", (1, 0)),
    "ipca-positional": ("pca(X, centre)", "ipca(B, U, l, n, m, 1.0, 1e-10, c): everything positional", (1, 0)),
    "pcacov": ("pcacov(C) of the numpy covariance", "ipca(..., centred=c)", (1, 0)),
    "pcacov-inverse": ("pcacov(inv(C), is_inverse=True) - full-rank first batches only", "ipca(..., centred=c)", (1, 0)),
    # classmethods of the models, then the method
    "from-components": ("PCAVectorModel.init_from_components(pca(X))", "model.increment(B)", (1, 0)),
    "from-covariance": ("PCAVectorModel.init_from_covariance_matrix(C, mean, n, centred)", "model.increment(B)", (1, 0)),
    "from-inverse-covariance": ("PCAVectorModel.init_from_covariance_matrix(inv(C), ..., is_inverse=True) - full rank only", "model.increment(B)", (1, 0)),
    "pcmodel-from-components": ("PCAModel.init_from_components(pca(X), mean PointCloud)", "model.increment([PointCloud])", (1, 0)),
    "pcmodel-from-covariance": ("PCAModel.init_from_covariance_matrix(C, mean PointCloud, n, centred)", "model.increment([PointCloud])", (1, 0)),
    "ipca-eps": ("pca(X, centre)", "ipca(B, U, l, n, m_a=m, centred=c, eps=1e-8): the documented (relative) threshold given by the caller", (1, 0)),
    "noinplace": ("PCAVectorModel(X, inplace=False) on the caller's own array", "model.increment(B, forgetting_factor=1.0)", (1, 0)),
}
ROUTE_DATA = ["gen", "zero", "lowrank", "zcol", "zmean"]
FULL_RANK_ROUTES = ("pcacov-inverse", "from-inverse-covariance")


def route_exists(route, d, centred, kind, b):
    """fixed rule (never the seed): which (route, data letter, initial batch) combinations are defined."""
    if centred not in ROUTES[route][2]:
        return False
    kind = kind.split("@")[0]
    if route == "ipca-infer" and centred and kind == "zero":
        return False  # documented: an all-zero m_a means 'not centred' when centred is left to be inferred
    if route in FULL_RANK_ROUTES:
        return kind in ("gen", "zmean") and d <= (b - 1 if centred else b)
    return True


class IpcaRoute(object):
    """the module-level route: the caller keeps (U, l, m, n) and calls menpo.math.ipca.  Looks like a model to the oracle."""

    def __init__(self, route, X0, centred):
        from menpo.math import pca, pcacov

        self.route, self.centred = route, bool(centred)
        X0 = np.array(X0, dtype=np.float64, copy=True)
        n, d = X0.shape
        self.n_samples = n
        self.argument_mutated = None
        if route in ("pcacov", "pcacov-inverse"):
            m = X0.mean(axis=0) if centred else np.zeros(d)
            C = (X0 - m).T.dot(X0 - m) / (n - 1)
            if route == "pcacov":
                U, l = pcacov(C)
            else:
                U, l = pcacov(np.linalg.inv(C), is_inverse=True)
        elif route == "ipca-explicit":
            U, l, m = pca(X0, centre=bool(centred), inplace=True)
        else:
            keep = X0.copy()
            U, l, m = pca(X0, centre=bool(centred))
            if not np.array_equal(keep, X0):
                self.argument_mutated = "pca(X) without inplace=True changed X"
        self.U, self.l, self.m = U, l, m

    components = property(lambda self: self.U)
    eigenvalues = property(lambda self: self.l)
    n_components = property(lambda self: len(self.l))
    n_active_components = property(lambda self: len(self.l))

    def mean(self):
        return self.m

    def increment(self, B):
        from menpo.math import ipca

        B = np.array(B, dtype=np.float64, copy=True)
        U, l, m, n = self.U, self.l, self.m, self.n_samples
        keep = (B.copy(), U.copy(), l.copy(), None if m is None else np.array(m, copy=True))
        r, c = self.route, self.centred
        if r == "ipca-infer":
            out = ipca(B, U, l, n, m_a=m) if c else ipca(B, U, l, n)
        elif r == "ipca-zeros":
            m = np.zeros(B.shape[1])
            keep = keep[:3] + (m.copy(),)
            out = ipca(B, U, l, n, m_a=m)
        elif r == "ipca-positional":
            out = ipca(B, U, l, n, m, 1.0, 1e-10, c)
        elif r == "ipca-eps":
            out = ipca(B, U, l, n, m_a=m, centred=c, eps=1e-8)
        else:
            out = ipca(B, U, l, n, m_a=m, f=1.0, centred=c)
        for name, a, k in zip(("B", "U_a", "l_a", "m_a"), (B, U, l, m), keep):
            if k is not None and not np.array_equal(a, k):
                self.argument_mutated = "ipca changed its argument %s" % name
        self.U, self.l, self.m = out
        self.n_samples = n + B.shape[0]


def build_route(route, X0, centred, pc_shape):
    """(live object of the route, how to present an increment to it)."""
    from menpo.math import pca
    from menpo.model import PCAModel, PCAVectorModel
    from menpo.shape import PointCloud

    X0 = np.array(X0, dtype=np.float64, copy=True)
    n, d = X0.shape
    c = bool(centred)
    if route in ("from-components", "pcmodel-from-components"):
        U, l, m = pca(X0.copy(), centre=c)
        if route == "from-components":
            return PCAVectorModel.init_from_components(U, l, m, n, c)
        return PCAModel.init_from_components(U, l, PointCloud(m.reshape(pc_shape).copy()), n, c)
    if route in ("from-covariance", "from-inverse-covariance", "pcmodel-from-covariance"):
        m = X0.mean(axis=0)  # the mean handed over is the sample mean; an uncentred model must ignore it
        mc = m if c else np.zeros(d)
        C = (X0 - mc).T.dot(X0 - mc) / (n - 1)
        if route == "from-covariance":
            return PCAVectorModel.init_from_covariance_matrix(C, m.copy(), n, centred=c)
        if route == "from-inverse-covariance":
            return PCAVectorModel.init_from_covariance_matrix(np.linalg.inv(C), m.copy(), n, centred=c, is_inverse=True)
        return PCAModel.init_from_covariance_matrix(C, PointCloud(m.reshape(pc_shape).copy()), n, centred=c)
    if route == "noinplace":
        keep = X0.copy()
        model = PCAVectorModel(X0, centre=c, inplace=False)
        model._c11_argument_mutated = None if np.array_equal(keep, X0) else "PCAVectorModel(X, inplace=False) changed X"
        return model
    return IpcaRoute(route, X0, c)


# ---------------------------------------------------------------------------------------------------
# scale letters: an existing payload re-expressed at another legal magnitude, "<data letter>@<scale letter>".
#   x1e6 / x1e-6 / x1e-9 : every value multiplied by the factor (conditioning unchanged)
#   +1e6                  : a common offset 1e6 x the spread added to every sample (centred PCA / difference features only:
#                           the uncentred second moment of such data is ill conditioned by construction)
# The reference is computed in float64 from the scaled payload itself, every tolerance is relative to the magnitude of
# that payload, and the equivariance clause compares with the definition on the UNscaled payload, scaled analytically:
# mean -> s*mean (+t), eigenvalues / spectral sum -> s^2, projector unchanged, precision -> 1/s^2.
# ---------------------------------------------------------------------------------------------------
SCALES = {"x1e6": ("x", 1e6), "x1e-6": ("x", 1e-6), "x1e-9": ("x", 1e-9), "+1e6": ("+", 1e6)}


def _offset(letter, d, uniform):
    v = SCALES[letter][1]
    return v * np.ones(d) if uniform else v * (1.0 + 0.5 * np.arange(d) / d)


def scale_payload(X, letter, uniform=False):
    """uniform: the same offset on every feature (GMRF: the difference features x_i - x_j are then offset free)."""
    kind, v = SCALES[letter]
    if kind == "x":
        return X * v
    return X + _offset(letter, X.shape[1], uniform)


def scale_expectation(ref, letter, X_base_prefix, uniform=False):
    """the definition on the unscaled prefix, carried to the scaled payload analytically."""
    kind, v = SCALES[letter]
    out = dict(ref)
    if kind == "x":
        out["mean"] = ref["mean"] * v
        for key, power in (("eig", 2), ("spec", 2), ("prec", -2)):
            if key in ref:
                out[key] = ref[key] * v ** power
    else:
        shift = _offset(letter, X_base_prefix.shape[1], uniform)
        if np.any(ref["mean"] != 0) or "prec" in ref:
            out["mean"] = ref["mean"] + shift
    return out


def _svals_ok(M):
    s = np.linalg.svd(M, compute_uv=False)
    if s[0] == 0:
        return False
    r = int(np.sum(s > RANK_THR * s[0]))
    if s[r - 1] < RANK_MIN * s[0]:
        return False
    if r < len(s) and s[r] > RANK_ZERO * s[0]:
        return False
    return True


_MEMO = {}


def _memo(fn):
    """pure function of its (hashable) arguments -> computed once per worker; the array is handed out read-only."""

    def wrapped(*args):
        key = (fn.__name__,) + args
        if key not in _MEMO:
            X = fn(*args)
            X.flags.writeable = False
            _MEMO[key] = X
        return _MEMO[key]

    wrapped.__name__ = fn.__name__
    wrapped.__doc__ = fn.__doc__
    return wrapped


@_memo
def pca_data(seed, d, n, kind, b):
    """n x d data matrix of letter `kind`; deterministic redraw until every prefix (centred and raw) has an
    unambiguous numerical rank."""
    if "@" in kind:
        base, letter = kind.split("@")
        # the guard is invariant under a common factor; under a common offset the centred spectra are unchanged and
        # only centred models are run
        return scale_payload(np.array(pca_data(seed, d, n, base, b), copy=True), letter)
    for attempt in range(200):
        r = rs(seed, "c11-pca", d, n, kind, b if kind in B_DEPENDENT else 0, attempt)
        if kind == "gen":
            k = min(n - 1, d)
            u, _ = np.linalg.qr(r.randn(n, n))
            v, _ = np.linalg.qr(r.randn(d, d))
            s = np.array([5.0, 3.0, 2.0, 1.4, 1.0, 0.7, 0.5, 0.35, 0.25, 0.18, 0.12][:k])
            X = (u[:, :k] * s).dot(v[:, :k].T)
            X = X - X.mean(axis=0) + 3.0 * r.rand(d)
        elif kind == "zero":
            X = r.randint(-32, 33, size=(n, d)) / 8.0
            X[b - 1] = -X[: b - 1].sum(axis=0)
            X[b:] += 1.5  # the later samples move the mean away from zero
        elif kind == "lowrank":
            X = r.randn(n, 2).dot(r.randn(2, d)) * 1.5 + 3.0 * r.rand(d)
        elif kind == "int":
            X = r.randint(0, 16, size=(n, d)).astype(np.float64)
        elif kind in ("samemean", "nearmean"):
            # the increment that follows the first batch is the first batch mirrored at its mean: its mean equals the running
            # mean to rounding (samemean) or differs from it by 1e-6 of the spread, inside the span (nearmean) - the
            # mean-shift pseudo sample of ipca is (nearly) a zero row
            X = r.randn(n, d) * (1.0 + np.arange(d)) * 0.8 + 3.0 * r.rand(d)
            m0 = X[:b].mean(axis=0)
            X[b : 2 * b] = 2.0 * m0 - X[:b]
            if kind == "nearmean":
                X[b : 2 * b] += 1e-6 * (X[0] - m0)
        elif kind == "zcol":
            # a feature that is exactly 0 in every sample (planar 3-d points, a masked pixel): its mean coordinate is exactly 0
            X = r.randn(n, d) * (1.0 + np.arange(d)) * 0.8 + 3.0 * r.rand(d)
            X[:, min(2, d - 1)] = 0.0
        elif kind == "zmean":
            # one coordinate whose mean over the first batch is exactly 0 although it varies (dyadic values); later samples move it
            X = r.randn(n, d) * (1.0 + np.arange(d)) * 0.8 + 3.0 * r.rand(d)
            col = min(1, d - 1)
            X[:, col] = r.randint(-24, 25, size=n) / 8.0
            X[b - 1, col] = -X[: b - 1, col].sum()
            X[b:, col] += 1.25
        else:
            raise ValueError(kind)
        ok = True
        for p in range(2, n + 1):
            P = X[:p]
            if not _svals_ok(P - P.mean(axis=0)) or not _svals_ok(P):
                ok = False
                break
        if ok and kind == "zero":
            ok = bool(np.all(np.mean(X[:b], axis=0) == 0))
        if ok and kind == "zmean":
            mb = np.mean(X[:b], axis=0)
            ok = bool(mb[min(1, d - 1)] == 0 and np.sum(mb == 0) == 1 and np.ptp(X[:b, min(1, d - 1)]) > 0)
        if ok:
            return X
    raise RuntimeError("general-position guard could not be satisfied for %r" % ((d, n, kind, b),))


def pca_definition(P, centred):
    """(n, mean, eigenvalues, projector, spectral sum) of the prefix P by SVD - plain numpy."""
    n, d = P.shape
    m = P.mean(axis=0) if centred else np.zeros(d)
    Pc = P - m
    _, s, vt = np.linalg.svd(Pc, full_matrices=False)
    r = int(np.sum(s > RANK_THR * s[0]))
    lam = s[:r] ** 2 / (n - 1)
    C = vt[:r]
    return {"n": n, "mean": m, "eig": lam, "proj": C.T.dot(C), "spec": (C.T * lam).dot(C)}


B_DEPENDENT = ("zero", "zmean", "samemean", "nearmean")  # letters whose payload is built around the initial batch size


def _pc_shape(d):
    if d % 2 == 0:
        return (d // 2, 2)
    if d % 3 == 0:
        return (d // 3, 3)
    return (d, 1)


# ---------------------------------------------------------------------------------------------------
# GMRF letters
# ---------------------------------------------------------------------------------------------------
# name -> (class, n_vertices, edges, root)
GRAPHS = {
    "edgeless": ("U", 3, [], None),
    "chain": ("U", 3, [(0, 1), (1, 2)], None),
    "cycle": ("U", 3, [(0, 1), (1, 2), (2, 0)], None),
    "star": ("U", 3, [(2, 0), (2, 1)], None),
    "isolated": ("U", 3, [(0, 2)], None),  # vertex 1 has no edge in a graph that has edges
    "tree": ("T", 3, [(1, 0), (1, 2)], 1),  # rooted in the middle: an edge with v1 > v2
    "digraph": ("D", 3, [(2, 0), (2, 1), (0, 1)], None),
    "edgeless4": ("U", 4, [], None),
    "chain4": ("U", 4, [(0, 1), (1, 2), (2, 3)], None),
    "cycle4": ("U", 4, [(0, 1), (1, 2), (2, 3), (3, 0)], None),
    "star4": ("U", 4, [(0, 1), (0, 2), (0, 3)], None),
    "tree4": ("T", 4, [(0, 1), (0, 2), (1, 3)], 0),
    "chain12": ("U", 12, [(i, i + 1) for i in range(11)], None),  # the large-size letter: 24 features, 11 edges
}
GRAPHS_QUICK = ["edgeless", "chain", "cycle", "star", "isolated", "tree", "digraph"]
GRAPHS_THOROUGH = GRAPHS_QUICK + ["edgeless4", "chain4", "cycle4", "star4", "tree4"]
GMRF_FEED = ["array", "list", "pc", "pciter"]
GMRF_MIN_BATCH = 6  # every block covariance (up to 4 x 4, ddof 1) is invertible from the first batch on


def make_graph(name):
    from menpo.shape import DirectedGraph, Tree, UndirectedGraph

    cls, nv, edges, root = GRAPHS[name]
    e = np.array(edges, dtype=int).reshape(-1, 2)
    if cls == "U":
        return UndirectedGraph.init_from_edges(e, nv)
    if cls == "D":
        return DirectedGraph.init_from_edges(e, nv)
    return Tree.init_from_edges(e, nv, root)


def _cov(M, bias):
    Mc = M - M.mean(axis=0)
    return Mc.T.dot(Mc) / (M.shape[0] - (0 if bias else 1))


def _blocks(X, name, k, mode):
    """the data blocks whose covariance the model inverts: (kind, a, b, matrix)."""
    _, nv, edges, _ = GRAPHS[name]
    out = []
    if not edges:
        for v in range(nv):
            out.append(("v", v, v, X[:, v * k : (v + 1) * k]))
        return out
    for a, b in edges:
        Xa, Xb = X[:, a * k : (a + 1) * k], X[:, b * k : (b + 1) * k]
        out.append(("e", a, b, np.hstack((Xa, Xb)) if mode == "concatenation" else Xa - Xb))
    return out


def gmrf_definition(P, name, k, mode, bias):
    """(n, mean, dense precision) of the prefix P: sum over the edges (vertices when edgeless) of the inverted
    block covariances scattered at their blocks - plain numpy."""
    nv = GRAPHS[name][1]
    Q = np.zeros((nv * k, nv * k))
    for kind, a, b, M in _blocks(P, name, k, mode):
        S = np.linalg.inv(_cov(M, bias))
        sa, sb = slice(a * k, (a + 1) * k), slice(b * k, (b + 1) * k)
        if kind == "v":
            Q[sa, sa] += S
        elif mode == "concatenation":
            Q[sa, sa] += S[:k, :k]
            Q[sb, sb] += S[k:, k:]
            Q[sa, sb] += S[:k, k:]
            Q[sb, sa] += S[k:, :k]
        else:
            Q[sa, sa] += S
            Q[sb, sb] += S
            Q[sa, sb] -= S
            Q[sb, sa] -= S
    return {"n": P.shape[0], "mean": P.mean(axis=0), "prec": Q}


@_memo
def gmrf_data(seed, nv, k, n, integer=0):
    """n x (nv*k) correlated data; redraw until every block covariance (single vertex, every vertex pair in
    both edge modes) of every prefix >= GMRF_MIN_BATCH has condition number <= COND_MAX."""
    d = nv * k
    for attempt in range(500):
        r = rs(seed, "c11-gmrf", nv, k, n, attempt) if not integer else rs(seed, "c11-gmrf-int", nv, k, n, attempt)
        X = r.randn(n, d).dot(np.eye(d) + 0.35 * r.randn(d, d)) + 2.0 * r.rand(d)
        if integer:
            # integer valued, 0..45 (fits int8); X^T X and x_i - x_j of such rows leave the range of int8 / uint8 / uint16,
            # which is what fix D32 (conversion to float64 before any arithmetic) is about
            X = np.clip(np.round(7.0 * X + 20.0), 0, 45)
        worst = 0.0
        for p in range(GMRF_MIN_BATCH, n + 1):
            P = X[:p]
            for a in range(nv):
                Xa = P[:, a * k : (a + 1) * k]
                worst = max(worst, np.linalg.cond(_cov(Xa, 0)))
                for b in range(a + 1, nv):
                    Xb = P[:, b * k : (b + 1) * k]
                    worst = max(worst, np.linalg.cond(_cov(np.hstack((Xa, Xb)), 0)), np.linalg.cond(_cov(Xa - Xb, 0)))
            if worst > COND_MAX:
                break
        if worst <= COND_MAX:
            return X
    raise RuntimeError("conditioning guard could not be satisfied for %r" % ((nv, k, n, integer),))


# ---------------------------------------------------------------------------------------------------
def _dense(p):
    import scipy.sparse as sp

    return np.asarray(p.todense()) if sp.issparse(p) else np.array(p, dtype=float, copy=True)


def _vec(m):
    return np.asarray(m.as_vector() if hasattr(m, "as_vector") else m, dtype=float)


def _try(fn):
    """(value, None) or (None, 'Type: message'): menpo raising on valid input is reported as a failure of the step that
    called it (with its replayable history), never swallowed."""
    try:
        return fn(), None
    except Exception as e:  # noqa
        return None, "%s: %s" % (type(e).__name__, str(e)[:300])


class C11(Check):
    id = "C11"
    title = "incremental updates equal the batch model"

    # ------------------------------------------------------------------ scope
    def _pca_sizes(self):
        # (n samples, list of d); quick: n = 5, 6 (DESIGN) plus 8; thorough: up to 8, and 12 (crosses n = d = 10)
        if self.tier == "quick":
            return [5, 6, 8], [3, 5, 10]
        return [5, 6, 7, 8, 12], [3, 5, 10]

    def depth(self):
        return max(self._max_incs(r) for r in self.roots())

    @staticmethod
    def _max_incs(root):
        if root[0] == "pca":
            return root[2] - root[7]
        return root[7] - root[8]

    def roots(self):
        if getattr(self, "_roots", None) is not None:
            return self._roots
        out = []
        ns, ds = self._pca_sizes()
        # ("pca", d, n, centred, data letter, feed letter, merge, initial batch)
        for n in ns:
            for d in ds:
                for centred in (1, 0):
                    for kind in PCA_DATA:
                        for feed in PCA_FEED:
                            for b in range(2, n):
                                out.append(("pca", d, n, centred, kind, feed, 1, b))
        # the exactly-zero feature letters on the plain route, and every public route on every data letter
        for n in [6] if self.tier == "quick" else [6, 8]:
            for d in ds:
                for centred in (1, 0):
                    for kind in ROUTE_DATA:
                        for b in range(2, n):
                            if kind in ("zcol", "zmean"):
                                out.append(("pca", d, n, centred, kind, "array", 1, b))
                            for route in ROUTES:
                                if route_exists(route, d, centred, kind, b):
                                    out.append(("pca", d, n, centred, kind, "route:" + route, 1, b))
        # scale letters (small subset: d = 5 and 10, n = 6): every scale on the plain route and on the module-level routes with
        # the centring inferred, given, and with eps given; the equal-mean letters; one large-size letter (200 features)
        for d in (5, 10):
            for centred in (1, 0):
                for b in range(2, 6):
                    for feed, letters in (("array", list(SCALES)), ("route:ipca-infer", list(SCALES)), ("route:ipca-explicit", list(SCALES)), ("route:ipca-eps", list(SCALES))):
                        for letter in letters:
                            if letter == "+1e6" and not centred:
                                continue
                            out.append(("pca", d, 6, centred, "gen@" + letter, feed, 1, b))
                    if 2 * b <= 6:
                        for kind in ("samemean", "nearmean"):
                            out.append(("pca", d, 6, centred, kind, "array", 1, b))
                            out.append(("pca", d, 6, centred, kind, "route:ipca-infer", 1, b))
        for centred in (1, 0):
            for b in range(2, 6):
                out.append(("pca", 200, 6, centred, "gen", "array", 1, b))
        # argument forms: integer valued payload presented in every form of FORMS
        for n in [6] if self.tier == "quick" else [6, 8]:
            for d in ds:
                for centred in (1, 0):
                    for form in FORMS:
                        for b in range(2, n):
                            out.append(("pca", d, n, centred, "int", "form:" + form, 1, b))
        # every composition executed as its own trace (no merging): array feed for every n in scope
        # (n = 12: initial batch >= 4, i.e. 256 compositions per letter; the merging roots above execute every 2- and
        # 3-part composition of every prefix literally, because every state they reach at level 1 is expanded once
        # more), the other feeds at n = 6 (thorough)
        for n in [6, 8] if self.tier == "quick" else ns:
            for d in ds:
                for centred in (1, 0):
                    for kind in PCA_DATA:
                        for feed in PCA_FEED if (self.tier == "thorough" and n == 6) else ["array"]:
                            for b in range(2 if n <= 8 else 4, n):
                                out.append(("pca", d, n, centred, kind, feed, 0, b))
        # ("gmrf", graph, mode, sparse, bias, k, feed, n, initial batch, merge)
        n = 9 if self.tier == "quick" else 12
        graphs = GRAPHS_QUICK if self.tier == "quick" else GRAPHS_THOROUGH
        for g in graphs:
            modes = ["concatenation", "subtraction"] if GRAPHS[g][2] else ["concatenation"]
            for mode in modes:
                for sparse in (1, 0):
                    for bias in (0, 1):
                        for k in (2, 1):
                            # the feed letters only change how the data matrix is assembled: 3-vertex graphs carry them all
                            for feed in GMRF_FEED if GRAPHS[g][1] == 3 else ["array"]:
                                for b in range(GMRF_MIN_BATCH, n):
                                    out.append(("gmrf", g, mode, sparse, bias, k, feed, n, b, 1))
                            for b in range(GMRF_MIN_BATCH, n):
                                out.append(("gmrf", g, mode, sparse, bias, k, "array", n, b, 0))
        # argument forms for the random field: vertex-block path (edgeless) and edge path (chain; thorough: also the rooted tree and the digraph)
        for g in ["edgeless", "chain"] if self.tier == "quick" else ["edgeless", "chain", "tree", "digraph"]:
            modes = ["concatenation", "subtraction"] if GRAPHS[g][2] else ["concatenation"]
            for mode in modes:
                for sparse in (1, 0):
                    for bias in (0, 1):
                        for form in FORMS:
                            if FORMS[form][1]:
                                for b in range(GMRF_MIN_BATCH, n):
                                    out.append(("gmrf", g, mode, sparse, bias, 2, "form:" + form, n, b, 1))
        # scale letters for the random field (edgeless and chain; the offset letter on difference features only) and the
        # large-size letter (12 vertices)
        for g in ("edgeless", "chain"):
            modes = ["concatenation", "subtraction"] if GRAPHS[g][2] else ["concatenation"]
            for mode in modes:
                for sparse in (1, 0):
                    for bias in (0, 1):
                        for letter in SCALES:
                            if letter == "+1e6" and not (GRAPHS[g][2] and mode == "subtraction"):
                                continue
                            for b in range(GMRF_MIN_BATCH, n):
                                out.append(("gmrf", g, mode, sparse, bias, 2, "scale:" + letter, n, b, 1))
        for mode in ("concatenation", "subtraction"):
            for sparse in (1, 0):
                for b in range(GMRF_MIN_BATCH, n):
                    out.append(("gmrf", "chain12", mode, sparse, 0, 2, "array", n, b, 1))
        # the driver hands out consecutive chunks of roots: deal the roots, heaviest first, into 128 groups of equal
        # estimated cost so that no worker ends up with all the 1024-composition roots (order is a fixed function of the tier)
        def cost(r):
            incs, merge = self._max_incs(r), (r[6] if r[0] == "pca" else r[9])
            return (incs * (incs + 1)) // 2 if merge else 2 ** incs * max(2, incs)

        ranked = sorted(range(len(out)), key=lambda i: (-cost(out[i]), i))
        groups = 128
        out = [out[i] for g in range(groups) for i in ranked[g::groups]]
        self._roots = out
        return out

    # ------------------------------------------------------------------ build
    def build(self, root):
        if root[0] == "pca":
            return self._build_pca(root)
        return self._build_gmrf(root)

    @staticmethod
    def _feed_form(st, rows, initial):
        form = st["feed"][5:]
        if initial and (FORMS[form][2] or (st["fam"] == "pca" and not FORMS[form][0])):
            return np.array(rows, dtype=np.float64, copy=True), {}
        return present(form, rows)

    def _feed_pca(self, st, rows, initial=False):
        feed = st["feed"]
        if feed.startswith("form:"):
            return self._feed_form(st, rows, initial)
        if feed.startswith("route:"):
            rows = np.array(rows, dtype=np.float64, copy=True)
            if feed.startswith("route:pcmodel-"):
                from menpo.shape import PointCloud

                return [PointCloud(r.reshape(st["pc_shape"]).copy()) for r in rows], {}
            return rows, ({"forgetting_factor": 1.0} if feed == "route:noinplace" else {})
        rows = np.array(rows, copy=True)  # the model centres its input in place (inplace=True is the default)
        if feed == "array":
            return rows, {}
        if feed == "list":
            return [r.copy() for r in rows], {}
        from menpo.shape import PointCloud

        pcs = [PointCloud(r.reshape(st["pc_shape"]).copy()) for r in rows]
        if feed == "pc":
            return pcs, {}
        return iter(pcs), {"n_samples": len(pcs)}

    def _build_pca(self, root):
        from menpo.model import PCAModel, PCAVectorModel

        _, d, n, centred, kind, feed, merge, b = root
        X = pca_data(self.seed, d, n, kind, b if kind.split("@")[0] in B_DEPENDENT else 0)
        st = {"fam": "pca", "root": root, "X": X, "n": n, "d": d, "centred": bool(centred), "feed": feed, "merge": merge, "consumed": b, "hist": (), "pc_shape": _pc_shape(d), "scale": float(np.abs(X).max())}
        st["tolx"] = 1e4 if feed.startswith("form:") and FORMS[feed[5:]][2] else 1.0
        if kind.endswith("@+1e6"):
            st["tolx"] = 100.0  # centring data that sit 1e6 spreads from the origin costs log10(1e6) digits: eps * offset / spread = 1e-10
        data, kw = self._feed_pca(st, X[:b], initial=True)
        cls = PCAModel if feed in ("pc", "pciter") else PCAVectorModel
        if feed.startswith("route:"):
            st["model"], st["error"] = _try(lambda: build_route(feed[6:], X[:b], centred, st["pc_shape"]))
        else:
            st["model"], st["error"] = _try(lambda: cls(data, centre=bool(centred), **kw))
        st["ref"] = pca_definition(X[:b], bool(centred))
        return st

    def _feed_gmrf(self, st, rows, initial=False):
        feed = st["feed"]
        if feed.startswith("form:"):
            return self._feed_form(st, rows, initial)
        rows = np.array(rows, copy=True)
        if feed == "array" or feed.startswith("scale:"):
            return rows, {}
        if feed == "list":
            return [r.copy() for r in rows], {}
        from menpo.shape import PointCloud

        pcs = [PointCloud(r.reshape(st["nv"], st["k"]).copy()) for r in rows]
        if feed == "pc":
            return pcs, {}
        return iter(pcs), {"n_samples": len(pcs)}

    def _build_gmrf(self, root):
        from menpo.model import GMRFModel, GMRFVectorModel

        _, g, mode, sparse, bias, k, feed, n, b, merge = root
        nv = GRAPHS[g][1]
        X = gmrf_data(self.seed, nv, k, n, 1 if feed.startswith("form:") else 0)
        if feed.startswith("scale:"):
            X = scale_payload(np.array(X, copy=True), feed[6:], uniform=True)
        st = {"fam": "gmrf", "root": root, "X": X, "n": n, "g": g, "nv": nv, "k": k, "mode": mode, "sparse": bool(sparse), "bias": bias, "feed": feed, "merge": merge, "consumed": b, "hist": (), "scale": float(np.abs(X).max())}
        st["tolx"] = 1e4 if feed.startswith("form:") and FORMS[feed[5:]][2] else 1.0
        if feed == "scale:+1e6":
            st["tolx"] = 100.0
        data, kw = self._feed_gmrf(st, X[:b], initial=True)
        cls = GMRFModel if feed in ("pc", "pciter") else GMRFVectorModel
        st["model"], st["error"] = _try(lambda: cls(data, make_graph(g), mode=mode, sparse=bool(sparse), bias=bias, dtype=np.float64, incremental=True, **kw))
        st["ref"] = gmrf_definition(X[:b], g, k, mode, bias)
        return st

    # ------------------------------------------------------------------ observation (public API only)
    @staticmethod
    def _observe(st):
        m = st["model"]
        if st["fam"] == "pca":
            C = np.array(m.components, dtype=float, copy=True)
            lam = np.array(m.eigenvalues, dtype=float, copy=True)
            o = {"n": int(m.n_samples), "mean": _vec(m.mean()).copy(), "eig": lam, "proj": C.T.dot(C)}
            o["spec"] = (C.T * lam).dot(C) if C.shape[0] == lam.shape[0] else np.zeros((0, 0))
            o["n_components"] = int(m.n_components)
            o["n_active"] = int(m.n_active_components)
            return o
        return {"n": int(m.n_samples), "mean": np.array(m.mean_vector, dtype=float, copy=True), "prec": _dense(m.precision)}

    def _scales(self, st, ref):
        if st["fam"] == "pca":
            l0 = float(ref["eig"][0]) if len(ref["eig"]) else 1.0
            return {"mean": st["scale"], "eig": l0, "proj": 1.0, "spec": l0}
        return {"mean": st["scale"], "prec": float(np.abs(ref["prec"]).max())}

    def canon(self, st):
        if st["model"] is None:
            return (st["root"], "initial-batch-model-could-not-be-built")
        o = self._observe(st)
        ref = st["ref"]
        sc = self._scales(st, ref)
        key = [st["root"][:-1] if st["fam"] == "pca" else st["root"][:8] + st["root"][9:], st["consumed"], o["n"]]
        for name in sorted(sc):
            a, r = o[name], ref[name]
            if a.shape == r.shape and np.all(np.isfinite(a)):
                # quantised deviation from the definition: 0 everywhere unless this history produced something
                # observably different from the other histories that reached the same prefix
                q = np.round((a - r) / (GRID_FRACTION * TOLS[name] * st["tolx"] * sc[name])) + 0.0
                key.append((name, a.shape, q.astype(np.int64).tobytes() if np.abs(q).max(initial=0) < 2 ** 62 else obs_key(a, 6)))
            else:
                key.append((name, "shape", obs_key(a, 6)))
        if st["fam"] == "pca":
            key.append((o["n_components"], o["n_active"]))
        if not st["merge"]:
            key.append(st["hist"])
        return tuple(key)

    # ------------------------------------------------------------------ alphabet
    def ops(self, st, level):
        if st["model"] is None:
            return []
        incs = list(range(1, st["n"] - st["consumed"] + 1))
        letters = self._refusal_letters(st)
        # refused calls first: each is a self loop (the key must not change), so the explorer keeps the live model
        # and the valid increment that follows runs on a model that has seen all of them; then the valid increments;
        # then every (refused call, valid increment) pair on one live model
        out = [("refuse", r) for r in letters]
        out += [("inc", j) for j in incs]
        out += [("inc", j, r) for r in letters for j in incs]
        return out

    def _refusal_letters(self, st):
        """refused-call letters are enabled on the merging roots of the smallest n (PCA: n = 6, thorough also 8; GMRF:
        edgeless and chain, 2 features per vertex) - a fixed function of the root."""
        root = st["root"]
        if not st["merge"]:
            return []
        if st["fam"] == "pca":
            if st["feed"] in PCA_REFUSALS and st["n"] in ((6,) if self.tier == "quick" else (6, 8)):
                return PCA_REFUSALS[st["feed"]]
            return []
        if st["feed"] in GMRF_REFUSALS and st["g"] in ("edgeless", "chain") and st["k"] == 2:
            return GMRF_REFUSALS[st["feed"]]
        return []

    # ------------------------------------------------------------------ refused calls
    def _full_obs(self, st):
        from mc.observe import observe

        o = {"model": observe(st["model"])}
        if st.get("frozen") is not None:
            o["frozen"] = observe(st["frozen"])
        return o

    def _refuse(self, st, letter, verify):
        """one refused increment on the live model: (a) raises, (b) nothing observable changes - model, argument -,
        (c) the same call is refused again in the same way.  (d) is the ordinary oracle of whatever valid op follows."""
        from mc.observe import obs_diff

        c0 = st["consumed"]
        rows = st["X"][c0 - 2 : c0]
        target = st["model"]
        if letter == "frozen":
            if st.get("frozen") is None:
                from menpo.model import GMRFVectorModel

                st["frozen"] = GMRFVectorModel(np.array(st["X"][: st["root"][8]], copy=True), make_graph(st["g"]), mode=st["mode"], sparse=st["sparse"], bias=st["bias"], dtype=np.float64, incremental=False)
            target = st["frozen"]
            make = lambda: (np.array(rows, copy=True), {})  # noqa: E731  a perfectly valid increment
        else:
            make = lambda: refused_argument(letter, st["feed"], rows, st.get("pc_shape") or (st.get("nv"), st.get("k")))  # noqa: E731
        fam = st["fam"]
        where = self._where(st) + "+refused"
        ctx = "refused call %r after increments %r (root %r)" % (letter, st["hist"], st["root"])
        before = self._full_obs(st) if verify else None
        outcomes = []
        fails = []
        for attempt in (1, 2):
            arg, kw = make()
            snap = _snap(arg)
            _, err = _try(lambda: target.increment(arg, **kw))
            outcomes.append(err)
            if not verify:
                return []
            if err is None:
                self.note("%s-refusal:%s-ACCEPTED" % (fam, REFUSAL_KIND[letter]))
                return [Failure(where, "refused-call-accepted", "increment did not raise: %s" % ctx)]
            if not _snap_equal(snap, _snap(arg)):
                fails.append(Failure(where, "refused-call-changed-its-argument", ctx))
            diff = obs_diff(before, self._full_obs(st))
            if diff is not None:
                fails.append(Failure(where, "refused-call-changed-the-model", "attempt %d raised %s but the model is no longer what it was: %s; %s" % (attempt, err, diff, ctx)))
                break
        if len(outcomes) == 2 and outcomes[0] != outcomes[1]:
            fails.append(Failure(where, "refused-call-retry-differs", "first %s, then %s; %s" % (outcomes[0], outcomes[1], ctx)))
        if letter == "frozen" and outcomes and outcomes[0] and not outcomes[0].startswith("ValueError"):
            fails.append(Failure(where, "refused-call-exception-class", "a model built with incremental=False raised %s, not ValueError; %s" % (outcomes[0], ctx)))
        self.note("%s-refusal:%s" % (fam, REFUSAL_KIND[letter]))
        self.note("%s-refusal-letter:%s" % (fam, letter))
        self.note("%s-refusal-raised:%s" % (fam, (outcomes[0] or "").split(":")[0]))
        return fails

    # ------------------------------------------------------------------ step
    def apply(self, st, op, verify=True):
        if op[0] == "refuse":
            return self._refuse(st, op[1], verify)
        if len(op) > 2:
            # a refused call, then a valid increment on the same live model: (d) the valid increment must behave as if
            # the refused call had never been made (all the ordinary oracles below)
            pre = self._refuse(st, op[2], verify)
            if pre:
                return pre
            self.note("%s-refusal:then-valid-increment" % st["fam"])
        j = int(op[1])
        c0 = st["consumed"]
        rows = st["X"][c0 : c0 + j]
        m = st["model"]
        if st["fam"] == "pca":
            mean_before = _vec(m.mean())
            zero_mean = st["centred"] and bool(np.all(mean_before == 0))
            zero_coord = st["centred"] and bool(np.any(mean_before == 0)) and not zero_mean
            ncomp_before = int(m.n_components)
            data, kw = self._feed_pca(st, rows)
        else:
            data, kw = self._feed_gmrf(st, rows)
        if verify:
            # what increment raises on valid data is a finding of this step, reported with its history (and
            # reproducible by --replay), not a crash of the harness
            ret, err = _try(lambda: m.increment(data, **kw))
            if err:
                self.note("%s:raised" % ("pca-step" if st["fam"] == "pca" else "gmrf-step"))
                return [Failure(self._where(st), "increment-raised", "increment(%d samples) after %r raised %s (root %r)" % (j, st["hist"], err, st["root"]))]
        else:
            ret = m.increment(data, **kw)
        st["consumed"] = c = c0 + j
        st["hist"] = st["hist"] + (j,)
        P = st["X"][:c]
        if st["fam"] == "pca":
            st["ref"] = ref = pca_definition(P, st["centred"])
        else:
            st["ref"] = ref = gmrf_definition(P, st["g"], st["k"], st["mode"], st["bias"])
        if not verify:
            return []
        fails = []
        if ret is not None:
            fails.append(Failure(self._where(st), "increment-returns-none", "increment returned %r" % (ret,)))
        o = self._observe(st)
        sc = self._scales(st, ref)
        batch, err = _try(lambda: self._batch(st, P))
        if err:
            fails.append(Failure(self._where(st), "batch-model-raised", "the batch model of the %d samples consumed cannot be built: %s (root %r)" % (c, err, st["root"])))
        else:
            fails += self._compare(st, o, batch, sc, "", "menpo batch model of the %d samples consumed" % c, op)
        fails += self._compare(st, o, ref, sc, "-vs-definition", "definition on the %d samples consumed" % c, op)
        fails += self._route_clauses(st, o, sc, op)
        fails += self._scale_clause(st, o, sc, op)
        # outcome classes
        if st["fam"] == "pca":
            fam = "pca-inc"
            if zero_coord:
                self.note("%s:running-mean-has-an-exactly-zero-coordinate" % fam)
            if st["centred"] and np.abs(rows.mean(axis=0) - mean_before).max() <= 1e-5 * st["scale"] and np.ptp(rows, axis=0).max() > 1e-3 * np.ptp(st["X"], axis=0).max():
                self.note("%s:increment-mean-equals-running-mean" % fam)  # to 1e-5 of the magnitude, although the samples vary
            if st["d"] >= 200:
                self.note("pca-size:200-features")
            if st["feed"].startswith("route:"):
                self.note("pca-route:%s" % st["feed"][6:])
            self.note("%s:%s" % (fam, "prefix<=d(gram-path)" if c <= st["d"] else "prefix>d(covariance-path)"))
            self.note("%s:%s" % (fam, "rank-grew" if len(ref["eig"]) > ncomp_before else "rank-unchanged"))
            if zero_mean:
                self.note("%s:running-mean-exactly-zero" % fam)
            self.note("%s:%s" % (fam, "centred" if st["centred"] else "uncentred"))
            self.note("pca-data:%s" % st["root"][4])
            if not st["feed"].startswith("route:"):
                self.note(("pca-form:%s" % st["feed"][5:]) if st["feed"].startswith("form:") else ("pca-feed:%s" % st["feed"]))
            self.note("pca-chunk:%s" % ("one-sample" if j == 1 else "several"))
        else:
            self.note("gmrf-graph:%s" % st["g"])
            self.note("gmrf-mode:%s" % (st["mode"] if GRAPHS[st["g"]][2] else "vertex-blocks"))
            self.note("gmrf-storage:%s" % ("sparse" if st["sparse"] else "dense"))
            self.note("gmrf-bias:%d" % st["bias"])
            self.note("gmrf-k:%d" % st["k"])
            self.note(("gmrf-form:%s" % st["feed"][5:]) if st["feed"].startswith("form:") else ("gmrf-feed:%s" % st["feed"]))
            self.note("gmrf-chunk:%s" % ("one-sample" if j == 1 else "several"))
        self.note("%s:%s" % ("pca-step" if st["fam"] == "pca" else "gmrf-step", "agrees" if not fails else "differs"))
        self.note("history:%s" % ("first-increment" if len(st["hist"]) == 1 else "later-increment"))
        return fails

    def _scale_clause(self, st, o, sc, op):
        """scale equivariance: the model of s*X (X + t) is the model of X carried over analytically."""
        if st["fam"] == "pca":
            kind = st["root"][4]
            if "@" not in kind:
                return []
            base, letter = kind.split("@")
            Xb = pca_data(self.seed, st["d"], st["n"], base, st["root"][7] if base in B_DEPENDENT else 0)
            ref = pca_definition(Xb[: st["consumed"]], st["centred"])
        else:
            if not st["feed"].startswith("scale:"):
                return []
            letter = st["feed"][6:]
            Xb = gmrf_data(self.seed, st["nv"], st["k"], st["n"], 0)
            ref = gmrf_definition(Xb[: st["consumed"]], st["g"], st["k"], st["mode"], st["bias"])
        exp = scale_expectation(ref, letter, Xb[: st["consumed"]], uniform=st["fam"] == "gmrf")
        self.note("%s-scale:%s" % (st["fam"], letter))
        return self._compare(st, o, exp, sc, "-scale-equivariance", "definition on the unscaled payload carried over by %s" % letter, op)

    def _route_clauses(self, st, o, sc, op):
        """route agreement: the same history through the plain route (constructor + increment method) gives the same
        model; a route must not write into what the caller handed over; method and property forms of the mean agree."""
        fails = []
        m = st["model"]
        where = self._where(st)
        if st["fam"] == "pca" and st["feed"].startswith("route:"):
            from menpo.model import PCAVectorModel

            b = st["root"][7]
            twin = PCAVectorModel(np.array(st["X"][:b], copy=True), centre=st["centred"])
            pos = b
            for j in st["hist"]:
                twin.increment(np.array(st["X"][pos : pos + j], copy=True))
                pos += j
            twin_state = dict(st)
            twin_state["model"] = twin
            fails += self._compare(st, o, self._observe(twin_state), sc, "-route-agreement", "plain route PCAVectorModel(first batch).increment(...) on the same chunks", op)
            mutated = getattr(m, "argument_mutated", None) or getattr(m, "_c11_argument_mutated", None)
            if mutated:
                fails.append(Failure(where, "route-changed-callers-data", "%s (root %r, increments %r)" % (mutated, st["root"], st["hist"])))
            self.note("pca-route-agreement:%s" % ("agrees" if not fails else "differs"))
        # method and property forms of the same quantity
        if hasattr(m, "mean_vector") and callable(getattr(m, "mean", None)):
            a, b_ = _vec(m.mean()), np.asarray(m.mean_vector, dtype=float)
            if a.shape != b_.shape or not np.array_equal(a, b_):
                fails.append(Failure(where, "mean-method-vs-property", "mean() and mean_vector differ (root %r, increments %r)" % (st["root"], st["hist"])))
            self.note("mean-method-vs-property:%s" % st["fam"])
        return fails

    @staticmethod
    def _where(st):
        if st["fam"] == "pca":
            return "pca-%s-%s" % ("centred" if st["centred"] else "uncentred", st["feed"])
        return "gmrf-%s-%s-%s-bias%d" % (st["g"], st["mode"] if GRAPHS[st["g"]][2] else "vertex", "sparse" if st["sparse"] else "dense", st["bias"])

    def _batch(self, st, P):
        """the comparator the property names: one menpo model built from everything consumed so far."""
        if st["fam"] == "pca":
            from menpo.model import PCAVectorModel

            b = PCAVectorModel(np.array(P, copy=True), centre=st["centred"])
            C = np.array(b.components, dtype=float)
            lam = np.array(b.eigenvalues, dtype=float)
            return {"n": int(b.n_samples), "mean": _vec(b.mean()), "eig": lam, "proj": C.T.dot(C), "spec": (C.T * lam).dot(C)}
        from menpo.model import GMRFVectorModel

        b = GMRFVectorModel(np.array(P, copy=True), make_graph(st["g"]), mode=st["mode"], sparse=st["sparse"], bias=st["bias"], dtype=np.float64, incremental=False)
        return {"n": int(b.n_samples), "mean": np.array(b.mean_vector, dtype=float), "prec": _dense(b.precision)}

    def _compare(self, st, o, exp, sc, suffix, what, op):
        where = self._where(st)
        ctx = "root %r, increments so far %r" % (st["root"], st["hist"])
        fails = []
        if o["n"] != exp["n"]:
            fails.append(Failure(where, "n_samples" + suffix, "n_samples = %r, %s has %r (%s)" % (o["n"], what, exp["n"], ctx)))
        tols = {k: v * st["tolx"] for k, v in TOLS.items()}
        names = {"mean": "mean", "eig": "eigenvalues", "proj": "subspace", "spec": "eigen-directions", "prec": "precision"}
        for key in ("mean", "eig", "proj", "spec", "prec"):
            if key not in sc:
                continue
            a, e = o[key], exp[key]
            if a.shape != e.shape:
                if key in ("spec",) and o["eig"].shape != exp["eig"].shape:
                    continue  # already reported as an eigenvalue-count difference
                fails.append(Failure(where, names[key] + suffix, "%s has shape %s, %s has %s (%s)" % (names[key], a.shape, what, e.shape, ctx)))
                continue
            if not np.all(np.isfinite(a)):
                fails.append(Failure(where, names[key] + suffix, "%s is not finite (%s)" % (names[key], ctx)))
                continue
            err = float(np.abs(a - e).max(initial=0.0)) / sc[key]
            self._worst(key + suffix, err)
            if err > tols[key]:
                fails.append(Failure(where, names[key] + suffix, "%s differs from the %s by %.3g (scaled; tolerance %.1g) (%s)" % (names[key], what, err, tols[key], ctx)))
        return fails

    def _worst(self, key, err):
        # decade of the worst scaled error seen, as an outcome note (sizes the tolerance margin in the evidence)
        if err <= 0:
            dec = "exact"
        else:
            dec = "1e%+03d" % int(np.ceil(np.log10(err)))
        self.note("err-%s:<=%s" % (key, dec))

    # ------------------------------------------------------------------ root oracle
    def check_root(self, st, root):
        """zero increments: the initial batch model is itself a batch model - compared with the definition, so that a
        broken comparator cannot make the step oracle vacuous."""
        if st["model"] is None:
            self.note("root:%s-raised" % st["fam"])
            return [Failure(self._where(st), "initial-batch-model-raised", "the model of the initial batch cannot be built: %s (root %r)" % (st["error"], root))]
        o = self._observe(st)
        sc = self._scales(st, st["ref"])
        fails = self._compare(st, o, st["ref"], sc, "-vs-definition", "definition on the initial batch", None)
        self.note("root:%s-%s" % (st["fam"], "agrees" if not fails else "differs"))
        if st["fam"] == "pca" and st["centred"] and bool(np.all(o["mean"] == 0)):
            self.note("root:pca-initial-mean-exactly-zero")
        return fails

    # ------------------------------------------------------------------ reporting
    def vacuity(self, notes, stats):
        need = [
            "pca-inc:prefix<=d(gram-path)",
            "pca-inc:prefix>d(covariance-path)",
            "pca-inc:rank-grew",
            "pca-inc:rank-unchanged",
            "pca-inc:running-mean-exactly-zero",
            "pca-inc:centred",
            "pca-inc:uncentred",
            "root:pca-initial-mean-exactly-zero",
            "pca-step:agrees",
            "gmrf-step:agrees",
            "history:first-increment",
            "history:later-increment",
            "pca-chunk:one-sample",
            "pca-chunk:several",
            "gmrf-chunk:one-sample",
            "gmrf-chunk:several",
            "gmrf-mode:vertex-blocks",
            "gmrf-mode:concatenation",
            "gmrf-mode:subtraction",
            "gmrf-storage:sparse",
            "gmrf-storage:dense",
            "gmrf-bias:0",
            "gmrf-bias:1",
            "gmrf-k:1",
            "gmrf-k:2",
        ]
        need += ["pca-scale:%s" % k for k in SCALES] + ["gmrf-scale:%s" % k for k in SCALES] + ["pca-data:samemean", "pca-data:nearmean", "pca-size:200-features", "gmrf-graph:chain12"]
        need += ["pca-inc:increment-mean-equals-running-mean"]
        need += ["pca-route:%s" % r for r in ROUTES] + ["pca-data:zcol", "pca-data:zmean", "pca-inc:running-mean-has-an-exactly-zero-coordinate", "pca-route-agreement:agrees"]
        need += ["mean-method-vs-property:pca", "mean-method-vs-property:gmrf"]
        need += ["pca-refusal:%s" % k for k in sorted(set(REFUSAL_KIND[r] for v in PCA_REFUSALS.values() for r in v))]
        need += ["gmrf-refusal:%s" % k for k in sorted(set(REFUSAL_KIND[r] for v in GMRF_REFUSALS.values() for r in v))]
        need += ["pca-refusal-letter:%s" % r for r in sorted(set(r for v in PCA_REFUSALS.values() for r in v))]
        need += ["gmrf-refusal-letter:%s" % r for r in sorted(set(r for v in GMRF_REFUSALS.values() for r in v))]
        need += ["pca-refusal:then-valid-increment", "gmrf-refusal:then-valid-increment"]
        need += ["pca-form:%s" % f for f in FORMS] + ["gmrf-form:%s" % f for f in FORMS if FORMS[f][1]] + ["pca-data:int"]
        need += ["pca-data:%s" % k for k in PCA_DATA] + ["pca-feed:%s" % f for f in PCA_FEED] + ["gmrf-feed:%s" % f for f in GMRF_FEED]
        need += ["gmrf-graph:%s" % g for g in (GRAPHS_QUICK if self.tier == "quick" else GRAPHS_THOROUGH)]
        out = ["outcome %s never produced" % n for n in need if not notes.get(n)]
        if not getattr(stats, "merged", 0):
            out.append("no two chunkings ever met in one canonical state (confluence never exercised)")
        return out

    def rule(self):
        return (
            "state machine per (configuration letter, initial batch size): state = (samples consumed, live model), transition = "
            "increment(next k samples) for every k that fits; breadth first to the full depth n - b, so every composition of every "
            "prefix into an initial batch and increments is a path; states keyed by (letter, samples consumed, deviation from the "
            "definition quantised at a tenth of the tolerance); after EVERY increment the model is compared with the menpo batch model of the samples "
            "consumed and with the plain-numpy definition; roots with merge=0 run every composition as its own trace"
        )

    def alphabet_sizes(self):
        roots = self.roots()
        ns, ds = self._pca_sizes()
        return {
            "roots": len(roots),
            "pca_roots": sum(1 for r in roots if r[0] == "pca"),
            "gmrf_roots": sum(1 for r in roots if r[0] == "gmrf"),
            "pca_n": ns,
            "pca_d": ds,
            "pca_data_letters": PCA_DATA,
            "pca_feed_letters": PCA_FEED,
            "scale_letters": {k: "%s %g" % v for k, v in SCALES.items()},
            "public_routes": {r: {"initial_batch": v[0], "increment": v[1], "centring": ["uncentred", "centred"][min(v[2]) :] if len(v[2]) == 2 else ["uncentred"]} for r, v in ROUTES.items()},
            "route_data_letters": ROUTE_DATA,
            "refused_call_letters": {"pca": PCA_REFUSALS, "gmrf": GMRF_REFUSALS, "kinds": REFUSAL_KIND},
            "argument_forms": {f: {"also_initial_batch": bool(v[0]), "gmrf": bool(v[1]), "single_precision_tolerance_x1e4": bool(v[2])} for f, v in FORMS.items()},
            "pca_compositions_per_n": {str(n): 2 ** (n - 2) for n in ns},
            "gmrf_graphs": GRAPHS_QUICK if self.tier == "quick" else GRAPHS_THOROUGH,
            "gmrf_n": 9 if self.tier == "quick" else 12,
            "gmrf_min_initial_batch": GMRF_MIN_BATCH,
            "guards": {"rank_threshold": RANK_THR, "rank_zero": RANK_ZERO, "rank_min_nonzero": RANK_MIN, "gmrf_block_cond_max": COND_MAX},
            "tolerances": {"mean_abs_scaled": TOL_MEAN, "eigenvalues_rel_lmax": TOL_EIG, "projector_abs": TOL_PROJ, "precision_rel_max": TOL_PREC, "canon_grid_fraction_of_tolerance": GRID_FRACTION},
        }

    def assumptions(self):
        return [
            "data sets are the seeded letters gen / zero-mean-first-batch / rank-2 (PCA) and one correlated Gaussian cloud per (V, k) (GMRF), "
            "all under the general-position guard printed in the alphabet (unambiguous numerical rank of every prefix; block covariances with condition number <= %g)" % COND_MAX,
            "PCA: n <= %d samples, d in {3, 5, 10}, initial batch >= 2, forgetting factor 1.0 (default), all components active" % max(self._pca_sizes()[0]),
            "GMRF: 3 (thorough: also 4) vertices, 1 or 2 features per vertex, initial batch >= %d so that every block covariance is invertible, float64, n_components=None" % GMRF_MIN_BATCH,
            "argument forms (integer payload in float32 / int64 / int32 / int16 / int8 / uint8 / uint16, python lists and tuples of floats and ints, numpy scalars, "
            "lists of rows, read-only, strided, Fortran-order, numpy-integer n_samples) are letters only where the unchanged tree accepts them: the PCA constructor "
            "refuses integer and read-only input (it centres in place), so those forms are fed to increment() only; np.matrix is refused / mis-indexed; bool is not a sample matrix",
            "refused-call letters exist only where the tree refuses: NaN / inf samples are accepted silently by the GMRF (and an empty block by the uncentred PCA model), so they are "
            "not refusals at all; the GMRF shape refusals (wrong number of features, 1-d, 3-d, one-column) are letters since fix D36",
            "public routes are those of ROUTES (module-level pca / pcacov / ipca with centring inferred, given by keyword or positionally, init_from_components / init_from_covariance_matrix of "
            "both model classes, inplace=False, forgetting_factor=1.0 given); the route `ipca-infer` is not run on the centred `zero` letter because ipca documents an all-zero m_a as "
            "'not centred' when `centred` is not passed; the inverse-covariance routes exist only where the first batch has full rank (d = 3)",
            "scale letters: tolerances are relative to the magnitude of the (scaled) payload - mean: max|X|, eigenvalues: largest eigenvalue, precision: largest entry - and 100 x wider for the "
            "+1e6 offset letter (eps * offset / spread = 1e-10 is the accuracy of centring such data); only well-conditioned configurations: the offset letter is run on centred PCA and on "
            "difference features (GMRF subtraction mode, common offset) only",
            "NOT a letter: the offset letter for the GMRF in concatenation mode / edgeless graphs - the running covariance update n m m^T + X^T X - (n + n') m' m'^T cancels "
            "(conditioning): offset / spread = 1e3 gives a relative precision error of 1e-8, 1e6 gives 2e-3; the multiplicative scales run on every route since fix D38",
            "'random chunkings for larger n' of the quantifier are sampling and outside the technique; every composition of every n in scope is covered instead",
            "states reached by different chunkings of the same prefix are merged when their observations agree within a tenth of the tolerance (after their own step oracle passed); "
            "merge=0 roots and the thorough-tier confluence re-expansion do not rely on that abstraction",
        ]


CHECK = C11
